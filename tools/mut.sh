#!/bin/bash
# usage: tools/mut.sh <Cxx> <file-relative-to-ioos_qc> <sed-expression>   (runs the check on a scratch copy)
d=$(mktemp -d /tmp/mut.XXXX); cp -r /repo/ioos_qc $d/; sed -i -E "$3" $d/ioos_qc/$2
if diff -q -r /repo/ioos_qc $d/ioos_qc >/dev/null; then echo "NO CHANGE APPLIED"; fi
VERIF_REPO=$d ./check $1 2>&1 | grep -E "VIOLATION|ANALYSIS|^\[|^  rule" | cut -c1-260 | head -${4:-4}; rm -rf $d
