#!/usr/bin/env python3
"""Regenerates MANIFEST.json from the table below (single source of truth for what is claimed)."""
import json
from pathlib import Path

ROOT = Path(__file__).resolve().parent.parent

TABLES = 'abstract interpretation of the test source (sa/interp.py + library model) over scenario skeletons; order-cell table equality with the specification table (sa/cells.py, sa/specs.py)'

CLAIMED = {
    'C01': ('abstract interpretation: totality / value-set / mask / alias-effect analysis',
            'For every QC test, every length 0..4 (0..6 thorough), every missing placement and representative parameter sets the abstract interpreter derives: no exception, one flag per element, value set within {1,2,3,4,9}, unmasked result, no store into caller-owned memory, no shared-state write. Universal over data values (symbolic); bounded in length.',
            'Trusts the numpy/pandas model (DESIGN §3). Lengths above the bound are covered only by the locality of the interpreted slices; exotic parameter combinations are not enumerated.', '4 C01'),
    'C02': ('abstract interpretation + order-cell tables projected on MISSING',
            'Every placement of missing values (None/NaN) for lengths 0..5 in data and auxiliary inputs, all ten tests: missing observation => MISSING (UNKNOWN where undefined); MISSING at a present point only where the property allows.',
            'Library model for mask propagation (rows 2-4, 11, 12). Masked-array carriers are reported under C15.', '4 C02'),
    'C03': ('order-cell table equality (gross_range_test, valid_range_test)', 'Exhaustive over all orderings of value vs span ends, span order, suspect given/absent, inclusivity flags, bound absent, numbers and datetimes; rejection rules.', 'numpy comparison semantics as modelled; float rounding not decided, except through two structural necessary conditions: observations are compared with the parameter itself (not with a number derived from it), and integer data meets whole-number bounds without a float64 conversion.', '4 C03'),
    'C08': ('order-cell table equality (ClimatologyConfig.add/convert/check via climatology_test)', 'Member lists with absolute / month / week / dayofyear / quarter spans, with and without depth and fail spans, overlapping in both orders, depth present / missing / all missing, times on every span end; value in every cell relative to all span ends.', 'Calendar attributes are supplied by the scenario (pandas calendar arithmetic is trusted).', '4 C08'),
    'C09': ('order-cell table equality + statistic identity testing (spike_test)', 'Both methods, all threshold combinations incl. absent / zero / equal / swapped, lengths 1..4 (6 thorough), all missing placements; the compared statistic must be the same function of the three neighbours as the property formula (exact rational identity test).', 'float rounding at a threshold not decided.', '4 C09'),
    'C10': ('order-cell table equality + statistic identity testing (rate_of_change_test, speed_test)', 'Regular and irregular whole-second axes, thresholds incl. zero, missing patterns; |dx|/dt and geodesic(prev,cur)/dt forms including the seconds unit; length-mismatch rejection.', 'geodesic distance is an uninterpreted symmetric function; float rounding not decided.', '4 C10'),
    'C11': ('order-cell table equality with explicit strided-window model (flat_line_test)', 'Window alignment (window of k+1 points ending at the flagged point), k=floor(threshold/step) incl. non-multiples / shorter than a step / longer than the series, FAIL over SUSPECT, strict tolerance, missing values ignored inside windows, memory-safety of the strided view, lengths 0..5 (6 thorough).', 'regular sampling as the property assumes; as_strided model (element offsets) is trusted.', '4 C11'),
    'C12': ('order-cell table equality with trailing time-window model (attenuated_signal_test)', 'Both check types, whole-series and windowed paths, min_obs / min_period, threshold orderings, missing patterns, unknown check_type rejection.', 'pandas rolling(offset) = (t-P, t], sample std (row 7) trusted; spread values symbolic.', '4 C12'),
    'C13': ('order-cell table equality (density_inversion_test) + exhaustive small-grid table (pressure_increasing_test)', 'Down / up / down-up / constant-depth profiles, threshold pairs incl. one absent, missing in density and depth independently, both points of a pair; pressure: all profiles over a 4-value grid up to length 4 (5 thorough).', 'float equality on a threshold not decided.', '4 C13'),
    'C14': ('order-cell table equality (location_test)', 'All lon/lat missing combinations up to length 3, default / custom / degenerate boxes, range_max absent / given / zero, every cell of lon and lat relative to the box edges and of the hop distance relative to range_max; shape and bbox rejection.', 'geodesic distance uninterpreted.', '4 C14'),
}

CLAIMED.update({
    'C04': ('abstract interpretation of qartod_compare / aggregate / PandasStore.compute_aggregate on a finite flag domain',
            'Exhaustive over k<=3 vectors x {1,2,3,4,9, non-flag, masked} per position (+ two-point vectors): result = precedence maximum, MISSING when nothing remains, unmasked, inputs untouched; aggregate() and compute_aggregate() use all results and append one roll-up.',
            'k>3 follows only from the symmetric structure; numpy where/== on masked arrays as modelled.', '4 C04'),
    'C05': ('abstract interpretation of the five stream front ends + Config + Call.run; flag-expression equivalence with direct calls',
            'For windows absent / closed / half-open / empty / covering / between timestamps / several contexts, tables with and without auxiliary axes and with a non-default row index, neighbour- and time-dependent tests: the flags, subset mask and returned axis arrays of every (context, stream, test) equal a direct call on the rows starting <= t < ending. XarrayStream window handling is a recorded known finding.',
            'DataFrame / xarray containers are stubs (sa/models_xr.py): pandas / xarray selection semantics trusted as modelled; multi-dimensional variables not covered.', '4 C05'),
    'C06': ('abstract interpretation of collect_results_list / collect_results_dict on interpreted stream output',
            'Disjoint window layouts x yield orders x two front ends x tables with / without axes: one result per (stream, module, test), right rows, uncovered rows masked / UNKNOWN, list and dict forms agree, data and axes equal the source, order independent; synthetic results differing only in stream / module / test stay separate. Absent-axis crash is a recorded known finding.',
            'numpy masked_all / boolean scatter as modelled.', '4 C06'),
    'C07': ('abstract interpretation of Config / ContextConfig / load_config_as_dict / load_config_from_xarray over layouts x carriers',
            '11 logical configurations x 4 layouts x 12-14 carriers: the set of (stream, module, test, parameters, window, region) calls equals the configuration; unknown modules / tests skipped; default stream key honoured; invalid sources rejected. The parameterless-test stream mapping is a recorded known finding.',
            'Parsers are modelled by what they accept (sa/models_io.py); equality of what ruamel.yaml / json / xarray parse is trusted, not decided.', '4 C07'),
    'C15': ('abstract interpretation under every modelled carrier; flag-expression equivalence with the reference carrier',
            'Data: list with None, list / tuple with NaN, ndarray, pandas Series, masked array; time: datetime64[ns|s], epoch list / array, Series and DatetimeIndex naive / UTC, Python datetimes; spans list / tuple; all tests. Masked-array inputs (mask dropped) and pressure_increasing_test([.., None, ..]) are recorded known findings.',
            'Carrier objects are models (attribute sets, dtype ladders); that numpy / pandas convert real carriers as modelled is trusted; dask arrays not modelled.', '4 C15'),
    'C16': ('joint order-cell comparison of the flag expressions under loose vs strict parameters',
            'Every threshold-driven test, ordered parameter pairs for each nesting the property names (incl. adding a suspect threshold, zero thresholds): severity never decreases, UNKNOWN / MISSING cells coincide; disagreements confirmed by exact rational witnesses.',
            'parameter pairs are representatives; universal over data values.', '4 C16'),
    'C17': ('symbolic transformation of the inputs + equivalence of flag expressions; dependence stencil of each output',
            'x -> x+d (d symbolic), x -> -x, t -> t+D, joint data+span shift, series reversal (spike); data atoms of each flag within the neighbourhood table; making one observation missing leaves flags outside its neighbourhood unchanged.',
            'float rounding excluded as in the property (dyadic values); lengths 3..5 (6 thorough).', '4 C17'),
    'C18': ('abstract interpretation of Config / Call.run / stream front ends with one failing entry of every kind',
            'Nine fault kinds x positions (first / last / other stream / second context) x four front ends x two tables: the run completes, the failing entry contributes nothing, every healthy result is equivalent to the healthy-only run.',
            'same stubs as C05.', '4 C18'),
    'C19': ('regex AST analysis (re._parser) of cf_safe_name + abstract interpretation of PandasStore on interpreted stream output',
            'For all strings: substitution class = complement of [A-Za-z0-9_], replacement CF-safe, leading-digit guard; for concrete runs with illegal stream ids: all write_data / write_axes / include / exclude combinations (by stream id, test name, function): exact column set, CF-safe names, values, rows, roll-up.',
            'pandas DataFrame column assignment as modelled.', '4 C19'),
    'C20': ('abstract interpretation of fx_parser with a pyparsing model; identity of symbolic results with an independent arithmetic evaluator',
            'Systematic expression family (operator pairs / triples, parenthesisations, unary minus, chains) with symbolic statistics; history independence across failed parses; validator accept / reject table and agreement with the evaluator; create_config section wiring and _get_stats mapping; cell selection of _get_subset on grids in four storage orders (2-D and 3-D variables, reached through the creator configuration); knots of the periodic spline (strictly increasing, one row each, at least one day evaluated) for eight kinds of time axis.',
            'pyparsing semantics modelled (sa/models_pp.py, validated at development time against the real library); the value of the spline is taken to be the constant on constant data (scipy not modelled); NaN cells of the climatology not covered.', '4 C20'),
})

NOT_YET = {}


def main():
    checks = []
    for pid, (tech, text, note, ref) in sorted(CLAIMED.items()):
        checks.append({
            'property_id': pid,
            'quick_cmd': f'./check {pid}',
            'thorough_cmd': f'./check {pid} --tier thorough',
            'evidence_file': f'/verif/evidence/{pid}.json',
            'replay_cmd_template': f'./check {pid} --replay {{path}}',
            'engine': 'sa',
            'level_claimed': {'category': 'other', 'text': text, 'design_ref': f'DESIGN.md §{ref}'},
            'level_note': note,
            'technique': 'static analysis: ' + tech,
        })
    man = {
        'version': 1,
        'setup_cmd': 'true',
        'hooks': {
            'guard': 'IOOS_QC_VERIF',
            'enable': 'none needed: the checks parse /repo sources statically; no instrumentation exists',
            'baseline_off_cmd': 'cd /repo && /venv/bin/python -m pytest -ra -q -p no:cacheprovider --timeout=900 --continue-on-collection-errors',
            'source_commits': [],
            'add_only': True,
        },
        'engines': [{
            'name': 'sa', 'path': '/verif/sa',
            'serves_properties': sorted(CLAIMED),
            'kind_free_text': 'static analyser: ast-level abstract interpreter for the numpy idioms of ioos_qc + order-cell tables + structural discipline rules; parses /repo on every run, never imports or executes it',
        }],
        'checks': checks,
        'notes': 'Exit codes: 0 held (KNOWN-FINDING lines allowed), 1 VIOLATION, 2 ANALYSIS-ERROR (construct outside the analyser\'s model). See DESIGN.md.',
        'not_applicable': [{'property_id': k, 'reason': v} for k, v in sorted(NOT_YET.items()) if k not in CLAIMED],
    }
    (ROOT / 'MANIFEST.json').write_text(json.dumps(man, indent=1) + '\n')


if __name__ == '__main__':
    main()
