#!/venv/bin/python
"""Re-verifies the non-silent cells of seeded/SUMMARY.md (own check, every check listed as reporting or refusing) after a change to the
analyser, without the cost of the full seeds x checks matrix: a cell that was silent can only have become *more* informative, the claims
made are the non-silent ones.  Prints every cell whose outcome differs from the recorded one and rewrites those rows of SUMMARY.md.
usage: tools/seed_recheck.py [name-substring ...]"""
import json
import multiprocessing
import os
import re
import subprocess
import sys
from pathlib import Path

sys.path.insert(0, str(Path(__file__).resolve().parent))
import seed_matrix  # noqa: E402

VERIF = seed_matrix.VERIF
NAMES = {1: 'VIOLATION', 2: 'ANALYSIS-ERROR', 0: 'silent'}


def parse():
    rows = {}
    for ln in (VERIF / 'seeded' / 'SUMMARY.md').read_text().splitlines():
        if not ln.startswith('| C'):
            continue
        cells = [c.strip() for c in ln.split('|')[1:-1]]
        seed, own, _summary, ownres, caught, refused = cells
        want = {own: ownres}
        for part in filter(None, (p.strip() for p in caught.split(';'))):
            want[part.split()[0]] = 'VIOLATION'
        for c in filter(None, (p.strip() for p in refused.split(','))):
            want[c] = 'ANALYSIS-ERROR'
        rows[seed] = (own, want, ln)
    return rows


def job(item):
    seed, checks = item
    seed_matrix.CHECKS = checks
    return seed_matrix.run(seed)


def main():
    rows = parse()
    seeds = sorted(rows)
    if len(sys.argv) > 1:
        seeds = [s for s in seeds if any(a in s for a in sys.argv[1:])]
    with multiprocessing.Pool(int(os.environ.get('VERIF_JOBS', '14'))) as pool:
        results = dict(pool.imap_unordered(job, [(s, sorted(rows[s][1])) for s in seeds]))
    text = (VERIF / 'seeded' / 'SUMMARY.md').read_text()
    cells = changed = 0
    for s in seeds:
        own, want, ln = rows[s]
        r = results[s]
        if 'error' in r:
            print(f'{s}: {r["error"]}')
            changed += 1
            continue
        diff = []
        for c, w in want.items():
            cells += 1
            got = NAMES.get(r[c]['rc'], '?')
            if got != w:
                diff.append(f'{c}: {w} -> {got}')
        if diff:
            changed += 1
            print(f'{s}: ' + '; '.join(diff))
            parts = ln.split('|')
            caught = [p.strip() for p in parts[5].split(';') if p.strip() and not (p.split()[0] in r and r[p.split()[0]]['rc'] != 1)]
            caught += [f"{c} ({', '.join(v['rules'][:2])})" for c, v in r.items() if v['rc'] == 1 and not any(p.split()[0] == c for p in caught)]
            refused = [p.strip() for p in parts[6].split(',') if p.strip() and not (p.strip() in r and r[p.strip()]['rc'] != 2)]
            refused += [c for c, v in r.items() if v['rc'] == 2 and c not in refused]
            parts[4] = f' {NAMES.get(r[own]["rc"], "?")} '
            parts[5] = ' ' + '; '.join(sorted(caught)) + ' '
            parts[6] = ' ' + ', '.join(sorted(refused)) + ' '
            text = text.replace(ln, '|'.join(parts))
    (VERIF / 'seeded' / 'SUMMARY.md').write_text(text)
    subprocess.run(['git', 'checkout', '-q', '--', 'evidence'], cwd=str(VERIF))
    print(f'{len(seeds)} seeds, {cells} recorded non-silent cells re-run; {changed} seeds with a changed cell.')


if __name__ == '__main__':
    main()
