#!/bin/bash
# usage: tools/ingest_benign7.sh <Cxx of the worktree /tmp/wh_Cxx>   copies out/b<k> to benign/<prop>_<Cxx>f<k>
id=$1
for k in 1 2 3 4; do
  src=/tmp/wh_$id/out/b$k; [ -d $src ] || continue
  prop=$(python3 -c "import json;print(json.load(open('$src/meta.json')).get('property','$id'))")
  dst=/verif/benign/${prop}_${id}h$k; mkdir -p $dst; cp $src/patch.diff $src/demo.py $src/meta.json $dst/; [ -f $src/expected.json ] && cp $src/expected.json $dst/
  echo $dst
done
