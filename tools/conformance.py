#!/venv/bin/python
"""Development-time validation of the library model (NOT a check, never registered in MANIFEST).

For every scenario family the abstract interpreter's symbolic flag expressions are evaluated on concrete
random data and compared with what the real ioos_qc function returns for the same concrete input.
A disagreement means the numpy / pandas model (sa/models*.py) or the interpreter is wrong.
Usage: tools/conformance.py [test-name ...] [--n 3]
"""
import math
import random
import sys
import warnings
from fractions import Fraction as Fr

sys.path.insert(0, '/verif')
warnings.simplefilter('ignore')

import numpy as np  # noqa: E402
import pandas as pd  # noqa: E402

from sa import cases, expr as X  # noqa: E402
from sa.check import Check  # noqa: E402
from sa.interp import ExtRef  # noqa: E402
from sa.models_pd import TS  # noqa: E402
from sa.qc import MODS, run_case  # noqa: E402
from sa.vec import NONE_EL, Sc, Vec  # noqa: E402


def feval(e, env):
    t = e[0]
    if t == 'num':
        return float(e[1])
    if t == 'x':
        return float(env[e])
    if t == 'nan':
        return float('nan')
    if t == 'lin':
        return sum(feval(g, env) * float(k) for g, k in e[1]) + float(e[2])
    if t == 'abs':
        return abs(feval(e[1], env))
    if t == 'sign':
        v = feval(e[1], env)
        return float((v > 0) - (v < 0))
    if t == 'min':
        return min(feval(a, env) for a in e[1])
    if t == 'max':
        return max(feval(a, env) for a in e[1])
    if t == 'mul':
        r = 1.0
        for a in e[1]:
            r *= feval(a, env)
        return r
    if t == 'div':
        return feval(e[1], env) / feval(e[2], env)
    if t == 'red':
        vs = [feval(a, env) for a in e[2]]
        if e[1] == 'std':
            return float(np.std(vs))
        if e[1] == 'std_sample':
            return float(np.std(vs, ddof=1))
        if e[1] == 'median':
            return float(np.median(vs))
        if e[1] == 'mean':
            return float(np.mean(vs))
    if t == 'fn' and e[1] == 'geodist':
        from geographiclib.geodesic import Geodesic
        a = [feval(x, env) for x in e[2]]
        return Geodesic.WGS84.Inverse(*a)['s12']
    if t == 'ite':
        return feval(e[2], env) if fbool(e[1], env) else feval(e[3], env)
    raise KeyError(e)


def fbool(f, env):
    t = f[0]
    if t == 'true':
        return True
    if t == 'false':
        return False
    if t == 'unk':
        raise KeyError('unk')
    if t == 'cmp':
        a, b = feval(f[2], env), feval(f[3], env)
        return {'lt': a < b, 'le': a <= b, 'gt': a > b, 'ge': a >= b, 'eq': a == b, 'ne': a != b}[f[1]]
    if t == 'not':
        return not fbool(f[1], env)
    if t == 'and':
        return all(fbool(g, env) for g in f[1])
    if t == 'or':
        return any(fbool(g, env) for g in f[1])
    raise KeyError(f)


def to_real(v, env):
    """abstract argument -> real python / numpy / pandas object"""
    if isinstance(v, Sc):
        val = feval(v.d, env)
        if v.dtype == 'M8':
            return np.datetime64(int(round(val * 1000)), 'ms')
        return val
    if isinstance(v, Fr):
        return float(v) if v.denominator != 1 else int(v)
    if isinstance(v, TS):
        return pd.Timestamp(int(v.t), unit='s')
    if isinstance(v, (list, tuple)) and not hasattr(v, '_fields'):
        out = [to_real(a, env) for a in v]
        return type(v)(out) if isinstance(v, tuple) else out
    if isinstance(v, dict):
        return {k: to_real(a, env) for k, a in v.items()}
    if isinstance(v, ExtRef):
        return {'numpy.float64': np.float64}[v.path]
    if isinstance(v, Vec):
        els = v.els()
        if v.dtype == 'M8':
            secs = [int(round(feval(e.d, env) * 1000)) if e.d != X.NAN else None for e in els]
            arr = np.array([np.datetime64(s, 'ms') if s is not None else np.datetime64('NaT') for s in secs], dtype='datetime64[ns]' if v.unit != 's' else 'datetime64[s]')
            if v.kind == 'nd':
                return arr
            if v.kind == 'series':
                s = pd.Series(pd.DatetimeIndex(arr))
                return s.dt.tz_localize('UTC') if v.tz else s
            if v.kind == 'dtindex':
                ix = pd.DatetimeIndex(arr)
                return ix.tz_localize('UTC') if v.tz else ix
        vals = [float('nan') if e.d == X.NAN else feval(e.d, env) for e in els]
        if v.kind == 'nd':
            return np.array(vals, dtype=float)
        if v.kind == 'series':
            return pd.Series(vals, dtype=float)
        if v.kind == 'ma':
            return np.ma.array(vals, mask=[e.m is True for e in els])
    return v


def atoms_in(v, acc):
    if isinstance(v, Sc):
        acc |= X.data_atoms(v.d)
    elif isinstance(v, Vec):
        for e in v.els():
            acc |= X.data_atoms(e.d)
    elif isinstance(v, (list, tuple)):
        for a in v:
            atoms_in(a, acc)
    elif isinstance(v, dict):
        for a in v.values():
            atoms_in(a, acc)
    return acc


def main():
    import importlib
    names = [a for a in sys.argv[1:] if not a.startswith('--') and not a.isdigit()]
    reps = 3
    if '--n' in sys.argv:
        reps = int(sys.argv[sys.argv.index('--n') + 1])
    tier = 'thorough' if '--thorough' in sys.argv else 'quick'
    ck = Check('CONF', tier, 0)
    rng = random.Random(1)
    total = bad = skipped = 0
    fams = dict(cases.ALL)
    fams['pressure_increasing_test'] = lambda t: cases.pressure(t)
    carriers = [None]
    if '--carriers' in sys.argv:
        carriers = ['list_none', 'list_nan', 'ndarray', 'series', 'masked']
    for name, gen in fams.items():
        if names and name not in names:
            continue
        mod = importlib.import_module(MODS[name])
        real = getattr(mod, name)
        for carrier in carriers:
            try:
                it = gen(tier) if (carrier is None or name in ('pressure_increasing_test',)) else gen(tier, carrier=carrier)
            except TypeError:
                continue
            for case, spec in it:
                out = run_case(ck, case)
                atoms = sorted(atoms_in([case.args, case.kwargs], set()), key=repr)
                for _ in range(reps):
                    env = {a: Fr(rng.randint(-6, 14), 2) for a in atoms}
                    try:
                        rargs = to_real(case.args, env)
                        rkw = to_real(case.kwargs, env)
                    except Exception as e:  # noqa: BLE001
                        skipped += 1
                        continue
                    try:
                        r = real(*rargs, **rkw)
                        rres = ('ok', [int(v) for v in np.ma.getdata(r).ravel()], [bool(m) for m in np.ma.getmaskarray(r).ravel()])
                    except Exception as e:  # noqa: BLE001
                        rres = ('raise', type(e).__name__)
                    if out.kind == 'raise':
                        ares = ('raise', out.exc.tname)
                    else:
                        try:
                            ares = ('ok', [int(round(feval(e.d, env))) for e in out.value.els()], [e.m is True or (e.m is not False and fbool(e.m, env)) for e in out.value.els()])
                        except (KeyError, ZeroDivisionError):
                            skipped += 1
                            continue
                    total += 1
                    same = ares == rres or (ares[0] == rres[0] == 'raise' and {ares[1], rres[1]} <= {'AssertionError', 'ValueError', 'TypeError'})
                    if not same:
                        bad += 1
                        if bad <= 25:
                            print(f'MISMATCH {case.label}\n   env={ {X.show(a): float(v) for a, v in env.items()} }\n   model={ares}\n   real ={rres}')
    print(f'conformance: {total} comparisons, {bad} mismatches, {skipped} skipped')


if __name__ == '__main__':
    main()
