#!/bin/bash
# usage: tools/reverify_benign.sh <benign-dir>
# For a refactoring re-based after a fix: commit: the agent's differential demo is re-recorded (--record) on the pristine HEAD in a scratch
# directory and then run against the patched tree; the baseline tests are run with the patch.  expected.json is not kept.
set -u
sd=$(realpath "$1"); name=$(basename "$sd")
wt=/tmp/vb_$name; dm=/tmp/vbd_$name; rm -rf $wt $dm; mkdir -p $dm; cp $sd/demo.py $dm/
git -C /repo worktree add -q --detach $wt HEAD || exit 3
(cd $dm && PYTHONPATH=$wt timeout 900 /venv/bin/python demo.py --record >/tmp/vb_$name.record.log 2>&1)
dp=$(cd $dm && PYTHONPATH=$wt timeout 900 /venv/bin/python demo.py >/tmp/vb_$name.pristine.log 2>&1; echo $?)
if ! git -C $wt apply $sd/patch.diff 2>/tmp/vb_$name.apply.log; then
  echo "{\"applies\": false}" > $sd/verify.json; git -C /repo worktree remove --force $wt; rm -rf $dm; exit 2
fi
dq=$(cd $dm && PYTHONPATH=$wt timeout 900 /venv/bin/python demo.py >/tmp/vb_$name.patched.log 2>&1; echo $?)
(cd $wt && PYTHONPATH=$wt timeout 1500 /venv/bin/python -m pytest -q -p no:cacheprovider -x --timeout=900 \
  --deselect tests/test_config_creator.py::TestQartodConfigurator --deselect tests/test_utils.py::TestReadXarrayConfig \
  tests > /tmp/vb_$name.tests.log 2>&1)
tests_rc=$?
summary=$(grep -E "passed|failed" /tmp/vb_$name.tests.log | tail -1)
echo "{\"applies\": true, \"demo_pristine_rc\": $dp, \"demo_patched_rc\": $dq, \"tests_rc\": $tests_rc, \"tests_summary\": \"$summary\", \"rebased_on\": \"$(git -C /repo log --format=%h -1)\"}" > $sd/verify.json
git -C /repo worktree remove --force $wt; rm -rf $dm
cat $sd/verify.json
