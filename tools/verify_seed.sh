#!/bin/bash
# usage: tools/verify_seed.sh <seed-dir containing patch.diff demo.py meta.json>
# confirms: patch applies to /repo HEAD; demo passes pristine / fails patched; existing tests pass with the patch
set -u
sd=$(realpath "$1"); name=$(basename "$sd")
wt=/tmp/vs_$name; rm -rf $wt
git -C /repo worktree add -q --detach $wt HEAD || exit 3
res=$sd/verify.json
demo_pristine=$(cd $wt && PYTHONPATH=$wt timeout 600 /venv/bin/python $sd/demo.py >/tmp/vs_$name.pristine.log 2>&1; echo $?)
if ! git -C $wt apply $sd/patch.diff 2>/tmp/vs_$name.apply.log; then
  echo "{\"applies\": false}" > $res; git -C /repo worktree remove --force $wt; exit 2
fi
demo_patched=$(cd $wt && PYTHONPATH=$wt timeout 600 /venv/bin/python $sd/demo.py >/tmp/vs_$name.patched.log 2>&1; echo $?)
(cd $wt && PYTHONPATH=$wt timeout 1500 /venv/bin/python -m pytest -q -p no:cacheprovider -x --timeout=900 \
  --deselect tests/test_config_creator.py::TestQartodConfigurator --deselect tests/test_utils.py::TestReadXarrayConfig \
  tests > /tmp/vs_$name.tests.log 2>&1)
tests_rc=$?
summary=$(grep -E "passed|failed" /tmp/vs_$name.tests.log | tail -1)
echo "{\"applies\": true, \"demo_pristine_rc\": $demo_pristine, \"demo_patched_rc\": $demo_patched, \"tests_rc\": $tests_rc, \"tests_summary\": \"$summary\"}" > $res
git -C /repo worktree remove --force $wt
cat $res
