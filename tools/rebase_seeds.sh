#!/bin/bash
# Re-base seeded patches that no longer apply to /repo HEAD (after a fix: commit): the patch is applied to the newest ancestor commit it
# applies to, committed on a scratch branch in a scratch worktree, and cherry-picked (3-way) onto HEAD; conflicts are listed for manual work.
# usage: tools/rebase_seeds.sh [seed-dir ...]   (default: every seeded/*/patch.diff that fails `git apply --check` on HEAD)
cd /verif
seeds="$@"; [ -z "$seeds" ] && seeds=$(ls -d seeded/C*_m*)
for sd in $seeds; do
  p=$(realpath $sd/patch.diff)
  git -C /repo apply --check $p 2>/dev/null && continue
  name=$(basename $sd); wt=/tmp/rb_$name; rm -rf $wt
  base=""
  for c in $(git -C /repo log --format=%h -40); do
    git -C /repo worktree add -q --detach $wt $c 2>/dev/null || continue
    if git -C $wt apply --check $p 2>/dev/null; then base=$c; break; fi
    git -C /repo worktree remove --force $wt
  done
  if [ -z "$base" ]; then echo "$name: applies to no recent commit"; continue; fi
  git -C $wt apply $p && git -C $wt add -A && git -C $wt -c user.email=a@b -c user.name=x commit -qm seed
  seedc=$(git -C $wt log --format=%h -1)
  git -C $wt checkout -q --detach $(git -C /repo log --format=%h -1 main)
  if git -C $wt -c user.email=a@b -c user.name=x cherry-pick -n $seedc >/dev/null 2>&1; then
    git -C $wt diff --cached > $p.new && mv $p.new $p && echo "$name: rebased from $base"
  else
    echo "$name: CONFLICT (base $base): $(git -C $wt diff --name-only --diff-filter=U | tr '\n' ' ')"
  fi
  git -C /repo worktree remove --force $wt
done
git -C /repo worktree prune
