#!/venv/bin/python
"""Development-time validation of individual library-model entries (NOT a check).

Each snippet is a tiny function using one numpy / pandas API.  It is (a) executed for real and (b) interpreted by the
abstract interpreter (from a scratch package written to /tmp) on the same concrete inputs; data and masks must agree.
"""
import math
import os
import shutil
import sys
import tempfile
import textwrap
import warnings
from fractions import Fraction as Fr
from pathlib import Path

sys.path.insert(0, '/verif')
warnings.simplefilter('ignore')
import numpy as np  # noqa: E402
import pandas as pd  # noqa: E402

SNIPPETS = r'''
import numpy as np
import pandas as pd

def clip(x, m): return np.clip(x, 1, 3)
def clip_method(x, m): return x.clip(2, None)
def nan_to_num(x, m): return np.nan_to_num(x, nan=7)
def isin(x, m): return np.isin(x, [1, 3])
def arange_mul(x, m): return np.arange(len(x)) * 2
def roll(x, m): return np.roll(x, 1)
def roll_neg(x, m): return np.roll(x, -2)
def flip(x, m): return np.flip(x)
def rev_slice(x, m): return x[::-1]
def cumsum(x, m): return np.cumsum(x)
def select(x, m): return np.select([x > 3, x > 1], [4, 3], default=1)
def where3(x, m): return np.where(x > 2, 4, 1)
def ma_where(x, m): return np.ma.where(m > 2, 4, 1)
def masked_where(x, m): return np.ma.masked_where(x > 2, x)
def masked_greater(x, m): return np.ma.masked_greater(x, 2)
def masked_less_equal(x, m): return np.ma.masked_less_equal(x, 2)
def masked_outside(x, m): return np.ma.masked_outside(x, 3, 1)
def masked_inside(x, m): return np.ma.masked_inside(x, 2, 3)
def masked_equal(x, m): return np.ma.masked_equal(x, 3)
def flatnonzero(x, m): return np.flatnonzero(x > 2)
def getmaskarray(x, m): return np.ma.getmaskarray(m)
def ma_count(x, m): return np.array([np.ma.count(m), np.ma.count_masked(m), np.count_nonzero(x > 1)])
def ma_add(x, m): return m + x
def ma_radd(x, m): return x + m
def ma_sub_data(x, m): return (x - m).data
def ma_rsub_data(x, m): return (m - x).data
def ma_div_data(x, m): return (m / 2).data
def ma_abs(x, m): return np.abs(m - 3)
def ma_abs_data(x, m): return np.abs(m - 3).data
def ma_cmp(x, m): return m > 2
def ma_cmp_data(x, m): return (m > 2).data
def ma_store_masked_index(x, m):
    a = np.ma.array(x.copy(), mask=m.mask.copy())
    a[m > 2] = 0
    return a
def ma_store_plain_index(x, m):
    a = np.ma.array(x.copy(), mask=m.mask.copy())
    a[x > 2] = 0
    return a
def ma_store_slice(x, m):
    a = np.ma.array(x.copy(), mask=m.mask.copy())
    a[1:3] = 5
    return a
def store_masked_value(x, m):
    a = np.ma.array(x.copy())
    a[1] = np.ma.masked
    return a
def set_mask_attr(x, m):
    a = np.ma.array(x.copy())
    a.mask = x > 2
    return a
def diff_ma_data(x, m): return np.diff(m).data
def diff_ma(x, m): return np.diff(m)
def minimum_ma(x, m): return np.minimum(m, 2)
def filled(x, m): return m.filled(-1)
def ma_filled_fn(x, m): return np.ma.filled(m > 2, False)
def insert(x, m): return np.insert(x, 0, np.full((2,), 9.0))
def astype_uint8(x, m): return (x * 100).astype('uint8')
def astype_int(x, m): return (x / 2).astype(int)
def rint(x, m): return np.rint(x / 2)
def floor_div(x, m): return (x + 9) // 2
def mod(x, m): return x % 2
def sign(x, m): return np.sign(x - 2)
def std_ptp(x, m): return np.array([np.ptp(x), np.max(x), np.min(x), np.mean(x), np.median(x)])
def ma_reduce(x, m): return np.array([np.ptp(m), np.max(m), np.min(m), np.mean(m), m.count()])
def series_diff(x, m): return pd.Series(x).diff().to_numpy()
def series_shift(x, m): return pd.Series(x).shift(1).to_numpy()
def series_where(x, m): return pd.Series(x).where(pd.Series(x) > 2, 0).to_numpy()
def series_between(x, m): return pd.Series(x).between(2, 3).to_numpy()
def series_fillna(x, m): return pd.Series(m).fillna(0).to_numpy()
def series_of_masked(x, m): return pd.Series(m).to_numpy()
def series_and_masked(x, m): return (pd.Series(x > 1) & (m > 2)).to_numpy()
def series_isna(x, m): return pd.Series(m).isna().to_numpy()
def rolling_sum(x, m): return pd.Series(x).rolling(2).max().to_numpy()
def rolling_min_periods(x, m): return pd.Series(x).rolling(3, min_periods=1).min().to_numpy()
def isclose(x, m): return np.isclose(x, 2, atol=1)
def concat(x, m): return np.concatenate([x[:2], x[3:]])
def bool_index(x, m): return x[x > 2]
def int_index(x, m): return x[[0, 2]]
def neg_index_store(x, m):
    a = x.copy(); a[-1] = 0; a[:1] = 7
    return a
def where_idx_shift(x, m):
    a = np.ones_like(x); a[np.where(x[:-1] > 2)[0] + 1] = 3
    return a
def pd_isna_fn(x, m): return pd.isna(m.filled(np.nan))
def to_timedelta_seconds(x, m): return pd.to_timedelta(x * 40000, unit='s').seconds.to_numpy()
def data_view_store(x, m):
    a = np.ma.array(x.copy(), mask=m.mask.copy())
    a.data[x > 2] = 0
    return a
def getdata_view_store(x, m):
    a = np.ma.array(x.copy(), mask=m.mask.copy())
    np.ma.getdata(a)[1:3] = 7
    return a
def putmask_ma(x, m):
    a = np.ma.array(x.copy(), mask=m.mask.copy())
    np.putmask(a, x > 2, 9)
    return a
def putmask_nd(x, m):
    a = x.copy()
    np.putmask(a, np.ma.getmaskarray(m), 9)
    return a
def putmask_values_array(x, m):
    a = x.copy()
    np.putmask(a, x > 2, x * 10)
    return a
def putmask_flags(x, m):
    f = np.ma.ones(x.size, dtype='uint8')
    np.putmask(f, np.ma.getmaskarray(m), 9)
    return f
def copyto_where(x, m):
    a = np.ma.array(x.copy(), mask=m.mask.copy())
    np.copyto(a.data, 5.0, where=x > 2)
    return a
def place_one(x, m):
    a = x.copy()
    np.place(a, x > 2, 0)
    return a
def put_index(x, m):
    a = x.copy()
    np.put(a, np.flatnonzero(x > 2), 0)
    return a
def view_masked(x, m):
    f = np.full(x.size, 1, dtype='uint8')
    v = f.view(np.ma.MaskedArray)
    v[x > 2] = 4
    return v
def view_masked_base(x, m):
    f = np.full(x.size, 1, dtype='uint8')
    v = f.view(np.ma.MaskedArray)
    v[x > 2] = 4
    return f
def subtract_ufunc_ma(x, m): return np.subtract(m[1:], m[:-1])
def subtract_ufunc_ma_data(x, m): return np.subtract(m[1:], m[:-1]).data
def ma_true_divide(x, m): return np.ma.true_divide(m, x - 2)
def ma_subtract_fn_data(x, m): return np.ma.subtract(m[1:], m[:-1]).data
def less_ufunc(x, m): return np.logical_or(np.less(m, 2), np.greater_equal(m, 4))
def append_scalar(x, m): return np.append(np.insert(x, 0, 1), 366)
def concat_promote(x, m): return np.concatenate((np.zeros(2, dtype=bool), (x > 2)))
def ellipsis_slice(x, m): return np.subtract(x[..., 1:], x[..., :-1])
def datetime_subtract(x, m):
    t = (x * 1000).astype('int64').astype('datetime64[s]')
    return np.subtract(t[1:], t[:-1]).astype('timedelta64[s]').astype(float)
'''

INPUTS = [
    ([1.0, 2.0, 3.0, 4.0, 2.5], [0, 0, 1, 0, 0]),
    ([4.0, 3.0, 1.0, 2.0, 5.0], [1, 0, 0, 0, 1]),
    ([2.0, 2.0, 2.0, 2.0, 2.0], [0, 0, 0, 0, 0]),
]


def main():
    only = [a for a in sys.argv[1:]]
    d = Path(tempfile.mkdtemp(prefix='apiconf_', dir='/tmp'))
    try:
        pkg = d / 'ioos_qc'
        pkg.mkdir()
        (pkg / '__init__.py').write_text('')
        (pkg / 'snip.py').write_text(SNIPPETS)
        os.environ['VERIF_REPO'] = str(d)
        from sa import expr as X
        from sa.repo import AnalysisError
        from sa.scen import Runner
        from sa.vec import El, Sc, Vec
        r = Runner()
        ns = {}
        exec(SNIPPETS, ns)
        names = [n for n, f in ns.items() if callable(f) and getattr(f, '__module__', None) is None or (callable(f) and n in SNIPPETS and f.__class__.__name__ == 'function')]
        names = [n for n in ns if n in SNIPPETS and callable(ns[n]) and ns[n].__class__.__name__ == 'function']
        bad = refused = ok = 0
        for name in names:
            if only and name not in only:
                continue
            for xs, ms in INPUTS:
                rx = np.array(xs)
                rm = np.ma.array(xs, mask=ms)
                try:
                    real = ns[name](rx.copy(), rm.copy())
                    rd = np.ma.getdata(real).astype(float).ravel().tolist()
                    rmask = np.ma.getmaskarray(real).ravel().tolist()
                    rres = ('ok', [None if (isinstance(v, float) and math.isnan(v)) else round(v, 9) for v in rd], rmask)
                except Exception as e:  # noqa: BLE001
                    rres = ('raise', type(e).__name__)
                ax = Vec.fresh([El(X.num(Fr(v)), False) for v in xs], kind='nd', dtype='f8')
                am = Vec.fresh([El(X.num(Fr(v)), bool(k)) for v, k in zip(xs, ms)], kind='ma', dtype='f8')
                try:
                    out = r.run(r.function('ioos_qc.snip', name), [ax, am])
                except AnalysisError as e:
                    refused += 1
                    print(f'REFUSED {name}: {e}')
                    break
                if out.kind == 'raise':
                    ares = ('raise', out.exc.tname)
                else:
                    v = out.value
                    vals, masks = [], []
                    for e in v.els():
                        dd = e.d
                        if X.is_formula(dd):
                            dd = X.num(1) if dd == X.TRUE else X.num(0) if dd == X.FALSE else dd
                        if X.is_num(dd):
                            vals.append(round(float(dd[1]), 9))
                        elif dd == X.NAN:
                            vals.append(None)
                        else:
                            vals.append(X.show(dd))
                        masks.append(e.m is True)
                    ares = ('ok', vals, masks)
                same = ares == rres
                if not same and ares[0] == rres[0] == 'ok' and ares[2] == rres[2] and len(ares[1]) == len(rres[1]):
                    # data under a mask is unspecified unless the snippet returns .data explicitly
                    same = all(a == b or mk for a, b, mk in zip(ares[1], rres[1], ares[2]))
                if same:
                    ok += 1
                else:
                    bad += 1
                    print(f'MISMATCH {name} x={xs} mask={ms}\n   model={ares}\n   real ={rres}')
        print(f'api conformance: {ok} agree, {bad} mismatches, {refused} refused')
    finally:
        shutil.rmtree(d, ignore_errors=True)


if __name__ == '__main__':
    main()
