#!/bin/bash
# usage: tools/run_seed.sh <seed-dir> [Cxx ...]  — runs checks against a scratch copy of /repo with the patch applied
sd=$(realpath "$1"); shift
d=$(mktemp -d /tmp/seedrun.XXXX); mkdir $d/r; cp -r /repo/ioos_qc $d/r/
(cd $d/r && patch -s -p1 < $sd/patch.diff) || { echo "PATCH FAILED"; rm -rf $d; exit 3; }
checks="$@"; [ -z "$checks" ] && checks=$(python3 -c "import json;print(' '.join(c['property_id'] for c in json.load(open('/verif/MANIFEST.json'))['checks']))")
for c in $checks; do
  out=$(cd /verif && VERIF_REPO=$d/r ./check $c 2>&1); rc=$?
  echo "$(basename $sd) $c rc=$rc $(echo "$out" | grep -c '^VIOLATION') violations; $(echo "$out" | grep -E '^ANALYSIS' | cut -c1-200)"
  [ $rc -ne 0 ] && echo "$out" | grep -A2 '^VIOLATION' | grep -v '^--' | cut -c1-300 | head -4
done
rm -rf $d
# evidence files were rewritten by the run on the scratch copy: restore the committed ones
cd /verif && git checkout -q -- evidence 2>/dev/null
