#!/bin/bash
# usage: tools/ingest.sh <Cxx> <offset>   copies /tmp/wt_Cxx/out/m<k> to seeded/Cxx_m<k+offset>, verifies in background, runs own check
id=$1; off=${2:-0}
for k in 1 2 3; do
  src=/tmp/wt_$id/out/m$k; [ -d $src ] || continue
  dst=/verif/seeded/${id}_m$((k+off)); mkdir -p $dst; cp $src/{patch.diff,demo.py,meta.json} $dst/
  (cd /verif && tools/verify_seed.sh $dst > /tmp/verify_${id}_m$((k+off)).log 2>&1 &)
  cd /verif && tools/run_seed.sh $dst $id 2>&1 | cut -c1-330 | head -4
done
