#!/bin/bash
# usage: tools/verify_benign.sh <benign-dir> <dir holding demo.py + expected.json>
# confirms: patch applies; the differential demo passes on the pristine AND the patched tree; the 132 baseline tests pass with the patch
set -u
sd=$(realpath "$1"); demo=$(realpath "$2"); name=$(basename "$sd")
wt=/tmp/vb_$name; rm -rf $wt
git -C /repo worktree add -q --detach $wt HEAD || exit 3
res=$sd/verify.json
dp=$(cd $demo && PYTHONPATH=$wt timeout 900 /venv/bin/python demo.py >/tmp/vb_$name.pristine.log 2>&1; echo $?)
if ! git -C $wt apply $sd/patch.diff 2>/tmp/vb_$name.apply.log; then
  echo "{\"applies\": false}" > $res; git -C /repo worktree remove --force $wt; exit 2
fi
dq=$(cd $demo && PYTHONPATH=$wt timeout 900 /venv/bin/python demo.py >/tmp/vb_$name.patched.log 2>&1; echo $?)
(cd $wt && PYTHONPATH=$wt timeout 1500 /venv/bin/python -m pytest -q -p no:cacheprovider -x --timeout=900 \
  --deselect tests/test_config_creator.py::TestQartodConfigurator --deselect tests/test_utils.py::TestReadXarrayConfig \
  tests > /tmp/vb_$name.tests.log 2>&1)
tests_rc=$?
summary=$(grep -E "passed|failed" /tmp/vb_$name.tests.log | tail -1)
echo "{\"applies\": true, \"demo_pristine_rc\": $dp, \"demo_patched_rc\": $dq, \"tests_rc\": $tests_rc, \"tests_summary\": \"$summary\"}" > $res
git -C /repo worktree remove --force $wt
cat $res
