#!/usr/bin/env python3
"""Writes known_findings.json (committed; read-only at check time).  Edit the tables here."""
import json
from pathlib import Path

ROOT = Path(__file__).resolve().parent.parent

MASK_FUNCS = ['ioos_qc.qartod.gross_range_test', 'ioos_qc.qartod.location_test', 'ioos_qc.qartod.spike_test',
              'ioos_qc.qartod.rate_of_change_test', 'ioos_qc.qartod.flat_line_test', 'ioos_qc.qartod.attenuated_signal_test',
              'ioos_qc.qartod.density_inversion_test', 'ioos_qc.argo.speed_test', 'ioos_qc.qartod.climatology_test',
              'ioos_qc.axds.valid_range_test']

findings = []
for f in MASK_FUNCS:
    findings.append(dict(
        property='C15', rule='C15.data', key=f'{f}:masked-array:masked-element-evaluated', status='known',
        what=f'{f.split(".")[-1]}: the normaliser np.ma.masked_invalid(np.array(x)...) drops the mask of a numpy masked-array input, so a masked '
             'element is judged by the number stored under its mask instead of being flagged MISSING (e.g. gross_range_test(np.ma.array([1,200,3], '
             'mask=[0,1,0]), (0,10)) -> [1,4,1]).',
        why_not_fixed='the same idiom occurs at 13 call sites in three modules; a repair changes the input normalisation of every test at once '
                      '(design decision for the maintainers), so it is recorded rather than patched.'))
for f in MASK_FUNCS:
    findings.append(dict(
        property='C02', rule='C02.masked-array', key=f'{f}:masked-array:mask-dropped-by-normaliser', status='known',
        what=f'{f.split(".")[-1]}: a masked element of a numpy masked-array input is judged by the number under its mask (GOOD / SUSPECT / FAIL) instead of '
             'MISSING, because np.array(masked_array) drops the mask before masked_invalid; same construct as the C15 finding.',
        why_not_fixed='see C15: 13 call sites share the normaliser idiom.'))
findings.append(dict(
    property='C15', rule='C15.data', key='ioos_qc.argo.pressure_increasing_test:list_none:raises-TypeError', status='known',
    what='pressure_increasing_test never normalises its input: a list with None raises TypeError in np.diff while the same series with NaN '
         'returns flags (pressure_increasing_test([1, None, 3]) raises; [1, nan, 3] -> [1,1,1]).',
    why_not_fixed='adding the normalisation the other tests use would also change how NaN values are flagged; left to the maintainers.'))

findings.append(dict(
    property='C07', rule='C07.calls', key='Config:parameterless:stream-mapping:missing', status='known',
    what="Config({'pres': {'argo': {'pressure_increasing_test': None}}}) - a bare stream-id mapping whose only test has no parameters (the natural YAML "
         "spelling 'pressure_increasing_test:' ) - is three levels deep, so the dict_depth(...) >= 4 heuristic reads it as a module mapping: no call is "
         "produced and a warning about package 'pres' is logged. The same configuration with 'streams:' or 'contexts:' works.",
    why_not_fixed='the depth heuristic needs a different discriminator (e.g. looking the keys up as modules); not a one-line repair.'))

XR = 'XarrayStream.run selects the window with ds[var].sel(time=slice(starting, ending)): an xarray label slice is closed on both ends, and the selection is only made when both bounds are given.'
for key, what in (
    ('xarray:table:both:wrong-rows:row-at-ending-included', 'a row whose time equals `ending` is evaluated although the window is starting <= t < ending (e.g. window [t1, t3) evaluates rows 1,2,3).'),
    ('xarray:table:starting-only:wrong-rows:window-ignored', 'a window with only `starting` is ignored: every row is evaluated.'),
    ('xarray:table:ending-only:wrong-rows:window-ignored', 'a window with only `ending` is ignored: every row is evaluated.'),
    ('xarray:table:unexpected-results', 'consequently the results carry row masks that no configured window accounts for (same construct).'),
    ('xarray:non-monotonic-time:both:wrong-rows:other-rows', 'rows that are not in chronological order (or a NaT among the stamps) make the time index non-monotonic: the label slice is then positional between the rows carrying the two bound labels (often empty), not a predicate on each row\'s time.'),
    ('xarray:non-monotonic-time:starting-only:wrong-rows:window-ignored', 'a window with only `starting` is ignored (as on a sorted table), also on a non-monotonic time axis.'),
    ('xarray:non-monotonic-time:ending-only:wrong-rows:window-ignored', 'a window with only `ending` is ignored (as on a sorted table), also on a non-monotonic time axis.'),
    ('xarray:non-monotonic-time:unexpected-results', 'the results carry row masks that no configured window accounts for (same construct, non-monotonic time axis).'),
    ('xarray:raises-KeyError:unsorted-times', 'on a non-monotonic time index a window bound that is not exactly one of the stamps makes the label slice raise KeyError ("Cannot get right slice bound for non-monotonic index with a missing label"): XarrayStream.run aborts. Reproduced with real xarray.'),
    ('xarray:raises-KeyError:row-without-timestamp', 'a NaT among the stamps makes the time index non-monotonic as well: same KeyError for a bound that is not a stamp.'),
):
    findings.append(dict(property='C05', rule='C05.run' if ':raises-' in key else 'C05.extra' if key.endswith('results') else 'C05.rows', key=key, status='known',
                         what=XR + ' ' + what, why_not_fixed='needs a redesign of the label-to-index reconstruction in XarrayStream.run (half-open interval, open bounds); not a small patch.'))

for key in ('collect_results_list:raises-ValueError:scatter-of-an-empty-axis-array:table=time-only',
            'collect_results_list:raises-IndexError:scatter-into-an-empty-axis-array:table=time-only'):
    findings.append(dict(
        property='C06', rule='C06.collect', key=key, status='known',
        what='collect_results_list scatters the depth / position arrays of every ContextResult unguarded; when the stream has no such axis the '
             'producers hand over an empty array, so any run with a partial window and no z (or lat / lon) column raises (ValueError: cannot assign 0 input values; '
             'or IndexError when an all-covering context rebound the accumulator to the empty array first). PandasStore.save guards the same fields with .size != 0. '
             'Seen with NumpyStream / PandasStream, two contexts, table without z.',
        why_not_fixed='guarding the four scatters changes what the stores later write for absent axes (all-masked columns vs none); needs a maintainer decision.'))

findings.append(dict(
    property='C15', rule='C15.data', key='ioos_qc.argo.pressure_increasing_test:integer-array:arithmetic-in-integer-dtype', status='known',
    what='pressure_increasing_test differences its input in the input dtype: an unsigned integer array wraps around, e.g. '
         'pressure_increasing_test(np.array([5,3,6], dtype=uint8)) -> [1,1,1] while the same values as float -> [1,3,1].',
    why_not_fixed='same root cause as the missing normalisation of pressure_increasing_test (recorded above).'))

for key, rule in (('pandas:duplicate-labels:both:wrong-rows:window-ignored', 'C05.rows'), ('pandas:duplicate-labels:both:wrong-rows:other-rows', 'C05.rows'),
                  ('pandas:duplicate-labels:unexpected-results', 'C05.extra')):
    findings.append(dict(
        property='C05', rule=rule, key=key, status='known',
        what='PandasStream marks the tested rows by index label (subset_indexes.loc[subset.index] = True): in a DataFrame with repeated row labels '
             '(e.g. two frames concatenated without ignore_index) every row sharing a label with a window row is marked, so subset_indexes has more True '
             'entries than there are results (index [0,1,2,0,1], window over rows 1..3: mask all True, 3 flags).',
        why_not_fixed='needs positional bookkeeping through the successive .loc filters (a small refactor of PandasStream.run, not a one-line repair); '
                      'the earlier positional variant (iloc) was wrong for every non-default index and was fixed in 74329b5.'))

findings.append(dict(
    property='C19', rule='C19.columns', key='PandasStore.save:cf-clashing-ids:result-lost', status='known',
    what='two stream ids that are equal once made CF-safe (e.g. "sal.t" and "sal t" -> "sal_t") map to the same column label: PandasStore.save keeps one column and '
         'drops the other result (with a warning), so not every collected result gets a uniquely named column. Reproduced on the real library '
         '(2 collected results, 1 result column).',
    why_not_fixed='needs a naming decision (how to disambiguate clashing labels) that also affects CFNetCDFStore variable names; not a one-line repair.'))

for tok in ('.5', '1_0', 'inf', 'nan'):
    findings.append(dict(
        property='C20', rule='C20.validate', key=f'number-token:{tok}:accepted-but-not-evaluated', status='known',
        what=f'QcVariableConfig._validate_fx recognises numbers with float(), the expression grammar of fx_parser with its own pattern: the token {tok!r} is accepted as a '
             f'number by the validator but eval_fx({tok!r}) raises (ParseException for .5 and 1_0, "invalid identifier" for inf and nan), so a validated '
             'specification cannot be evaluated. Reproduced on the real library.',
        why_not_fixed='either the validator has to be narrowed to the grammar or the grammar widened (leading-dot numbers); which tokens count as numbers is a '
                      'maintainer decision.'))

fixed = [
    'fixed: property=C09 968352c spike_test ignored suspect_threshold=0 / fail_threshold=0 (truthiness gates); also the C16 clause "a threshold given as zero"',
    'fixed: property=C10 cee7a58 rate_of_change_test accepted inp / tinp of different lengths (silent broadcast) instead of raising ValueError',
    'fixed: property=C08 b110585 climatology period members (month, dayofyear, quarter ...) with a depth span applied to observations whose depth is missing (pandas Series & masked array)',
    'fixed: property=C02 cab0dfe climatology_test flagged a missing observation GOOD when a member with a depth span matched (MISSING assigned before the member loop)',
    'fixed: property=C02 a31fa94 flat_line_test returned GOOD for missing values in series shorter than three points',
    'fixed: property=C01 55e3db0 spike_test raised IndexError on an empty series',
    'fixed: property=C01 1ed3f57 attenuated_signal_test raised ValueError (np.ptp) on an empty series with check_type="range"',
    'fixed: property=C15 1740007 mapdates raised AttributeError for a timezone-aware DatetimeIndex',
    'fixed: property=C15 d3c2242 valid_range_test raised AttributeError for list / tuple input (inp.shape)',
    'fixed: property=C05 a4cbbbd NumpyStream / NetcdfStream / QcConfig.run raised ValueError (reshape) for every window that excludes a row',
    'fixed: property=C05 c7a882d NumpyStream / NetcdfStream with the documented dict input and a time axis raised ValueError (0-d row mask) when no window was configured',
    'fixed: property=C19 1a816ce PandasStore.save(exclude=[...]) raised TypeError / filtered by the include list (exclude arm read `include`)',
    'fixed: property=C05 74329b5 PandasStream raised IndexError / marked wrong rows for a DataFrame whose index is not 0..n-1 (iloc with labels)',
    'fixed: property=C06 d952485 collect_results(how="list") raised ValueError (assignment destination is read-only) when an all-covering context was followed by '
    'another context for the same stream and test: the all-covering branch aliased the stream arrays, which are read-only views under pandas >= 3',
    'fixed: property=C15 4940b13 mapdates read epoch seconds held in a pandas Series / Index as nanoseconds since 1970 (the same numbers in a list or ndarray '
    'are read as seconds): rate_of_change_test / flat_line_test / attenuated_signal_test / speed_test / climatology_test gave other flags or raised',
    'fixed: property=C11 7a8a0ca flat_line_test (and the min_period conversion of attenuated_signal_test, C12) truncated the sampling step to whole seconds: '
    'with 2.5 s data k = floor(threshold / D) was computed from D = 2 s ([1,1,3,3,3,4,4,4] instead of [1,1,3,3,4,4,4,4] for thresholds 5 / 10), '
    'with sub-second data D became 0 and flat_line_test raised ValueError; duration thresholds were truncated with int()',
    'fixed: property=C03 b3f5969 valid_range_test cast its bounds to the data dtype: integer data with the span (1.5, 2.5) gave [1,4,4] instead of [4,1,4], '
    'a None bound raised TypeError for integer data, a bound at noon was truncated to midnight for datetime64[D] data',
    'fixed: property=C03 ac85df3 (regression of b3f5969, found when a seeded demo failed on the repaired tree) valid_range_test converted whole-number bounds of '
    'integer data to float64: for int64 epoch nanoseconds a value one count below the lower bound was accepted (float64 spacing 256 at 1.7e18)',
    'fixed: property=C03 3031a78 (second regression of b3f5969, pointed out by a batch-7 sub-agent) valid_range_test forced datetime bounds to datetime64[ns]: for datetime64[s] data '
    'a bound beyond 2262 (2500-01-01) wrapped around and every value was flagged FAIL',
    'fixed: property=C20 7623a82 QcConfigCreator.__daily_cubic_interp appended day 366 to a time axis that already held day 1 and day 366 (daily values of a leap '
    'year): scipy rejected the repeated knot, the ValueError was read as "no data in the bounding box" and the box was widened to the whole globe',
    'fixed: property=C06 90cacb3 collect_results_list scattered data / tinp / zinp / lat / lon only into the collected result of the last test of a '
    'ContextResult; the other tests of the same ContextResult kept fully masked arrays',
    'fixed: property=C20 6c6e291 QcConfigCreator._get_subset widened the bounding box whenever the values inside it summed to zero (np.nansum(subset) == 0 as the '
    'no-data test): statistics came from a padded box for signed quantities and all-zero fields',
    'fixed: property=C07 fd1142e a configured test name that is some other attribute of the package module was not skipped: np / L under qartod made Config raise '
    'TypeError (every call lost), QartodFlags / span / mapdates produced calls that are not tests (also C18: the run did not complete)',
]

(ROOT / 'known_findings.json').write_text(json.dumps(dict(
    note='Genuine defects of ioos_qc found by the checks. "findings" are recorded (status known) and reported as KNOWN-FINDING lines; '
         'a violation whose (property, rule, key) is not listed is still a VIOLATION. "fixed" entries suppress nothing.',
    findings=findings, fixed=fixed), indent=1) + '\n')
print(len(findings), 'known,', len(fixed), 'fixed')
