#!/venv/bin/python
"""Sensitivity self-test of the checks (development tool, not a registered check).

Generates first-order mutants of the anchored repository modules (AST level, written to scratch copies outside
/repo and /verif), runs the relevant checks on each with VERIF_REPO pointing at the copy and records which mutants
are reported (exit 1), refused (exit 2) or survive (exit 0).  Survivors are either equivalent mutants or gaps in the
scenario families; they are listed for triage.

usage: tools/selftest.py [--modules qartod,argo,...] [--jobs 14] [--limit N] [--out selftest.json]
"""
import ast
import copy
import json
import multiprocessing
import os
import shutil
import subprocess
import sys
import tempfile
from pathlib import Path

VERIF = Path(__file__).resolve().parent.parent
REPO = Path('/repo')

QC = ['C01', 'C02', 'C03', 'C08', 'C09', 'C10', 'C11', 'C12', 'C13', 'C14', 'C16', 'C17']
PLUMB = ['C05', 'C06', 'C07', 'C18', 'C19']
RELEVANT = {
    'ioos_qc/qartod.py': QC + ['C04', 'C15'],
    'ioos_qc/argo.py': ['C01', 'C02', 'C10', 'C13', 'C16', 'C17', 'C15'],
    'ioos_qc/axds.py': ['C01', 'C02', 'C03', 'C16', 'C17', 'C15'],
    'ioos_qc/utils.py': ['C01', 'C02', 'C03', 'C07', 'C10', 'C14', 'C15', 'C19'],
    'ioos_qc/streams.py': ['C05', 'C06', 'C18'],
    'ioos_qc/config.py': ['C05', 'C07', 'C18'],
    'ioos_qc/results.py': ['C06', 'C05', 'C19'],
    'ioos_qc/stores.py': ['C19', 'C04'],
    'ioos_qc/config_creator/fx_parser.py': ['C20'],
    'ioos_qc/config_creator/config_creator.py': ['C20'],
}
# functions outside every property's scope (not mutated)
SKIP_FUNCS = {'check_timestamps', 'values', '__repr__', '__str__', 'to_json', '_load_datasets', '_determine_dataset_years',
              '__daily_cubic_interp', '__get_daily_interp_subset', '__apply_bbox_pad', 'apply_pad', 'var2dataset',
              '_var2var_in_file', 'openf', 'default', 'time', 'data', 'has', 'calls_by_stream_id', 'add', 'stream_ids',
              'aggregate_calls', 'extract_calls', '__rpr__'}
SKIP_CLASSES = {'CFNetCDFStore', 'NetcdfStore', 'GeoNumpyDateEncoder', 'CreatorConfig', 'BaseStream', 'BaseStore', 'NcQcConfig'}

CMP_SWAP = {ast.Lt: [ast.LtE, ast.Gt], ast.LtE: [ast.Lt], ast.Gt: [ast.GtE, ast.Lt], ast.GtE: [ast.Gt], ast.Eq: [ast.NotEq], ast.NotEq: [ast.Eq],
            ast.Is: [ast.IsNot], ast.IsNot: [ast.Is], ast.In: [ast.NotIn], ast.NotIn: [ast.In]}
BIN_SWAP = {ast.BitOr: [ast.BitAnd], ast.BitAnd: [ast.BitOr], ast.Add: [ast.Sub], ast.Sub: [ast.Add], ast.Mult: [ast.Div], ast.Div: [ast.Mult]}
FLAGS = ['GOOD', 'UNKNOWN', 'SUSPECT', 'FAIL', 'MISSING']


def in_scope(stack):
    for n in stack:
        if isinstance(n, ast.ClassDef) and n.name in SKIP_CLASSES:
            return False
        if isinstance(n, (ast.FunctionDef,)) and (n.name in SKIP_FUNCS or n.name.lstrip('_') in {s.lstrip('_') for s in SKIP_FUNCS if s.startswith('__')}):
            if n.name == 'add' and any(isinstance(m, ast.ClassDef) and m.name == 'ClimatologyConfig' for m in stack):
                continue
            return False
    return any(isinstance(n, ast.FunctionDef) for n in stack)


def sites(tree):
    """yield (description, mutate(tree_copy_node)) for every mutation site; identified by a running node index"""
    out = []
    index = {}
    for i, n in enumerate(ast.walk(tree)):
        index[id(n)] = i

    def visit(node, stack):
        stack = stack + [node]
        ok = in_scope(stack)
        if ok:
            i = index[id(node)]
            ln = getattr(node, 'lineno', 0)
            fn = next((s.name for s in reversed(stack) if isinstance(s, ast.FunctionDef)), '?')
            if isinstance(node, ast.Compare):
                for k, op in enumerate(node.ops):
                    for new in CMP_SWAP.get(type(op), []):
                        out.append((f'{fn}:{ln}: compare {type(op).__name__}->{new.__name__}', i, ('cmp', k, new)))
            elif isinstance(node, ast.BinOp) and type(node.op) in BIN_SWAP:
                for new in BIN_SWAP[type(node.op)]:
                    out.append((f'{fn}:{ln}: binop {type(node.op).__name__}->{new.__name__}', i, ('bin', new)))
            elif isinstance(node, ast.BoolOp):
                new = ast.Or if isinstance(node.op, ast.And) else ast.And
                out.append((f'{fn}:{ln}: boolop ->{new.__name__}', i, ('bool', new)))
            elif isinstance(node, ast.UnaryOp) and isinstance(node.op, (ast.Not, ast.Invert)):
                out.append((f'{fn}:{ln}: drop {type(node.op).__name__}', i, ('dropunary',)))
            elif isinstance(node, ast.Constant) and isinstance(node.value, int) and not isinstance(node.value, bool) and abs(node.value) <= 9:
                par = stack[-2] if len(stack) > 1 else None
                if not isinstance(par, (ast.JoinedStr, ast.FormattedValue)):
                    out.append((f'{fn}:{ln}: const {node.value}->{node.value + 1}', i, ('const', node.value + 1)))
                    if node.value != 0:
                        out.append((f'{fn}:{ln}: const {node.value}->{node.value - 1}', i, ('const', node.value - 1)))
            elif isinstance(node, ast.Constant) and isinstance(node.value, bool):
                out.append((f'{fn}:{ln}: const {node.value}->{not node.value}', i, ('const', not node.value)))
            elif isinstance(node, ast.Attribute) and node.attr in FLAGS and isinstance(node.value, ast.Name) and node.value.id in ('QartodFlags', 'FLAGS'):
                for f in FLAGS:
                    if f != node.attr and (FLAGS.index(f) - FLAGS.index(node.attr)) in (1, -1, 2):
                        out.append((f'{fn}:{ln}: flag {node.attr}->{f}', i, ('attr', f)))
            elif isinstance(node, ast.Continue):
                out.append((f'{fn}:{ln}: continue->break', i, ('stmt', ast.Break())))
            elif isinstance(node, (ast.Assign, ast.Expr, ast.AugAssign)) and not (isinstance(node, ast.Expr) and isinstance(node.value, ast.Constant)):
                src = ast.unparse(node)
                if isinstance(node, ast.Expr) and ('L.' in src[:3] or 'warnings' in src or 'simplefilter' in src):
                    pass
                else:
                    out.append((f'{fn}:{ln}: delete `{src[:50]}`', i, ('stmt', ast.Pass())))
            elif isinstance(node, ast.Call) and len(node.args) >= 2 and not node.keywords:
                out.append((f'{fn}:{ln}: swap first two args of `{ast.unparse(node.func)[:30]}`', i, ('swapargs',)))
        for child in ast.iter_child_nodes(node):
            visit(child, stack)
    visit(tree, [])
    return out


def apply(tree, idx, action):
    t = copy.deepcopy(tree)
    nodes = list(ast.walk(t))
    node = nodes[idx]
    kind = action[0]
    if kind == 'cmp':
        node.ops[action[1]] = action[2]()
    elif kind == 'bin':
        node.op = action[1]()
    elif kind == 'bool':
        node.op = action[1]()
    elif kind == 'const':
        node.value = action[1]
    elif kind == 'attr':
        node.attr = action[1]
    elif kind == 'swapargs':
        node.args[0], node.args[1] = node.args[1], node.args[0]
    elif kind in ('stmt', 'dropunary'):
        # replace node in its parent
        for parent in nodes:
            for fld, val in ast.iter_fields(parent):
                if isinstance(val, list):
                    for k, v in enumerate(val):
                        if v is node:
                            val[k] = ast.copy_location(action[1], node) if kind == 'stmt' else node.operand
                            return t
                elif val is node:
                    setattr(parent, fld, ast.copy_location(action[1], node) if kind == 'stmt' else node.operand)
                    return t
    return t


def run_one(job):
    k, rel, desc, idx, action, checks = job
    src = (REPO / rel).read_text()
    tree = ast.parse(src)
    try:
        mutated = ast.unparse(apply(tree, idx, action))
        compile(mutated, rel, 'exec')
    except Exception as e:  # noqa: BLE001
        return dict(id=k, file=rel, desc=desc, status='invalid', detail=str(e)[:100])
    d = Path(tempfile.mkdtemp(prefix=f'selftest_{k}_', dir='/tmp'))
    try:
        shutil.copytree(REPO / 'ioos_qc', d / 'ioos_qc')
        (d / rel).write_text(mutated)
        results = {}
        status = 'survived'
        env = dict(os.environ, VERIF_REPO=str(d), SELFTEST='1')
        for c in checks:
            p = subprocess.run([str(VERIF / 'check'), c], capture_output=True, text=True, env=env, cwd=str(VERIF), timeout=900)
            results[c] = p.returncode
            if p.returncode == 1:
                status = 'reported'
                break
        if status != 'reported' and any(v == 2 for v in results.values()):
            status = 'refused'
        return dict(id=k, file=rel, desc=desc, status=status, results=results)
    finally:
        shutil.rmtree(d, ignore_errors=True)


def main():
    args = sys.argv[1:]
    mods = None
    jobs_n = 14
    limit = None
    out = VERIF / 'selftest.json'
    if '--modules' in args:
        mods = args[args.index('--modules') + 1].split(',')
    if '--jobs' in args:
        jobs_n = int(args[args.index('--jobs') + 1])
    if '--limit' in args:
        limit = int(args[args.index('--limit') + 1])
    if '--out' in args:
        out = Path(args[args.index('--out') + 1])
    jobs = []
    for rel, checks in RELEVANT.items():
        if mods and not any(m in rel for m in mods):
            continue
        tree = ast.parse((REPO / rel).read_text())
        for desc, idx, action in sites(tree):
            jobs.append((len(jobs), rel, desc, idx, action, checks))
    if limit:
        import random
        random.Random(0).shuffle(jobs)
        jobs = jobs[:limit]
    print(f'{len(jobs)} mutants', flush=True)
    # evidence files are rewritten by the runs: work on a private copy of /verif? no - checks write evidence/<id>.json; restore afterwards
    with multiprocessing.Pool(jobs_n) as pool:
        res = []
        for r in pool.imap_unordered(run_one, jobs):
            res.append(r)
            if len(res) % 25 == 0:
                print(f'  {len(res)}/{len(jobs)}', flush=True)
    res.sort(key=lambda r: r['id'])
    summary = {}
    for r in res:
        summary[r['status']] = summary.get(r['status'], 0) + 1
    out.write_text(json.dumps(dict(summary=summary, mutants=res), indent=1))
    print(summary)
    for r in res:
        if r['status'] in ('survived', 'refused'):
            print(r['status'], r['file'], r['desc'])
    subprocess.run(['git', 'checkout', '-q', '--', 'evidence'], cwd=str(VERIF))


if __name__ == '__main__':
    main()
