import copy
import math
import warnings
from collections import namedtuple


def t_mutable_default():
    def acc(x, bucket=[]):
        bucket.append(x)
        return list(bucket)
    return [acc(1), acc(2), acc(3, []), acc(4)]


class Shared:
    items = []
    count = 0

    def __init__(self):
        self.count += 1

    def add(self, x):
        self.items.append(x)
        return self.items


def t_class_attr_sharing():
    a, b = Shared(), Shared()
    a.add(1)
    b.add(2)
    return [a.items, b.items is a.items, a.count, Shared.count]


def t_closures_in_loop():
    fs = []
    for i in range(3):
        def f(x, i=i):
            return x * i
        fs.append(f)
    gs = [(lambda j: (lambda x: x + j))(j) for j in range(3)]
    return [[f(10) for f in fs], [g(1) for g in gs]]


_G = 0


def t_global_stmt():
    global _G
    before = _G
    _G = before + 5
    return _G - before


def t_try_finally_return():
    def f():
        try:
            return 'try'
        finally:
            pass
    def g():
        try:
            raise ValueError('x')
        except ValueError:
            return 'except'
        finally:
            x = 1
    def h():
        for i in range(3):
            try:
                if i == 1:
                    continue
                if i == 2:
                    break
            finally:
                pass
        return i
    return [f(), g(), h()]


def t_walrus_and_scoping():
    data = [1, 5, 2, 8]
    big = [y for x in data if (y := x * 2) > 4]
    total = 0
    partial = [total := total + x for x in data]
    return [big, y, partial, total]


def t_assign_forms():
    a = b = [1, 2]
    a.append(3)
    x, y = 1, 2
    x, y = y, x
    l = [0, 1, 2, 3, 4, 5]
    l[1:3] = ['a']
    del l[0]
    d = {'k': 1}
    d['k'] += 2
    class O:
        pass
    o = O()
    o.v = 1
    o.v *= 5
    l2 = [1, 2, 3]
    l2 += (4,)
    t = (1, 2)
    t += (3,)
    return [b, x, y, l, d, o.v, l2, t]


def t_exceptions_custom():
    class MyErr(ValueError):
        def __init__(self, msg, code):
            super().__init__(msg)
            self.code = code
    out = []
    try:
        raise MyErr('bad', 7)
    except (KeyError, ValueError) as e:
        out.append([type(e).__name__, str(e), e.code, isinstance(e, ValueError)])
    try:
        try:
            raise KeyError('k')
        except KeyError:
            raise RuntimeError('r') from None
    except RuntimeError as e:
        out.append(str(e))
    try:
        raise ValueError
    except Exception as e:
        out.append(type(e).__name__)
    def reraises():
        try:
            1 / 0
        except ZeroDivisionError:
            raise
    try:
        reraises()
    except ArithmeticError:
        out.append('arith')
    return out


def t_recursion_and_defaults():
    def fact(n):
        return 1 if n <= 1 else n * fact(n - 1)
    def fib(n, memo={}):
        if n in memo:
            return memo[n]
        memo[n] = n if n < 2 else fib(n - 1) + fib(n - 2)
        return memo[n]
    return [fact(5), fib(10)]


def t_dict_order_and_views():
    d = {}
    d['b'] = 1
    d['a'] = 2
    d['b'] = 3
    ks = d.keys()
    d['c'] = 4
    return [list(d), list(ks), list(d.values()), sorted(d.items(), key=lambda kv: kv[1]), {v: k for k, v in d.items()}, dict.fromkeys('ab', 0), list(reversed(d))]


def t_str_misc():
    s = 'a-b_c d'
    return [s.partition('-'), s.rsplit(' ', 1), s.title(), s.upper().isupper(), s.find('z'), s.count('-'), s.zfill(9), s.center(9, '*'), 'x' in s, s * 2, s.encode()[:2], '\t'.expandtabs(2),
            ','.join(sorted(set('banana'))), 'abc'.translate(str.maketrans('a', 'z')), repr('q'), str(1.0), str(10 ** 20), str(1e-7), str(True), str(None), str([1, 'a']), f'{1.0}{2!r}{"s"!r}']


def t_numbers_misc():
    return [math.floor(-1.5), math.ceil(1.2), math.isnan(float('nan')), math.isclose(0.1 + 0.2, 0.3), math.sqrt(16), math.hypot(3, 4), 5 // 2 * 2 + 5 % 2, 2 ** -1, (-8) ** (1 / 3) > 0 if False else True,
            int('12'), float('inf') > 1e308, 0.1 + 0.2 == 0.3, round(-0.5), 10 % -3, -10 // 3, bool(0.0), 1 if [] else 2, divmod(-7, 2), abs(-2.5), pow(2, 3, 5), max([1, 3], [1, 2]), min('b', 'a'), sum(x * x for x in range(4))]


def t_copy_semantics():
    a = [[1], [2]]
    b = list(a)
    c = copy.deepcopy(a)
    d = copy.copy(a)
    a[0].append(9)
    return [b, c, d, a is b, a[0] is b[0], a[0] is c[0]]


def t_namedtuple_factory():
    P = namedtuple('P', 'x y', defaults=[0])
    p = P(1)
    q = p._replace(y=5)
    return [p, q.y, p.x + q.y, P._fields, p == (1, 0), list(p), p._asdict()]


def t_unpack_calls():
    def f(a, b=2, *c, d=4, **e):
        return [a, b, c, d, e]
    l = [1, 2, 3]
    kw = {'d': 9, 'z': 0}
    return [f(*l), f(*l, **kw), f(a=5), f(1, **{'b': 7}), [*l, *l[:1]], {**kw, 'q': 1}, (*l,)]


def t_bool_short_circuit():
    calls = []
    def t(x):
        calls.append(x)
        return x
    r = [t(0) and t(1), t(2) or t(3), t(0) or t(''), not t(0) and t(5), any(t(i) for i in (0, 7, 8)), all(t(i) for i in (1, 0, 9))]
    return [r, calls]


def t_while_and_counters():
    n, steps = 27, 0
    while n != 1:
        n = n // 2 if n % 2 == 0 else 3 * n + 1
        steps += 1
        if steps > 200:
            break
    i = 0
    out = []
    while True:
        i += 1
        if i % 2:
            continue
        out.append(i)
        if i >= 6:
            break
    return [steps, out]


def t_warnings_and_with():
    with warnings.catch_warnings():
        warnings.simplefilter('ignore')
        warnings.warn('x')
        v = 1
    class CM:
        def __init__(self):
            self.log = []
        def __enter__(self):
            self.log.append('in')
            return self
        def __exit__(self, et, ev, tb):
            self.log.append('out' if et is None else et.__name__)
            return et is KeyError
    cm = CM()
    with cm as c:
        c.log.append('body')
    with cm:
        raise KeyError('swallowed')
    return [v, cm.log]


def t_inheritance_super():
    class A:
        kind = 'a'
        def __init__(self, x):
            self.x = x
        def who(self):
            return 'A' + str(self.x)
        def __repr__(self):
            return f'A({self.x})'
    class B(A):
        kind = 'b'
        def __init__(self, x, y):
            super().__init__(x)
            self.y = y
        def who(self):
            return 'B>' + super().who()
    b = B(1, 2)
    return [b.who(), b.kind, A.kind, isinstance(b, A), issubclass(B, A), type(b).__name__, b.x + b.y, hasattr(b, 'z'), getattr(b, 'z', 'dflt'), repr(A(3)), str(A(4))]


def t_sort_stability_and_keys():
    recs = [('b', 2), ('a', 2), ('c', 1), ('d', 3)]
    return [sorted(recs, key=lambda r: r[1]), sorted(recs, key=lambda r: (-r[1], r[0])), sorted(recs, reverse=True)[0], sorted([3, 1, 2], key=lambda v: -v), max(recs, key=lambda r: r[1]), min(recs, key=lambda r: r[1])]


def t_zip_strict_and_range():
    out = [list(zip([1, 2], 'ab', strict=True)), list(range(5, 0, -2)), list(range(0)), len(range(3, 10, 3)), 4 in range(0, 10, 2), list(zip(*[(1, 'a'), (2, 'b')]))]
    try:
        list(zip([1], [1, 2], strict=True))
    except ValueError:
        out.append('strict')
    return out


def t_comprehension_scope():
    x = 'outer'
    l = [x for x in range(3)]
    d = {k: [k * j for j in range(2)] for k in range(2)}
    g = (i * i for i in range(4))
    first = next(g)
    rest = list(g)
    again = list(g)
    return [x, l, d, first, rest, again]
