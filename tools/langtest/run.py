import sys, importlib.util, traceback
from fractions import Fraction as Fr
sys.path.insert(0, '/verif')
import os
os.environ['VERIF_REPO'] = '/tmp/langtest'
from sa.check import Check
ck = Check('C01', 'quick', 0)
spec = importlib.util.spec_from_file_location('lang_real', '/tmp/langtest/ioos_qc/lang.py')
real = importlib.util.module_from_spec(spec); spec.loader.exec_module(real)
def norm(v):
    if isinstance(v, bool) or v is None or isinstance(v, str): return v
    if isinstance(v, Fr): return float(v)
    if isinstance(v, (int, float)): return float(v)
    if isinstance(v, (list, tuple)): return [norm(x) for x in v]
    if isinstance(v, dict): return {norm(k) if not isinstance(k, str) else k: norm(x) for k, x in v.items()}
    if isinstance(v, (set, frozenset)): return sorted(norm(x) for x in v)
    return repr(v)
names = [n for n in dir(real) if n.startswith('t_')]
bad = 0
for n in names:
    want = norm(getattr(real, n)())
    try:
        fn = ck.runner.function('ioos_qc.lang', n)
        out = ck.runner.run(fn, [], {})
        if out.kind == 'raise':
            got = f'RAISES {out.exc.tname}{out.exc.args}'
        else:
            got = norm(out.value)
    except Exception as e:
        got = f'REFUSED {type(e).__name__}: {str(e)[:150]}'
    if got != want:
        bad += 1
        print(f'{n}:\n   got  {got}\n   want {want}')
print(f'{len(names)} snippets, {bad} differ')
