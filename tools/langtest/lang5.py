import itertools
import operator
from functools import partial
from typing import Final, NamedTuple

_TABLE: Final = (("std", operator.methodcaller("upper")), ("range", str.lower))


class Sel:
    __slots__ = ("items",)

    def __init__(self, items):
        self.items = tuple(items or ())

    def __contains__(self, x):
        return any(x == i for i in self.items)

    def __bool__(self):
        return bool(self.items)


def t_tables_and_lookups():
    pick = next((f for n, f in _TABLE if n == "range"), None)
    miss = next((f for n, f in _TABLE if n == "zzz"), None)
    return [pick("AbC"), miss, operator.methodcaller("split", "-")("a-b"), operator.itemgetter(1, 0)(["x", "y"]), operator.attrgetter("real")(3),
            list(map(operator.add, [1, 2], [10, 20])), list(itertools.chain.from_iterable([[1], [2, 3]])), dict.fromkeys(["a", "b", "a"]), next(iter({"k": 1}))]


def t_slots_and_contains():
    s = Sel(["a", "b"])
    e = Sel(None)
    out = ["a" in s, "z" in s, "a" not in s, bool(e), bool(s), "a" in e]
    try:
        s.other = 1
    except AttributeError:
        out.append("slots")
    return out


def t_for_targets_and_else():
    pairs = [(1, (2, 3)), (4, (5, 6))]
    acc = []
    for a, (b, c) in pairs:
        acc.append(a + b * c)
    for i, (k, v) in enumerate({"x": 1, "y": 2}.items()):
        acc.append(f"{i}{k}{v}")
    found = None
    for name, fn in _TABLE:
        if name == "range":
            found = name
            break
    else:
        found = "none"
    for name, fn in _TABLE:
        if name == "nope":
            break
    else:
        acc.append("else-ran")
    return [acc, found]


def t_star_generators_into_calls():
    def f(a, b, c=0, *rest):
        return [a, b, c, rest]
    gen = (x * x for x in range(4))
    g2 = (x for x in "ab")
    return [f(*gen), f(*g2), max(*[3, 1, 2]), [*range(2), *"xy"], {**{"a": 1}, **{"a": 2, "b": 3}}, (lambda *a, **k: (a, sorted(k)))(1, *[2], z=1, **{"y": 2})]


def t_slice_objects_and_getattr_loops():
    first, last = slice(None, 1), slice(-1, None)
    data = [1, 2, 3, 4]
    class R:
        data = 1
        tinp = 2
        zinp = 3
    r = R()
    tot = {}
    for name in ("data", "tinp", "zinp"):
        tot[name] = getattr(r, name) * 2
        setattr(r, name, 0)
    return [data[first], data[last], data[slice(1, None, 2)], tot, [r.data, r.tinp, r.zinp], hasattr(r, "lat"), getattr(r, "lat", None), sorted(vars(r)), slice(1, 3).indices(10)]


def t_try_in_loops():
    out = []
    for v in ("1", "x", "3", None):
        try:
            n = int(v)
        except ValueError:
            out.append("bad")
            continue
        except TypeError:
            out.append("none")
            break
        else:
            out.append(n)
        finally:
            out.append("|")
    return out


class Pair(NamedTuple):
    threshold: float
    flag: int


def t_namedtuple_tables():
    levels = sorted([Pair(2.0, 3), Pair(None, 4), Pair(1.0, 9)], key=lambda p: (p.threshold is None, p.threshold or 0))
    out = []
    for threshold, flag in levels:
        if threshold is None:
            continue
        out.append((threshold, flag))
    best = max((p for p in levels if p.threshold is not None), key=operator.attrgetter("threshold"))
    return [out, best.flag, [p._asdict()["flag"] for p in levels], Pair._fields, Pair(1, 2) < Pair(1, 3), tuple(Pair(5, 6))]


def t_partial_kw_and_closures_tables():
    def scale(x, *, by=1, plus=0):
        return x * by + plus
    fs = {"double": partial(scale, by=2), "inc": partial(scale, plus=1), "both": partial(scale, by=3, plus=1)}
    return [{k: f(10) for k, f in fs.items()}, fs["double"](1, plus=5), partial(scale, 2)(by=4), fs["both"].keywords, fs["inc"].func is scale]


def t_type_checks():
    return [type(1) is int, type(True) is int, type(1.0) is float, type("s") is str, type([]) is list, type(()) is tuple, type({}) is dict, type(None) is type(None),
            isinstance(1, (int, float)), isinstance(True, int), isinstance(1.0, int), type(1) == type(2), type(Sel(None)).__name__, callable(len), callable(3)]


def t_string_predicates():
    names = ["temp", "9lives", "a-b", "", "_x", "Ü"]
    return [[n.isidentifier() for n in names], [n[:1].isdigit() for n in names], [n.isalnum() for n in names], ["_".join(n.split("-")) for n in names],
            [n.ljust(4, ".") for n in names[:2]], "a,b;c".replace(";", ",").split(","), "abc".index("c"), "x=1".partition("="), "  a b ".split(), "a\nb".splitlines(), "%d%%" % 5]
