import collections
import contextlib
import enum
import functools
import itertools
import operator
from dataclasses import dataclass, field
from typing import NamedTuple


def t_closure_nonlocal():
    def counter():
        n = 0
        def inc(k=1):
            nonlocal n
            n += k
            return n
        return inc
    c = counter()
    return [c(), c(2), c()]


def t_default_binding():
    fs = [lambda x, i=i: x + i for i in range(3)]
    return [f(10) for f in fs]


def t_late_binding():
    fs = [lambda x: x + i for i in range(3)]
    return [f(10) for f in fs]


def t_star_args():
    def f(a, *rest, k=0, **kw):
        return (a, rest, k, sorted(kw.items()))
    args = (1, 2, 3)
    return [f(*args), f(1, k=5, z=2, y=1), f(*args, **{'k': 9})]


def t_kwonly_posonly():
    def f(a, /, b, *, c=3):
        return a * 100 + b * 10 + c
    return [f(1, 2), f(1, b=2, c=4)]


def t_star_unpack():
    a, *b, c = [1, 2, 3, 4, 5]
    (x, y), z = (1, 2), 3
    first, *_ = 'abc'
    return [a, b, c, x, y, z, first]


def t_chained_cmp():
    return [1 < 2 < 3, 1 < 3 < 2, 1 == 1 != 2, 3 > 2 >= 2 > 1]


def t_comprehensions():
    return [[(i, j) for i in range(3) for j in range(i) if (i + j) % 2], {k: v for k, v in zip('abc', range(3)) if v}, sorted({i % 3 for i in range(10)})]


def t_yield_from():
    def inner():
        yield 1
        yield 2
        return 'done'
    def outer():
        r = yield from inner()
        yield r
        yield from [3, 4]
    return list(outer())


def t_iter_sentinel():
    it = iter([1, 2, 3])
    out = []
    while (x := next(it, None)) is not None:
        out.append(x * 2)
    return out


def t_enumerate_zip_sorted():
    words = ['pear', 'fig', 'apple']
    return [list(enumerate(words, start=1)), sorted(words, key=len), min(words, key=len), max(words, key=lambda w: w[-1]),
            list(zip(words, reversed(words))), sorted(words, reverse=True)]


def t_set_dict_ops():
    a, b = {1, 2, 3}, {2, 3, 4}
    d = {'x': 1}
    e = {**d, 'y': 2} | {'z': 3}
    d.setdefault('k', []).append(1)
    p = e.pop('nope', 'dflt')
    return [sorted(a | b), sorted(a & b), sorted(a - b), sorted(a ^ b), e, d, p, list(e.items())]


def t_collections():
    dq = collections.deque([1, 2, 3], maxlen=3)
    dq.append(4)
    dq.appendleft(0)
    c = collections.Counter('abracadabra')
    dd = collections.defaultdict(list)
    for k, v in [('a', 1), ('b', 2), ('a', 3)]:
        dd[k].append(v)
    od = collections.OrderedDict(a=1, b=2, c=3)
    od.move_to_end('a')
    return [list(dq), c.most_common(2), dict(dd), list(od)]


class Color(enum.IntEnum):
    RED = 1
    GREEN = 2


class Mode(enum.Enum):
    FAST = 'fast'
    SLOW = 'slow'


def t_enum():
    return [Color.RED == 1, Color.GREEN + 1, Color(2).name, Mode('fast') is Mode.FAST, Mode.SLOW.value, [m.name for m in Mode], int(Color.RED)]


class Box:
    __slots__ = ('_v',)

    def __init__(self, v):
        self._v = v

    @property
    def v(self):
        return self._v

    @v.setter
    def v(self, x):
        self._v = x * 2

    @classmethod
    def of(cls, x):
        return cls(x + 1)

    @staticmethod
    def twice(x):
        return 2 * x

    def __iter__(self):
        yield self._v
        yield -self._v

    def __len__(self):
        return 2

    def __contains__(self, x):
        return x == self._v

    def __getitem__(self, i):
        return [self._v, -self._v][i]


def t_class_protocols():
    b = Box.of(2)
    b.v = 5
    return [b.v, list(b), len(b), 10 in b, 3 in b, b[1], Box.twice(4), [x for x in b], tuple(b)]


@dataclass
class P:
    x: int
    y: int = 2
    z: list = field(default_factory=list)

    def __post_init__(self):
        self.s = self.x + self.y


def t_dataclass():
    p = P(1)
    q = P(1, 2)
    p.z.append(1)
    return [p.s, p == q, q.z, p.z]


class NT(NamedTuple):
    a: int
    b: str = 'k'

    def both(self):
        return f'{self.a}{self.b}'


def t_namedtuple():
    n = NT(1)
    a, b = n
    return [n.both(), a, b, n[0], n._replace(a=5).a, n._asdict(), len(n), n == (1, 'k')]


@functools.singledispatch
def show(x):
    return 'obj'


@show.register
def _(x: int):
    return 'int'


@show.register(list)
def _(x):
    return 'list'


def t_singledispatch():
    return [show(1), show([1]), show('s'), show(True)]


def t_context_managers():
    log = []

    @contextlib.contextmanager
    def cm(tag):
        log.append('enter ' + tag)
        try:
            yield tag.upper()
        finally:
            log.append('exit ' + tag)
    with cm('a') as a, cm('b') as b:
        log.append(a + b)
    with contextlib.suppress(KeyError):
        {}['x']
        log.append('not reached')
    with contextlib.nullcontext(5) as n:
        log.append(n)
    return log


def t_try_flow():
    out = []
    for v in (1, 0, 'x'):
        try:
            r = 10 / v
        except ZeroDivisionError:
            out.append('zero')
        except TypeError as e:
            out.append('type')
        else:
            out.append(r)
        finally:
            out.append('f')
    try:
        try:
            raise ValueError('a')
        except ValueError as e:
            raise KeyError('b') from e
    except KeyError as k:
        out.append(type(k.__cause__).__name__)
    return out


def t_loops_else():
    out = []
    for i in range(3):
        if i == 5:
            break
    else:
        out.append('for-else')
    n = 0
    while n < 3:
        n += 1
        if n == 2:
            break
    else:
        out.append('while-else')
    out.append(n)
    return out


def t_strings():
    s = 'Hello, World'
    return [s.lower().split(', '), f'{3.14159:.2f}|{42:>5}|{"x":^5}|{7:03d}|{1234567:,}', s[::-1], s[-5:], '-'.join(map(str, range(3))),
            '%s=%d' % ('a', 1), '{}-{}'.format(1, 2), s.startswith(('He', 'x')), s.replace('l', 'L', 1), 'a,b,,c'.split(','), ' x '.strip()]


def t_slicing():
    l = list(range(10))
    return [l[::-2], l[8:2:-3], l[-3:], l[:-7], l[slice(1, None, 4)], tuple(l)[2:4]]


def t_isinstance_abc():
    import numbers
    from collections.abc import Mapping, Sequence
    return [isinstance(1, numbers.Real), isinstance(1.5, numbers.Integral), isinstance([1], Sequence), isinstance('s', Sequence), isinstance({}, Mapping),
            isinstance((1,), (list, tuple)), isinstance(True, int)]


def t_functools_itertools():
    return [functools.reduce(operator.add, range(5)), list(itertools.accumulate([1, 2, 3])), list(itertools.chain([1], (2, 3))),
            list(itertools.islice(itertools.count(5), 3)), list(itertools.pairwise([1, 2, 3])), list(itertools.zip_longest([1, 2], [3], fillvalue=0)),
            list(itertools.starmap(pow, [(2, 3), (3, 2)])), [list(g) for k, g in itertools.groupby([1, 1, 2, 1])], list(itertools.compress('abc', [1, 0, 1])),
            functools.partial(pow, 2)(5), list(itertools.takewhile(lambda x: x < 3, range(10))), list(itertools.dropwhile(lambda x: x < 3, range(5)))]


_CACHE = {}


def t_global_cache():
    def get(k):
        if k not in _CACHE:
            _CACHE[k] = k * 2
        return _CACHE[k]
    return [get(2), get(2), len(_CACHE)]


def t_cond_and_bool():
    x = None
    return [x or 'd', 0 or [] or 'z', 1 and 2, (3 if x is None else 4), not x, bool([]), bool([0]), [] == [], () is None]


def t_total_ordering():
    @functools.total_ordering
    class V:
        def __init__(self, n):
            self.n = n
        def __eq__(self, o):
            return self.n == o.n
        def __lt__(self, o):
            return self.n < o.n
    return [V(1) < V(2), V(2) >= V(1), V(1) <= V(1), V(3) > V(4)]


def t_cached_property():
    class C:
        def __init__(self):
            self.calls = 0
        @functools.cached_property
        def val(self):
            self.calls += 1
            return 42
    c = C()
    return [c.val, c.val, c.calls]


def t_assert_and_raise():
    out = []
    try:
        assert 1 == 2, 'nope'
    except AssertionError as e:
        out.append(str(e))
    try:
        int('x')
    except ValueError:
        out.append('ve')
    try:
        [][0]
    except IndexError:
        out.append('ie')
    try:
        None.foo
    except AttributeError:
        out.append('ae')
    return out


def t_numeric():
    return [7 // 2, -7 // 2, 7 % 3, -7 % 3, divmod(7, 2), 2 ** 10, round(2.5), round(3.5), round(2.675, 2), abs(-3), int(3.9), int(-3.9), float('1.5') + 1, 1 / 4, sum([1, 2, 3], 10), max(1, 2, 3), min([4, 2, 8])]
