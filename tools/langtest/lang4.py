def t_interleaved_generator():
    seen = set()
    def fresh(names):
        for n in names:
            if n not in seen:
                yield n
    out = []
    for n in fresh(['a', 'b', 'a', 'c', 'b']):
        seen.add(n)
        out.append(n)
    return out


def t_generator_side_effect_order():
    log = []
    def gen():
        log.append('start')
        yield 1
        log.append('mid')
        yield 2
        log.append('end')
    g = gen()
    log.append('created')
    a = next(g)
    log.append('got1')
    rest = list(g)
    return [log, a, rest]


def t_generator_exception_timing():
    def gen():
        yield 1
        raise ValueError('late')
    g = gen()
    out = []
    try:
        for x in g:
            out.append(x)
    except ValueError as e:
        out.append(str(e))
    def never():
        raise KeyError('k')
        yield 1
    n = never()
    out.append('made')
    try:
        next(n)
    except KeyError:
        out.append('raised at next')
    return out


def t_partial_consumption_and_break():
    def count():
        i = 0
        while True:
            yield i
            i += 1
    out = []
    for v in count():
        if v > 3:
            break
        out.append(v)
    g = count()
    firsts = [next(g), next(g)]
    def early():
        yield 1
        return 'r'
        yield 2
    return [out, firsts, list(early())]


def t_nested_delegation():
    trace = []
    def inner():
        trace.append('i1')
        yield 'a'
        trace.append('i2')
        yield 'b'
        return 'ret'
    def outer():
        r = yield from inner()
        trace.append(r)
        yield 'c'
    got = []
    for x in outer():
        got.append(x)
        trace.append('c:' + x)
    return [got, trace]


def t_generator_in_pipeline():
    frame = {}
    def columns(results):
        for name, val in results:
            if name not in frame:
                yield name, val
    for name, val in columns([('t', 1), ('x', 2), ('t', 3), ('y', 4), ('x', 5)]):
        frame[name] = val
    return frame
