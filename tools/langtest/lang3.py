import json
import logging
import re
from dataclasses import dataclass, field
from functools import partial, reduce, wraps, lru_cache
from typing import Dict, List, Optional, Tuple, Union

L = logging.getLogger(__name__)


class Money:
    def __init__(self, cents):
        self.cents = cents

    def __eq__(self, other):
        return isinstance(other, Money) and self.cents == other.cents

    def __hash__(self):
        return hash(self.cents)

    def __lt__(self, other):
        return self.cents < other.cents

    def __add__(self, other):
        return Money(self.cents + other.cents)

    def __repr__(self):
        return f'Money({self.cents})'

    def __bool__(self):
        return self.cents != 0


def t_operator_overloads():
    a, b, c = Money(5), Money(5), Money(7)
    d = {a: 'five'}
    return [a == b, a is b, a != c, d[b], sorted([c, a])[0].cents, (a + c).cents, bool(Money(0)), repr(a), len({a, b, c}), a < c, max(a, c).cents, [m.cents for m in sorted({a, c})]]


@dataclass(frozen=True)
class Key:
    a: int
    b: Tuple[int, ...] = ()
    tags: Dict[str, int] = field(default_factory=dict, compare=False, hash=False)


def t_frozen_dataclass():
    k1, k2 = Key(1, (2,)), Key(1, (2,))
    out = [k1 == k2, hash(k1) == hash(k2), len({k1, k2}), k1.a]
    try:
        k1.a = 5
    except Exception as e:
        out.append(type(e).__name__)
    return out


def deco(fn):
    @wraps(fn)
    def wrapper(*a, **k):
        wrapper.calls += 1
        return fn(*a, **k)
    wrapper.calls = 0
    return wrapper


@deco
def add(x, y=1):
    """adds"""
    return x + y


def t_decorators():
    r = [add(1), add(1, y=5), add.calls, add.__name__, add.__doc__]
    def param(n):
        def d(fn):
            def w(*a):
                return fn(*a) * n
            return w
        return d
    @param(3)
    def one():
        return 1
    r.append(one())
    return r


def t_partial_reduce_cache():
    calls = []
    @lru_cache(maxsize=None)
    def sq(x):
        calls.append(x)
        return x * x
    p = partial(pow, exp=2) if False else partial(int, base=2)
    return [sq(3), sq(3), len(calls), p('101'), reduce(lambda a, b: a * b, [1, 2, 3, 4], 1)]


def t_regex():
    s = 'temp_1 sal-2  9lives'
    return [re.sub(r'[^a-zA-Z0-9_]', '_', s), re.findall(r'\d+', s), bool(re.match(r'^[a-z]', s)), re.split(r'\s+', s), re.search(r'(\w+)-(\d)', s).groups(),
            re.compile(r'^\d').sub('_', '9x'), re.fullmatch(r'a+', 'aaa') is not None, re.sub(r'(a)(b)', r'\2\1', 'abab')]


def t_json_roundtrip():
    d = {'a': [1, 2.5, None, True], 'b': {'c': 'x'}}
    s = json.dumps(d, sort_keys=True)
    return [s, json.loads(s) == d, json.loads('[1, {"k": null}]'), json.dumps([1, 'a'])]


def t_logging_no_effect():
    L.warning('w %s', 1)
    L.debug('d')
    L.info(f'{1}')
    try:
        raise ValueError('x')
    except ValueError:
        L.exception('boom')
    return 'ok'


def t_optional_chaining_patterns():
    cfg = {'a': {'b': None}, 'l': []}
    out = [cfg.get('a', {}).get('b') or 'dflt', cfg.get('z', {}).get('b'), (cfg.get('l') or [0])[0], 'a' in cfg and 'b' in cfg['a']]
    x: Optional[int] = None
    out.append(x if x is not None else -1)
    y: Union[int, str] = 'q'
    out.append(isinstance(y, (int, str)))
    return out


def t_nested_data():
    rows = [{'id': 2, 'v': [1, 2]}, {'id': 1, 'v': [3]}]
    by_id = {r['id']: r for r in rows}
    flat = [x for r in rows for x in r['v']]
    rows.sort(key=lambda r: r['id'])
    grouped: Dict[int, List[int]] = {}
    for i, x in enumerate(flat):
        grouped.setdefault(i % 2, []).append(x)
    matrix = [[i * j for j in range(3)] for i in range(2)]
    transposed = [list(c) for c in zip(*matrix)]
    return [sorted(by_id), flat, rows[0]['id'], grouped, matrix, transposed, sum(map(sum, matrix)), [r for r in matrix if any(r)]]


class Node:
    count = 0

    def __init__(self, v, nxt=None):
        self.v, self.nxt = v, nxt
        Node.count += 1

    def __iter__(self):
        n = self
        while n is not None:
            yield n.v
            n = n.nxt

    @classmethod
    def from_list(cls, xs):
        head = None
        for x in reversed(xs):
            head = cls(x, head)
        return head

    @property
    def length(self):
        return sum(1 for _ in self)


def t_linked_structure():
    h = Node.from_list([1, 2, 3])
    return [list(h), h.length, h.nxt.nxt.v, Node.count >= 3, [v * 2 for v in h]]


def t_string_building():
    parts = []
    for i, w in enumerate(['a', 'b', 'c']):
        parts.append(f'{i}:{w}')
    s = ', '.join(parts)
    t = ''
    for ch in 'héllo wörld':
        t += ch if ch.isascii() and ch.isalnum() else '_'
    return [s, t, s.split(', ')[1].split(':'), '%05.1f|%-3s|%x' % (3.14159, 'ab', 255), '{:>6.2f}|{!r}|{a}'.format(2.5, 'q', a=1), 'abc'[::-1].upper(), 'a' < 'b', 'Z' < 'a', ord('a'), chr(98)]


def t_numeric_edge():
    return [int(True) + 1, True + True, 0.1 * 3, 1e16 + 1 == 1e16, 7 / 2, -7 // 2.0, float(3), 3 == 3.0, hash(3) == hash(3.0), round(1234.5678, -2), round(1.5), round(-1.5), int(1e3), 10 ** -2, 5 % 2.5, 2 ** 0.5 > 1.41]
