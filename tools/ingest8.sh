#!/bin/bash
# usage: tools/ingest8.sh <Cxx of worktree /tmp/wt8_Cxx>  copies out/m<k> to seeded/<prop>_m<next>, verifies in background, runs own check
id=$1
for k in 1 2 3 4; do
  src=/tmp/wt8_$id/out/m$k; [ -d $src ] || continue
  prop=$(python3 -c "import json;print(json.load(open('$src/meta.json'))['property'])")
  n=1; while [ -d /verif/seeded/${prop}_m$n ]; do n=$((n+1)); done
  dst=/verif/seeded/${prop}_m$n; mkdir -p $dst; cp $src/{patch.diff,demo.py,meta.json} $dst/
  (cd /verif && tools/verify_seed.sh $dst > /tmp/verify_${prop}_m$n.log 2>&1 &)
  cd /verif && tools/run_seed.sh $dst $prop 2>&1 | cut -c1-330 | head -4
done
