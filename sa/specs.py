"""Specification tables, written from the property statements (DESIGN Appendix A).

A spec is built for one Case (concrete parameters and presence patterns) and answers
    .rejects   -> tuple of acceptable exception type names when the call must be rejected, else None
    .pos(p)    -> (quantities, allowed) for output position p:
                  quantities = [(q, [breakpoints])] the spec's own compared quantities,
                  allowed(cell) -> set of flags the property allows in that order cell.
Data atoms are x(name, i) = the i-th element of the named input.
"""
from fractions import Fraction as Fr

from . import expr as X
from .qc import F, G, M, S, U
from .scen import x

REJECT = ('ValueError', 'TypeError', 'AssertionError')


def fr(v):
    return None if v is None else Fr(v)


class Spec:
    rejects = None

    def pos(self, p):
        raise NotImplementedError


# --------------------------------------------------------------------------------------------------
class GrossRange(Spec):
    """A1"""

    def __init__(self, case):
        kw = case.kwargs
        self.pat = case.pat['inp']
        fs, ss = kw['fail_span'], kw.get('suspect_span')
        self.rejects = None
        if not isinstance(fs, (list, tuple)) or len(fs) != 2:
            self.rejects = REJECT
            return
        self.fmin, self.fmax = min(fs), max(fs)
        self.susp = ss is not None
        if self.susp:
            if not isinstance(ss, (list, tuple)) or len(ss) != 2:
                self.rejects = REJECT
                return
            self.smin, self.smax = min(ss), max(ss)
            if self.smin < self.fmin or self.smax > self.fmax:
                self.rejects = ('ValueError',)

    def pos(self, p):
        if self.pat[p] == 'm':
            return [], lambda cell: {M}
        q = x('inp', p)
        bps = [self.fmin, self.fmax] + ([self.smin, self.smax] if self.susp else [])

        def allowed(cell):
            v = cell[q]
            if v < self.fmin or v > self.fmax:
                return {F}
            if self.susp and (v < self.smin or v > self.smax):
                return {S}
            return {G}
        return [(q, bps)], allowed


class ValidRange(Spec):
    """A2"""

    def __init__(self, case):
        kw = case.kwargs
        self.pat = case.pat['inp']
        lo, hi = kw['valid_span']
        self.lo, self.hi = fr(lo), fr(hi)
        self.si = kw.get('start_inclusive', True)
        self.ei = kw.get('end_inclusive', False)

    def pos(self, p):
        if self.pat[p] == 'm':
            return [], lambda cell: {M}
        q = x('inp', p)
        bps = [b for b in (self.lo, self.hi) if b is not None]

        def allowed(cell):
            v = cell[q]
            if self.lo is not None and (v < self.lo or (v == self.lo and self.si is not True)):
                return {F}
            if self.hi is not None and (v > self.hi or (v == self.hi and self.ei is not True)):
                return {F}
            return {G}
        return [(q, bps)], allowed
