"""Specification tables, written from the property statements (DESIGN Appendix A).

A spec is built for one Case (concrete parameters and presence patterns) and answers
    .rejects   -> tuple of acceptable exception type names when the call must be rejected, else None
    .pos(p)    -> (quantities, allowed) for output position p:
                  quantities = [(q, [breakpoints])] the spec's own compared quantities,
                  allowed(cell) -> set of flags the property allows in that order cell.
Data atoms are x(name, i) = the i-th element of the named input.
"""
from fractions import Fraction as Fr

from . import expr as X
from .qc import F, G, M, S, U
from .scen import x

REJECT = ('ValueError', 'TypeError', 'AssertionError')


def fr(v):
    return None if v is None else Fr(v)


class Spec:
    rejects = None

    def pos(self, p):
        raise NotImplementedError


# --------------------------------------------------------------------------------------------------
class GrossRange(Spec):
    """A1"""

    def __init__(self, case):
        kw = case.kwargs
        self.pat = case.pat['inp']
        fs, ss = kw['fail_span'], kw.get('suspect_span')
        self.rejects = None
        if not isinstance(fs, (list, tuple)) or len(fs) != 2:
            self.rejects = REJECT
            return
        self.fmin, self.fmax = min(fs), max(fs)
        self.susp = ss is not None
        if self.susp:
            if not isinstance(ss, (list, tuple)) or len(ss) != 2:
                self.rejects = REJECT
                return
            self.smin, self.smax = min(ss), max(ss)
            if self.smin < self.fmin or self.smax > self.fmax:
                self.rejects = ('ValueError',)

    def pos(self, p):
        if self.pat[p] == 'm':
            return [], lambda cell: {M}
        q = x('inp', p)
        bps = [self.fmin, self.fmax] + ([self.smin, self.smax] if self.susp else [])

        def allowed(cell):
            v = cell[q]
            if v < self.fmin or v > self.fmax:
                return {F}
            if self.susp and (v < self.smin or v > self.smax):
                return {S}
            return {G}
        return [(q, bps)], allowed


class ValidRange(Spec):
    """A2"""

    def __init__(self, case):
        kw = case.kwargs
        self.pat = case.pat['inp']
        lo, hi = kw['valid_span']
        self.lo, self.hi = fr(lo), fr(hi)
        self.si = kw.get('start_inclusive', True)
        self.ei = kw.get('end_inclusive', False)

    def pos(self, p):
        if self.pat[p] == 'm':
            return [], lambda cell: {M}
        q = x('inp', p)
        bps = [b for b in (self.lo, self.hi) if b is not None]

        def allowed(cell):
            v = cell[q]
            if self.lo is not None and (v < self.lo or (v == self.lo and self.si is not True)):
                return {F}
            if self.hi is not None and (v > self.hi or (v == self.hi and self.ei is not True)):
                return {F}
            return {G}
        return [(q, bps)], allowed


# --------------------------------------------------------------------------------------------------
# helpers for formula-based specs

def holds(f, cell):
    """evaluate a spec-built formula on a cell (all its quantities are in the cell)"""
    v = X.eval_formula(f, cell)
    if v is None:
        raise KeyError(f'spec formula not decided by cell: {X.show(f)}')
    return v


def quantities_of(*formulas):
    qs = {}
    for f in formulas:
        for a in X.atoms_of(f):
            qs.setdefault(a[2], set()).add(a[3][1])
    return [(q, sorted(b)) for q, b in qs.items()]


def severity_spec(fail_f, susp_f):
    """FAIL if fail_f, else SUSPECT if susp_f, else GOOD"""
    def allowed(cell):
        if fail_f is not None and holds(fail_f, cell):
            return {F}
        if susp_f is not None and holds(susp_f, cell):
            return {S}
        return {G}
    return quantities_of(*[f for f in (fail_f, susp_f) if f is not None]), allowed


class Location(Spec):
    """A3"""

    def __init__(self, case):
        kw = case.kwargs
        self.lon, self.lat = case.pat['lon'], case.pat['lat']
        self.rejects = None
        bbox = kw.get('bbox', (-180, -90, 180, 90))
        if len(self.lon) != len(self.lat) or case.meta.get('class') == 'shape-mismatch':
            self.rejects = REJECT      # "are rejected": the statement names no exception type
            return
        if not isinstance(bbox, (list, tuple)) or len(bbox) != 4:
            self.rejects = REJECT
            return
        self.minx, self.miny, self.maxx, self.maxy = (Fr(b) for b in bbox)
        self.rmax = fr(kw.get('range_max'))

    def full(self, p):
        return self.lon[p] == 'p' and self.lat[p] == 'p'

    def is_missing(self, p):
        return self.lon[p] == 'm' and self.lat[p] == 'm'

    def pos(self, p):
        lo, la = self.lon[p], self.lat[p]
        if lo == 'm' and la == 'm':
            return [], lambda cell: {M}
        box = []
        if lo == 'p':
            box += [X.cmp('lt', x('lon', p), X.num(self.minx)), X.cmp('gt', x('lon', p), X.num(self.maxx))]
        if la == 'p':
            box += [X.cmp('lt', x('lat', p), X.num(self.miny)), X.cmp('gt', x('lat', p), X.num(self.maxy))]
        if lo != la:
            return quantities_of(*box), lambda cell: {F}
        fail_f = X.f_or(*box)
        susp_f = None
        if self.rmax is not None and p >= 1 and self.full(p - 1):
            d = X.fn('geodist', *_geo_args(p - 1, p))
            susp_f = X.cmp('gt', d, X.num(self.rmax))
        return severity_spec(fail_f, susp_f)


def _geo_args(a, b):
    p1, p2 = sorted([(x('lat', a), x('lon', a)), (x('lat', b), x('lon', b))], key=repr)
    return p1[0], p1[1], p2[0], p2[1]


class Spike(Spec):
    """A5"""

    def __init__(self, case):
        kw = case.kwargs
        self.pat = case.pat['inp']
        self.s, self.f = fr(kw.get('suspect_threshold')), fr(kw.get('fail_threshold'))
        self.method = kw.get('method', 'average')
        self.rejects = None if self.method in ('average', 'differential') else ('ValueError',)

    def is_missing(self, p):
        return self.pat[p] == 'm'

    def pos(self, p):
        n = len(self.pat)
        if p == 0 or p == n - 1:
            return [], (lambda cell: {U, M}) if self.pat[p] == 'm' else (lambda cell: {U})
        if self.pat[p] == 'm':
            return [], lambda cell: {M}
        if self.pat[p - 1] == 'm' or self.pat[p + 1] == 'm':
            return [], lambda cell: {M, U, G}
        a, b, c = x('inp', p - 1), x('inp', p), x('inp', p + 1)
        if self.method == 'average':
            d = X.abs_(X.sub(b, X.scale(X.add(a, c), Fr(1, 2))))
            ff = X.cmp('gt', d, X.num(self.f)) if self.f is not None else None
            sf = X.cmp('gt', d, X.num(self.s)) if self.s is not None else None
            return severity_spec(ff, sf)
        s1, s2 = X.sub(b, a), X.sub(c, b)
        m = X.min_(X.abs_(s1), X.abs_(s2))
        opposite = X.cmp('lt', X.mul(s1, s2), X.num(0))
        ff = X.f_and(opposite, X.cmp('gt', m, X.num(self.f))) if self.f is not None else None
        sf = X.f_and(opposite, X.cmp('gt', m, X.num(self.s))) if self.s is not None else None
        if self.f is not None and self.f < 0:
            ff = X.f_or(ff, X.f_not(opposite))      # d = 0 exceeds a negative threshold
        if self.s is not None and self.s < 0:
            sf = X.f_or(sf, X.f_not(opposite))
        qs, allowed = severity_spec(ff, sf)
        if not any(q == opposite[2] for q, _ in qs):
            qs = qs + quantities_of(opposite)
        return qs, allowed


class RateOfChange(Spec):
    """A6"""

    def __init__(self, case):
        self.pat = case.pat['inp']
        self.t = case.meta['t']
        self.thr = Fr(case.kwargs['threshold'])
        self.rejects = ('ValueError',) if len(self.t) != len(self.pat) else None

    def is_missing(self, p):
        return self.pat[p] == 'm'

    def pos(self, p):
        if self.pat[p] == 'm':
            return [], lambda cell: {M}
        if p == 0 or self.pat[p - 1] == 'm':
            return [], lambda cell: {G}
        dt = Fr(self.t[p] - self.t[p - 1])
        d = X.abs_(X.sub(x('inp', p), x('inp', p - 1)))
        return severity_spec(None, X.cmp('gt', d, X.num(self.thr * dt)))


class Speed(Spec):
    """A7"""

    def __init__(self, case):
        kw = case.kwargs
        self.lon, self.lat = case.pat['lon'], case.pat['lat']
        self.t = case.meta['t']
        self.s, self.f = Fr(kw['suspect_threshold']), Fr(kw['fail_threshold'])
        self.rejects = None
        if not (len(self.lon) == len(self.lat) == len(self.t)):
            self.rejects = ('ValueError',)

    def full(self, p):
        return self.lon[p] == 'p' and self.lat[p] == 'p'

    def is_missing(self, p):
        return self.lon[p] == 'm' and self.lat[p] == 'm'

    def pos(self, p):
        both_missing = self.is_missing(p)
        if p == 0:
            return [], (lambda cell: {U, M}) if both_missing else (lambda cell: {U})
        if both_missing:
            return [], lambda cell: {M}
        if not self.full(p):
            return [], lambda cell: {M, U, F}
        if not self.full(p - 1):
            # the statement only speaks of points whose predecessor has a full position; no speed can be formed here
            return [], lambda cell: {M, U, G}
        dt = Fr(self.t[p] - self.t[p - 1])
        if dt == 0:
            # outside C10's time axes; C02's converse still applies: both fixes are present, so never MISSING
            return [], lambda cell: {G, S, F, U}
        d = X.abs_(X.fn('geodist', *_geo_args(p - 1, p)))
        return severity_spec(X.cmp('gt', d, X.num(self.f * dt)), X.cmp('gt', d, X.num(self.s * dt)))


def _range_expr(atoms):
    if len(atoms) <= 1:
        return X.num(0)
    return X.sub(X.max_(*atoms), X.min_(*atoms))


class FlatLine(Spec):
    """A8"""

    def __init__(self, case):
        import math
        kw = case.kwargs
        self.pat = case.pat['inp']
        self.t = case.meta['t']
        self.tol = Fr(kw.get('tolerance', 0))
        self.rejects = None
        n = len(self.pat)
        if n >= 2:
            D = Fr(self.t[1] - self.t[0])
            self.ks = math.floor(Fr(kw['suspect_threshold']) / D)
            self.kf = math.floor(Fr(kw['fail_threshold']) / D)

    def is_missing(self, p):
        return self.pat[p] == 'm'

    def pos(self, p):
        n = len(self.pat)
        if self.pat[p] == 'm':
            return [], lambda cell: {M}
        if n < 3:
            return [], lambda cell: {G}

        def flat(k):
            if p < k:
                return X.FALSE
            atoms = [x('inp', j) for j in range(p - k, p + 1) if self.pat[j] == 'p']
            return X.cmp('lt', _range_expr(atoms), X.num(self.tol))
        return severity_spec(flat(self.kf), flat(self.ks))


class Attenuated(Spec):
    """A9"""

    def __init__(self, case):
        import math
        kw = case.kwargs
        self.pat = case.pat['inp']
        self.t = case.meta['t']
        self.s, self.f = Fr(kw['suspect_threshold']), Fr(kw['fail_threshold'])
        self.ct = kw.get('check_type', 'std')
        self.period = fr(kw.get('test_period'))
        self.rejects = None if self.ct in ('std', 'range') else ('ValueError',)
        self.min_required = 1
        if kw.get('min_obs') is not None:
            self.min_required = kw['min_obs']
        elif kw.get('min_period') is not None and len(self.t) >= 2:
            steps = sorted(Fr(b - a) for a, b in zip(self.t, self.t[1:]))
            m = len(steps)
            D = steps[m // 2] if m % 2 else (steps[m // 2 - 1] + steps[m // 2]) / 2     # the (median) sampling step
            self.min_required = math.trunc(Fr(kw['min_period']) / D)

    def is_missing(self, p):
        return self.pat[p] == 'm'

    def pos(self, p):
        n = len(self.pat)
        if self.pat[p] == 'm':
            return [], lambda cell: {M}
        if not self.period:
            idx = [j for j in range(n) if self.pat[j] == 'p']
            atoms = [x('inp', j) for j in idx]
            if self.ct == 'std':
                q = X.red('std', atoms) if len(atoms) > 1 else X.num(0)
            else:
                q = _range_expr(atoms)
            return severity_spec(X.cmp('lt', q, X.num(self.f)), X.cmp('lt', q, X.num(self.s)))
        win = [j for j in range(n) if self.t[p] - self.period < self.t[j] <= self.t[p]]
        obs = [j for j in win if self.pat[j] == 'p']
        if len(obs) < max(self.min_required, 1):
            return [], lambda cell: {U}
        atoms = [x('inp', j) for j in obs]
        if self.ct == 'std':
            if len(obs) < 2:
                return [], lambda cell: {U}
            q = X.red('std_sample', atoms)
            loose = False
        else:
            q = _range_expr(atoms)
            loose = len(obs) != len(win)     # a missing value inside the window: max-min may be undefined
        qs, allowed = severity_spec(X.cmp('lt', q, X.num(self.f)), X.cmp('lt', q, X.num(self.s)))
        if loose:
            return qs, lambda cell: allowed(cell) | {U}
        return qs, allowed


class Density(Spec):
    """A10 (depths are concrete numbers in the scenario, densities symbolic)"""

    def __init__(self, case):
        kw = case.kwargs
        self.inp, self.zp = case.pat['inp'], case.pat['zinp']
        self.z = case.meta['z']
        self.s, self.f = fr(kw.get('suspect_threshold')), fr(kw.get('fail_threshold'))
        self.rejects = REJECT if len(self.inp) != len(self.zp) else None      # the statement is silent on mismatched lengths: any rejection

    def present(self, p):
        return self.inp[p] == 'p' and self.zp[p] == 'p'

    def is_missing(self, p):
        return not self.present(p)

    def pos(self, p):
        n = len(self.inp)
        if n == 1:
            return [], (lambda cell: {U}) if self.present(0) else (lambda cell: {U, M})
        if not self.present(p):
            return [], lambda cell: {M}
        if p >= 1 and not self.present(p - 1):
            return [], lambda cell: {M}
        deltas = []
        for a, b in ((p - 1, p), (p, p + 1)):
            if a < 0 or b >= n or not self.present(a) or not self.present(b):
                continue
            dz = Fr(self.z[b]) - Fr(self.z[a])
            sg = (dz > 0) - (dz < 0)
            deltas.append(X.scale(X.sub(x('inp', b), x('inp', a)), sg))
        ff = X.f_or(*[X.cmp('lt', d, X.num(self.f)) for d in deltas]) if self.f is not None else None
        sf = X.f_or(*[X.cmp('lt', d, X.num(self.s)) for d in deltas]) if self.s is not None else None
        return severity_spec(ff, sf)


class Climatology(Spec):
    """A4.  case.meta: t (seconds), feat {(t, period): value}, z (concrete depths or None per point),
    members: list of dict(tspan=(a,b) seconds or period numbers, period, zspan, fspan, vspan)"""

    def __init__(self, case):
        self.pat = case.pat['inp']
        self.zp = case.pat['zinp']
        self.t = case.meta['t']
        self.z = case.meta['z']
        self.feat = case.meta.get('feat', {})
        self.members = case.meta['members']

    def is_missing(self, p):
        return self.pat[p] == 'm'

    def matches(self, m, p):
        if m.get('period') is None:
            tv = Fr(self.t[p])
        else:
            per = {'weekofyear': 'week'}.get(m['period'], m['period'])
            tv = Fr(self.feat[(Fr(self.t[p]), per)])
        a, b = sorted(Fr(v) for v in m['tspan'])
        if not (a <= tv <= b):
            return False
        if m.get('zspan') is not None:
            if self.zp[p] != 'p':
                return False
            z0, z1 = sorted(Fr(v) for v in m['zspan'])
            if not (z0 <= Fr(self.z[p]) <= z1):
                return False
        return True

    def pos(self, p):
        if self.pat[p] == 'm':
            return [], lambda cell: {M}
        last = None
        for m in self.members:
            if self.matches(m, p):
                last = m
        q = x('inp', p)
        bps = []
        for m in self.members:
            bps += [Fr(v) for v in m['vspan']]
            if m.get('fspan') is not None:
                bps += [Fr(v) for v in m['fspan']]
        if last is None:
            return [(q, bps)], lambda cell: {U}
        v0, v1 = sorted(Fr(v) for v in last['vspan'])
        ff = None
        if last.get('fspan') is not None:
            f0, f1 = sorted(Fr(v) for v in last['fspan'])
            ff = X.f_or(X.cmp('lt', q, X.num(f0)), X.cmp('gt', q, X.num(f1)))
        sf = X.f_or(X.cmp('lt', q, X.num(v0)), X.cmp('gt', q, X.num(v1)))
        qs, allowed = severity_spec(ff, sf)
        return [(q, bps)], allowed


def pressure_expected(values):
    """A11 on concrete numbers (None = NaN is outside the property's statement)"""
    n = len(values)
    flags = [G] * n
    if n < 2:
        return flags
    steps = [values[i + 1] - values[i] for i in range(n - 1)]
    mean = sum(steps) / len(steps)
    sg = -1 if mean < 0 else 1
    for i, s in enumerate(steps):
        if sg * s <= 0:
            flags[i + 1] = S
    return flags


def pressure_allowed(values):
    """per position the set of flags the statement admits: when the mean step is exactly 0 the profile has no overall direction and the
    statement does not say which way the tie goes (either direction, or none) - a zero step is SUSPECT in every reading"""
    n = len(values)
    base = pressure_expected(values)
    if n < 2:
        return [{f} for f in base]
    steps = [values[i + 1] - values[i] for i in range(n - 1)]
    if sum(steps) != 0:
        return [{f} for f in base]
    out = [{G}]
    for s in steps:
        out.append({S} if s == 0 else {G, S})
    return out
