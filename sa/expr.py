"""Canonical scalar expressions and boolean formulas used as the abstract element domain.

Everything here is a plain hashable tuple:

numeric expressions
    ('num', Fraction)                       exact constant
    ('x', name, idx)                        symbolic data atom: element `idx` of input `name`
    ('nan',)                                IEEE NaN (propagates through arithmetic, compares false)
    ('any',)                                unknown number (data left under a mask by numpy)
    ('lin', ((gen, coeff), ...), const)     linear combination of non-linear generators, sorted
    ('abs', e) ('sign', e) ('min', (e..)) ('max', (e..)) ('mul', (e..)) ('div', a, b)
    ('red', fname, (e..))                   reduction (median/mean/std/ptp/...) over elements
    ('fn', name, (e..))                     opaque library function (geodesic, ...)

formulas
    ('true',) ('false',) ('unk',)
    ('cmp', op, q, r)                       op in lt le gt ge eq ne;  q non-constant side
    ('not', f) ('and', (f..)) ('or', (f..))

generic
    ('ite', f, a, b)                        value a where f else b (flags and numbers)
"""
from fractions import Fraction as Fr

TRUE = ('true',)
FALSE = ('false',)
UNK = ('unk',)
NAN = ('nan',)
ANY = ('any',)

_FLIP = {'lt': 'gt', 'le': 'ge', 'gt': 'lt', 'ge': 'le', 'eq': 'eq', 'ne': 'ne'}
_NEG = {'lt': 'ge', 'le': 'gt', 'gt': 'le', 'ge': 'lt', 'eq': 'ne', 'ne': 'eq'}


def num(v):
    if isinstance(v, float):
        if v != v:
            return NAN
        if v in (float('inf'), float('-inf')):
            return ('fn', 'inf', (('num', Fr(1 if v > 0 else -1)),))
        v = Fr(v)
    return ('num', Fr(v))


def is_num(e):
    return e[0] == 'num'


def is_formula(e):
    return isinstance(e, tuple) and e and e[0] in ('true', 'false', 'unk', 'cmp', 'not', 'and', 'or')


def _key(e):
    return repr(e)


# ----------------------------------------------------------------------------------------------
# linear forms

def _lin_parts(e):
    """-> (dict gen->coeff, const)"""
    if e[0] == 'num':
        return {}, e[1]
    if e[0] == 'lin':
        return dict(e[1]), e[2]
    return {e: Fr(1)}, Fr(0)


def _mk_lin(d, c):
    d = {g: k for g, k in d.items() if k != 0}
    if not d:
        return ('num', c)
    if len(d) == 1 and c == 0:
        (g, k), = d.items()
        if k == 1:
            return g
    return ('lin', tuple(sorted(d.items(), key=lambda gk: _key(gk[0]))), c)


def _special(*es):
    """NaN / ANY propagation for arithmetic."""
    if any(e == ANY for e in es):
        return ANY
    if any(e == NAN for e in es):
        return NAN
    return None


def _distribute_ite(fn, args):
    """apply fn over ite-valued numeric args by pushing the ite outwards"""
    for i, a in enumerate(args):
        if a[0] == 'ite':
            _, f, x, y = a
            ax = list(args); ax[i] = x
            ay = list(args); ay[i] = y
            return ite(f, fn(*ax), fn(*ay))
    return None


def add(a, b):
    s = _special(a, b)
    if s:
        return s
    r = _distribute_ite(add, (a, b))
    if r is not None:
        return r
    da, ca = _lin_parts(a)
    db, cb = _lin_parts(b)
    for g, k in db.items():
        da[g] = da.get(g, Fr(0)) + k
    return _mk_lin(da, ca + cb)


def scale(a, k):
    k = Fr(k)
    s = _special(a)
    if s:
        return s
    r = _distribute_ite(lambda x: scale(x, k), (a,))
    if r is not None:
        return r
    d, c = _lin_parts(a)
    return _mk_lin({g: v * k for g, v in d.items()}, c * k)


def neg(a):
    return scale(a, -1)


def sub(a, b):
    s = _special(a, b)
    if s:
        return s
    return add(a, neg(b))


def mul(a, b):
    s = _special(a, b)
    if s:
        return s
    r = _distribute_ite(mul, (a, b))
    if r is not None:
        return r
    if is_num(a):
        return scale(b, a[1])
    if is_num(b):
        return scale(a, b[1])
    # pull numeric factors out of single-generator linear forms
    ka, ga = _factor(a)
    kb, gb = _factor(b)
    fs = []
    for g in (ga, gb):
        if g[0] == 'mul':
            fs.extend(g[1])
        else:
            fs.append(g)
    prod = ('mul', tuple(sorted(fs, key=_key)))
    return scale(prod, ka * kb)


def _factor(e):
    """e == k * g with g canonical; only simplifies single-generator, zero-constant forms"""
    if e[0] == 'lin' and len(e[1]) == 1 and e[2] == 0:
        (g, k), = e[1]
        return k, g
    return Fr(1), e


def div(a, b):
    s = _special(a, b)
    if s:
        return s
    r = _distribute_ite(div, (a, b))
    if r is not None:
        return r
    if is_num(b):
        if b[1] == 0:
            return NAN if (is_num(a) and a[1] == 0) else ('fn', 'inf', (a,))
        return scale(a, Fr(1) / b[1])
    ka, ga = _factor(a)
    kb, gb = _factor(b)
    if is_num(ga):
        ka, ga = ka * ga[1], ('num', Fr(1))
    return scale(('div', ga, gb), ka / kb)


def abs_(a):
    s = _special(a)
    if s:
        return s
    r = _distribute_ite(abs_, (a,))
    if r is not None:
        return r
    if is_num(a):
        return ('num', abs(a[1]))
    if a[0] in ('abs',):
        return a
    k, g = _factor(a)
    if g is not a and k != 0:
        return scale(abs_(g), abs(k))
    if a[0] == 'lin':
        # normalise |k*L| = |k|*|L| with the first generator coefficient of L equal to +1
        first = a[1][0][1]
        if first != 1:
            return scale(abs_(scale(a, Fr(1) / first)), abs(first))
    return ('abs', a)


def sign(a):
    s = _special(a)
    if s:
        return s
    r = _distribute_ite(sign, (a,))
    if r is not None:
        return r
    if is_num(a):
        return ('num', Fr((a[1] > 0) - (a[1] < 0)))
    return ('sign', a)


def _minmax(tag, args):
    s = _special(*args)
    if s:
        return s
    flat = []
    for a in args:
        if a[0] == tag:
            flat.extend(a[1])
        else:
            flat.append(a)
    nums = [a[1] for a in flat if is_num(a)]
    rest = sorted({a for a in flat if not is_num(a)}, key=_key)
    if nums:
        v = min(nums) if tag == 'min' else max(nums)
        if not rest:
            return ('num', v)
        rest.append(('num', v))
    if len(rest) == 1:
        return rest[0]
    return (tag, tuple(rest))


def min_(*args):
    return _minmax('min', args)


def max_(*args):
    return _minmax('max', args)


def red(fname, elems):
    """reduction over a collection of element expressions"""
    elems = list(elems)
    if any(e == ANY for e in elems):
        return ANY
    if any(e == NAN for e in elems):
        return NAN
    if fname in ('median', 'mean', 'min', 'max') and elems and all(e == elems[0] for e in elems):
        return elems[0]
    if fname in ('ptp', 'std') and elems and all(e == elems[0] for e in elems):
        return ('num', Fr(0))
    if all(is_num(e) for e in elems) and elems:
        vs = sorted(e[1] for e in elems)
        if fname == 'min':
            return ('num', vs[0])
        if fname == 'max':
            return ('num', vs[-1])
        if fname == 'ptp':
            return ('num', vs[-1] - vs[0])
        if fname == 'mean':
            return ('num', sum(vs) / len(vs))
        if fname == 'median':
            m = len(vs)
            return ('num', vs[m // 2] if m % 2 else (vs[m // 2 - 1] + vs[m // 2]) / 2)
    if fname == 'min':
        return min_(*elems)
    if fname == 'max':
        return max_(*elems)
    if fname == 'ptp':
        return sub(max_(*elems), min_(*elems))
    if fname == 'sum':
        acc = ('num', Fr(0))
        for e in elems:
            acc = add(acc, e)
        return acc
    if fname == 'mean' and elems:
        acc = ('num', Fr(0))
        for e in elems:
            acc = add(acc, e)
        return scale(acc, Fr(1, len(elems)))
    return ('red', fname, tuple(sorted(elems, key=_key)))


def _exact_root(q):
    """exact rational square root, or None"""
    import math
    if q < 0:
        return None
    n, d = math.isqrt(q.numerator), math.isqrt(q.denominator)
    if n * n == q.numerator and d * d == q.denominator:
        return Fr(n, d)
    return None


def fn(name, *args):
    s = _special(*args)
    if s:
        return s
    if all(is_num(a) for a in args):
        # constant folding where the value is exactly representable
        if name == 'sqrt':
            if args[0][1] < 0:
                return NAN
            r = _exact_root(args[0][1])
            if r is not None:
                return ('num', r)
        elif name in ('trunc', 'floor', 'ceil', 'rint') and len(args) == 1:
            import math
            v = args[0][1]
            return ('num', Fr({'trunc': math.trunc, 'floor': math.floor, 'ceil': math.ceil, 'rint': round}[name](v)))
        elif name in ('exp',) and args[0][1] == 0:
            return ('num', Fr(1))
        elif name in ('sin', 'tan', 'arcsin', 'arctan', 'sinh', 'tanh', 'radians', 'deg2rad', 'degrees', 'rad2deg') and args[0][1] == 0:
            return ('num', Fr(0))
        elif name in ('cos', 'cosh') and args[0][1] == 0:
            return ('num', Fr(1))
        elif name in ('log', 'log10') and args[0][1] == 1:
            return ('num', Fr(0))
    return ('fn', name, tuple(args))


# ----------------------------------------------------------------------------------------------
# formulas

def f_not(f):
    if f == TRUE:
        return FALSE
    if f == FALSE:
        return TRUE
    if f == UNK:
        return UNK
    if f[0] == 'not':
        return f[1]
    return ('not', f)


def f_and(*fs):
    out = []
    for f in fs:
        if f == FALSE:
            return FALSE
        if f == TRUE:
            continue
        if f[0] == 'and':
            out.extend(f[1])
        else:
            out.append(f)
    uniq = []
    for f in out:
        if f not in uniq:
            uniq.append(f)
    for f in uniq:
        if f_not(f) in uniq and f != UNK:
            return FALSE
    # absorption: a & (a | b) == a
    uniq = [f for f in uniq if not (f[0] == 'or' and any(g in uniq for g in f[1]))]
    if not uniq:
        return TRUE
    if len(uniq) == 1:
        return uniq[0]
    return ('and', tuple(uniq))


def f_or(*fs):
    out = []
    for f in fs:
        if f == TRUE:
            return TRUE
        if f == FALSE:
            continue
        if f[0] == 'or':
            out.extend(f[1])
        else:
            out.append(f)
    uniq = []
    for f in out:
        if f not in uniq:
            uniq.append(f)
    for f in uniq:
        if f_not(f) in uniq and f != UNK:
            return TRUE
    # absorption: a | (a & b) == a
    uniq = [f for f in uniq if not (f[0] == 'and' and any(g in uniq for g in f[1]))]
    if not uniq:
        return FALSE
    if len(uniq) == 1:
        return uniq[0]
    return ('or', tuple(uniq))


def f_xor(a, b):
    return f_or(f_and(a, f_not(b)), f_and(f_not(a), b))


def f_iff(a, b):
    return f_not(f_xor(a, b))


def _cmp_num(op, x, y):
    return {'lt': x < y, 'le': x <= y, 'gt': x > y, 'ge': x >= y, 'eq': x == y, 'ne': x != y}[op]


def cmp(op, a, b):
    """comparison of two numeric expressions -> formula (IEEE semantics for NaN)"""
    if is_formula(a) or is_formula(b):
        # boolean equality, e.g. `is_suspect == True`
        fa = a if is_formula(a) else (TRUE if _truthy_num(a) else FALSE)
        fb = b if is_formula(b) else (TRUE if _truthy_num(b) else FALSE)
        if op == 'eq':
            return f_iff(fa, fb)
        if op == 'ne':
            return f_xor(fa, fb)
        raise ValueError('ordered comparison of booleans')
    if a == ANY or b == ANY:
        return UNK
    if a == NAN or b == NAN:
        return TRUE if op == 'ne' else FALSE
    for i, e in enumerate((a, b)):
        if e[0] == 'ite':
            _, f, x, y = e
            if i == 0:
                return f_or(f_and(f, cmp(op, x, b)), f_and(f_not(f), cmp(op, y, b)))
            return f_or(f_and(f, cmp(op, a, x)), f_and(f_not(f), cmp(op, a, y)))
    if is_num(a) and is_num(b):
        return TRUE if _cmp_num(op, a[1], b[1]) else FALSE
    # normalise to  q  op  const : move everything linear to the left
    d = sub(a, b)
    if is_num(d):
        return TRUE if _cmp_num(op, d[1], 0) else FALSE
    dd, c = _lin_parts(d)
    if len(dd) == 1:
        (g, k), = dd.items()
        r = -c / k
        if k < 0:
            op = _FLIP[op]
        return ('cmp', op, g, ('num', r))
    # several generators: scale so the first coefficient is +1
    items = sorted(dd.items(), key=lambda gk: _key(gk[0]))
    k0 = items[0][1]
    if k0 < 0:
        op = _FLIP[op]
    q = _mk_lin({g: k / k0 for g, k in items}, Fr(0))
    return ('cmp', op, q, ('num', -c / k0))


def _truthy_num(e):
    if is_num(e):
        return e[1] != 0
    raise ValueError('truthiness of symbolic number')


def ite(f, a, b):
    if f == TRUE:
        return a
    if f == FALSE:
        return b
    if a == b:
        return a
    if is_formula(a) or is_formula(b):
        fa = a if is_formula(a) else (TRUE if _truthy_num(a) else FALSE)
        fb = b if is_formula(b) else (TRUE if _truthy_num(b) else FALSE)
        return f_or(f_and(f, fa), f_and(f_not(f), fb))
    return ('ite', f, a, b)


# ----------------------------------------------------------------------------------------------
# evaluation under a cell

def atoms_of(e, acc=None):
    """all ('cmp', op, q, r) atoms inside a formula / ite tree"""
    if acc is None:
        acc = []
    if not isinstance(e, tuple) or not e:
        return acc
    t = e[0]
    if t == 'cmp':
        if e not in acc:
            acc.append(e)
    elif t in ('not',):
        atoms_of(e[1], acc)
    elif t in ('and', 'or'):
        for f in e[1]:
            atoms_of(f, acc)
    elif t == 'ite':
        atoms_of(e[1], acc)
        atoms_of(e[2], acc)
        atoms_of(e[3], acc)
    return acc


def data_atoms(e, acc=None):
    """all ('x', name, idx) atoms inside any expression"""
    if acc is None:
        acc = set()
    if isinstance(e, tuple):
        if e and e[0] == 'x':
            acc.add(e)
        else:
            for a in e:
                if isinstance(a, tuple):
                    data_atoms(a, acc)
    return acc


def eval_formula(f, q):
    """three-valued evaluation: q maps quantity expr -> Fraction.  Returns True/False/None"""
    t = f[0]
    if t == 'true':
        return True
    if t == 'false':
        return False
    if t == 'unk':
        return None
    if t == 'cmp':
        _, op, g, r = f
        if g not in q:
            return None
        return _cmp_num(op, q[g], r[1])
    if t == 'not':
        v = eval_formula(f[1], q)
        return None if v is None else (not v)
    if t == 'and':
        res = True
        for x in f[1]:
            v = eval_formula(x, q)
            if v is False:
                return False
            if v is None:
                res = None
        return res
    if t == 'or':
        res = False
        for x in f[1]:
            v = eval_formula(x, q)
            if v is True:
                return True
            if v is None:
                res = None
        return res
    raise ValueError(f'not a formula: {f!r}')


def eval_values(e, q):
    """set of possible concrete values of an ite tree under cell q"""
    if isinstance(e, tuple) and e and e[0] == 'ite':
        v = eval_formula(e[1], q)
        if v is True:
            return eval_values(e[2], q)
        if v is False:
            return eval_values(e[3], q)
        return eval_values(e[2], q) | eval_values(e[3], q)
    if is_formula(e):
        v = eval_formula(e, q)
        return {True, False} if v is None else {v}
    return {e}


def eval_num(e, env):
    """exact numeric evaluation of an arithmetic expression; env maps ('x',..) atoms -> Fraction.
    Used only to decide whether two statistic forms are the same function (identity testing)."""
    t = e[0]
    if t == 'num':
        return e[1]
    if t == 'x':
        return env[e]
    if t == 'lin':
        return sum((eval_num(g, env) * k for g, k in e[1]), e[2])
    if t == 'abs':
        return abs(eval_num(e[1], env))
    if t == 'sign':
        v = eval_num(e[1], env)
        return Fr((v > 0) - (v < 0))
    if t == 'min':
        return min(eval_num(a, env) for a in e[1])
    if t == 'max':
        return max(eval_num(a, env) for a in e[1])
    if t == 'mul':
        r = Fr(1)
        for a in e[1]:
            r *= eval_num(a, env)
        return r
    if t == 'div':
        d = eval_num(e[2], env)
        if d == 0:
            raise ZeroDivisionError
        return eval_num(e[1], env) / d
    if t == 'red' and e[1] in ('std', 'std_sample', 'std_pop') and env.get('__identity__'):
        # identity testing only: the variance is a strictly monotone surrogate of the standard deviation
        vs = [eval_num(a, env) for a in e[2]]
        m = sum(vs) / len(vs)
        ss = sum((v - m) ** 2 for v in vs)
        return ss / (len(vs) - (1 if e[1] == 'std_sample' else 0))
    if t == 'red' and e[1] == 'median':
        vs = sorted(eval_num(a, env) for a in e[2])
        k = len(vs)
        return vs[k // 2] if k % 2 else (vs[k // 2 - 1] + vs[k // 2]) / 2
    raise KeyError(t)


def show(e):
    """compact human-readable rendering"""
    if not isinstance(e, tuple) or not e:
        return repr(e)
    t = e[0]
    if t == 'num':
        v = e[1]
        return str(v.numerator) if v.denominator == 1 else f'{v.numerator}/{v.denominator}'
    if t == 'x':
        return f'{e[1]}[{e[2]}]'
    if t in ('nan', 'any', 'true', 'false', 'unk'):
        return t
    if t == 'lin':
        parts = []
        for g, k in e[1]:
            ks = '' if k == 1 else ('-' if k == -1 else show(('num', k)) + '*')
            parts.append(f'{ks}{show(g)}')
        if e[2] != 0:
            parts.append(show(('num', e[2])))
        return '(' + ' + '.join(parts).replace('+ -', '- ') + ')'
    if t == 'abs':
        return f'|{show(e[1])}|'
    if t == 'sign':
        return f'sign({show(e[1])})'
    if t in ('min', 'max', 'mul'):
        sep = ' * ' if t == 'mul' else ', '
        inner = sep.join(show(a) for a in e[1])
        return f'({inner})' if t == 'mul' else f'{t}({inner})'
    if t == 'div':
        return f'({show(e[1])} / {show(e[2])})'
    if t == 'red':
        return f'{e[1]}({", ".join(show(a) for a in e[2])})'
    if t == 'fn':
        return f'{e[1]}({", ".join(show(a) for a in e[2])})'
    if t == 'cmp':
        sym = {'lt': '<', 'le': '<=', 'gt': '>', 'ge': '>=', 'eq': '==', 'ne': '!='}[e[1]]
        return f'{show(e[2])} {sym} {show(e[3])}'
    if t == 'not':
        return f'~({show(e[1])})'
    if t in ('and', 'or'):
        sep = ' & ' if t == 'and' else ' | '
        return '(' + sep.join(show(a) for a in e[1]) + ')'
    if t == 'ite':
        return f'[{show(e[2])} if {show(e[1])} else {show(e[3])}]'
    return repr(e)
