"""Harness for the stream / results / store properties: a small data table, logical configs with windows,
drivers for the five front ends (all through the abstract interpreter) and the expected direct calls."""
import collections
from fractions import Fraction as Fr

from . import expr as X
from .interp import AbsRaise, GenResult, Instance
from .models_io import DatasetStub, DataVar
from .models_pd import TS
from .models_xr import DF
from .qc import MODS
from .repo import AnalysisError
from .vec import El, Sc, Vec

T0, STEP = 1000, 10


class Table:
    """n rows; symbolic data columns, concrete times"""

    def __init__(self, n, streams=('a', 'b'), missing=None, with_axes=('time', 'z', 'lat', 'lon'), index_labels=None, concrete=None, time_order=None,
                 time_offset=0, time_carrier='dt64'):
        self.concrete = concrete or {}       # column -> list of concrete numbers (instead of symbolic atoms)
        self.extra_vars = {}                  # xarray only: variable name -> length, living on its own dimension without a time coordinate
        self.n = n
        self.t = [T0 + STEP * i + time_offset for i in range(n)]      # time_offset: instants that are not on whole seconds
        if time_order is not None:            # rows not in chronological order
            self.t = [T0 + STEP * k + time_offset for k in time_order]
        self.time_carrier = time_carrier      # 'dt64' | 'epoch_float' (numbers of seconds since the epoch, NumpyStream only)
        self.streams = list(streams)
        self.missing = missing or {}          # column -> set of row numbers that are NaN
        self.axes = tuple(with_axes)
        self.index_labels = index_labels      # row labels for the DataFrame front end (default 0..n-1)

    def cells(self, col, rows=None):
        rows = range(self.extra_vars.get(col, self.n)) if rows is None else rows
        out = []
        for i in rows:
            if col == 'time':
                out.append(El(X.NAN if i in self.missing.get('time', ()) else X.num(self.t[i]), False))      # NaN in a datetime column = NaT
            elif i in self.missing.get(col, ()):
                out.append(El(X.NAN, False))
            elif col in self.concrete:
                out.append(El(X.num(self.concrete[col][i]), False))
            elif col == 'z':
                out.append(El(X.num(5 + i), False))
            else:
                out.append(El(('x', col, i), False))
        return out

    def vec(self, col, rows=None, kind='nd'):
        if col == 'time':
            if self.time_carrier == 'epoch_float' and kind == 'nd':
                return Vec.fresh(self.cells(col, rows), kind=kind, dtype='f8', owner=col)
            return Vec.fresh(self.cells(col, rows), kind=kind, dtype='M8', unit='ns', owner=col)
        return Vec.fresh(self.cells(col, rows), kind=kind, dtype='f8', owner=col)

    def rows_in(self, window):
        lo, hi = window
        nat = self.missing.get('time', ())
        if lo is None and hi is None:
            return list(range(self.n))
        # a row without a timestamp satisfies no window predicate
        return [i for i in range(self.n) if i not in nat and (lo is None or self.t[i] >= lo) and (hi is None or self.t[i] < hi)]


# logical test configurations (module, test, kwargs, inputs it needs)
def test_menu():
    clim = [dict(tspan=[TS(0), TS(10 ** 7)], vspan=[Fr(2), Fr(4)], fspan=[Fr(1), Fr(5)], zspan=[Fr(0), Fr(7)])]
    return collections.OrderedDict([
        ('gross', ('qartod', 'gross_range_test', dict(fail_span=[Fr(0), Fr(10)], suspect_span=[Fr(2), Fr(8)]), ('inp',))),
        ('spike', ('qartod', 'spike_test', dict(suspect_threshold=Fr(1), fail_threshold=Fr(2)), ('inp',))),
        ('roc', ('qartod', 'rate_of_change_test', dict(threshold=Fr(1)), ('inp', 'tinp'))),
        ('flat', ('qartod', 'flat_line_test', dict(suspect_threshold=10, fail_threshold=20, tolerance=Fr(1)), ('inp', 'tinp'))),
        ('clim', ('qartod', 'climatology_test', dict(config=clim), ('inp', 'tinp', 'zinp'))),
        ('loc', ('qartod', 'location_test', dict(bbox=[Fr(-10), Fr(-20), Fr(10), Fr(20)], range_max=Fr(5)), ('lon', 'lat'))),
        ('dens', ('qartod', 'density_inversion_test', dict(suspect_threshold=Fr(-1), fail_threshold=Fr(-2)), ('inp', 'zinp'))),
        ('speed', ('argo', 'speed_test', dict(suspect_threshold=Fr(1), fail_threshold=Fr(2)), ('lon', 'lat', 'tinp'))),
        ('valid', ('axds', 'valid_range_test', dict(valid_span=[Fr(1), Fr(5)]), ('inp',))),
        # every configured parameter reaches the test, the switches too (a value on either bound tells)
        ('valid_incl', ('axds', 'valid_range_test', dict(valid_span=[Fr(1), Fr(5)], start_inclusive=False, end_inclusive=True), ('inp',))),
        ('press', ('argo', 'pressure_increasing_test', dict(), ('inp',))),
    ])


AXIS_OF = {'tinp': 'time', 'zinp': 'z', 'lat': 'lat', 'lon': 'lon'}


def make_config_source(contexts):
    """contexts: list of dict(window=(lo, hi), tests={stream: [menu keys]}) -> python mapping for Config"""
    menu = test_menu()
    out = []
    for c in contexts:
        streams = collections.OrderedDict()
        for sid, keys in c['tests'].items():
            mods = streams.setdefault(sid, collections.OrderedDict())
            for k in keys:
                if isinstance(k, tuple):          # raw (module, test, kwargs) entry, e.g. a deliberately faulty one
                    mod, test, kw = k
                    mods.setdefault(mod, collections.OrderedDict())[test] = (dict(kw) if kw is not None else None)
                    continue
                mod, test, kw, _ = menu[k]
                mods.setdefault(mod, collections.OrderedDict())[test] = dict(kw)
        d = collections.OrderedDict(streams=streams)
        lo, hi = c['window']
        if lo is not None or hi is not None:
            d['window'] = {k: TS(v) for k, v in (('starting', lo), ('ending', hi)) if v is not None}
        out.append(d)
    return {'contexts': out}


def expected_direct(runner, table, contexts):
    """-> dict (ctx index, stream, module, test) -> (rows, Outcome of the direct call)"""
    menu = test_menu()
    out = collections.OrderedDict()
    for ci, c in enumerate(contexts):
        rows = table.rows_in(c['window'])
        for sid, keys in c['tests'].items():
            if sid not in table.streams and sid not in table.extra_vars and not (sid in table.axes and sid != 'time' and getattr(table, 'axis_streams', False)):
                continue
            detached = sid in table.extra_vars
            if detached:
                rows = list(range(table.extra_vars[sid]))
            else:
                rows = table.rows_in(c['window'])
            for k in keys:
                if isinstance(k, tuple):
                    continue
                mod, test, kw, needs = menu[k]
                kwargs = dict(kw)
                ok = True
                for nm in needs:
                    if detached and nm != 'inp':
                        ok = False          # a variable on its own dimension has no time / depth / position associated
                        break
                    if nm == 'inp':
                        kwargs['inp'] = table.vec(sid, rows)
                    else:
                        ax = AXIS_OF[nm]
                        if ax not in table.axes:
                            ok = False
                            break
                        kwargs[nm] = table.vec(ax, rows)
                if not ok:
                    out[(ci, sid, mod, test)] = (rows, None)      # a required input is not supplied: the test drops out
                    continue
                fn = runner.function(MODS[test], test)
                out[(ci, sid, mod, test)] = (rows, runner.run(fn, [], kwargs))
    return out


class StreamRun:
    def __init__(self):
        self.results = []       # (stream_id, package, test, subset mask tuple, flags Vec, ContextResult instance)
        self.context_results = []
        self.error = None
        self.events = []


def collect_stream(runner, gen_value):
    run = StreamRun()
    if hasattr(gen_value, 'drain'):
        gen_value.drain()              # the consumer of run() asks for every result
    if isinstance(gen_value, GenResult) and getattr(gen_value, 'pending', None) is not None:
        raise gen_value.pending         # the consumer of run() meets the exception
    items = gen_value.items if isinstance(gen_value, GenResult) else list(gen_value)
    for cr in items:
        run.context_results.append(cr)
        si = cr.attrs['subset_indexes']
        mask = tuple(X.show(e.d) for e in si.els()) if isinstance(si, Vec) else None
        for res in cr.attrs['results']:
            run.results.append((cr.attrs['stream_id'], res.attrs['package'], res.attrs['test'], mask, res.attrs['results'], cr))
    return run


def run_frontend(runner, frontend, table, config_source, single_stream=None):
    """-> StreamRun (error set when the front end raises)"""
    it = runner.interp
    it.events = []
    it.live = X.TRUE
    it.steps = 0
    it.depth = 0
    it.call_stack = []
    it.time_features = None
    it.owned = {}
    streams_mod = it.module('ioos_qc.streams')
    config_mod = it.module('ioos_qc.config')
    run = StreamRun()
    try:
        if frontend == 'qcconfig':
            QcConfig = config_mod.globals['QcConfig']
            # single-stream form: a bare module mapping bound to the default stream key
            cfg = it.instantiate(QcConfig, [config_source], {}, None)
            kw = dict(inp=table.vec(single_stream))
            for k, ax in (('tinp', 'time'), ('zinp', 'z'), ('lat', 'lat'), ('lon', 'lon')):
                if ax in table.axes:
                    kw[k] = table.vec(ax)
            res = it.call(it.getattr(cfg, 'run', None), [], kw, None)
            run.dict_result = res
            run.events = list(it.events)
            return run
        Config = config_mod.globals['Config']
        cfg = it.instantiate(Config, [config_source], {}, None)
        axes = {k: table.vec(ax) for k, ax in (('time', 'time'), ('z', 'z'), ('lat', 'lat'), ('lon', 'lon')) if ax in table.axes}
        if frontend == 'numpy':
            inp = {s: table.vec(s) for s in table.streams} if single_stream is None else table.vec(single_stream)
            stream = it.instantiate(streams_mod.globals['NumpyStream'], [], dict(inp=inp, **axes), None)
        elif frontend == 'pandas':
            cols = collections.OrderedDict()
            if 'time' in table.axes:
                cols['time'] = table.vec('time', kind='series')
            for ax in ('z', 'lat', 'lon'):
                if ax in table.axes:
                    cols[ax] = table.vec(ax, kind='series')
            for s in table.streams:
                cols[s] = table.vec(s, kind='series')
            index = None
            if table.index_labels is not None:
                index = Vec.fresh([El(X.num(v), False) for v in table.index_labels], kind='index', dtype='i8')
            stream = it.instantiate(streams_mod.globals['PandasStream'], [DF(cols, index)], {}, None)
        elif frontend in ('netcdf', 'xarray'):
            variables = collections.OrderedDict()
            tvar = None
            if 'time' in table.axes:
                tvar = DataVar('time', {}, table.vec('time'), ('time',))
                tvar.is_coord = True
                variables['time'] = tvar
            for nm in list(table.streams) + [a for a in ('z', 'lat', 'lon') if a in table.axes]:
                v = DataVar(nm, {}, table.vec(nm), ('time',))
                if tvar is not None:
                    v.coords = {'time': tvar}
                variables[nm] = v
            if tvar is not None:
                tvar.coords = {'time': tvar}
            for nm, ln in table.extra_vars.items():
                variables[nm] = DataVar(nm, {}, table.vec(nm), ('obs',))
            ds = DatasetStub(variables, {}, ('time',))
            cls = 'NetcdfStream' if frontend == 'netcdf' else 'XarrayStream'
            stream = it.instantiate(streams_mod.globals[cls], [ds], {}, None)
        else:
            raise ValueError(frontend)
        gen = it.call(it.getattr(stream, 'run', None), [cfg], {}, None)
        run = collect_stream(runner, gen)
        run.stream = stream
    except AbsRaise as r:
        run.error = r
    run.events = list(it.events)
    return run
