"""Stubs for the table-like containers the stream front ends and stores consume.

DataFrame (pandas): ordered columns of equal length + a row index of labels.  Modelled operations are exactly the
ones ioos_qc uses: membership of a column, df[col], df.loc[:, cols], df.loc[boolean_series, :], df.index, column
assignment, Series.iloc[...] = v (positional!), Series.loc[...] = v (by label).
xarray Dataset / DataArray: 1-D variables over one dimension with a coordinate of the same name;
.sel(dim=slice(a, b)) is the *closed* label interval [a, b] (library fact, row 8).
"""
import collections

from . import expr as X
from .interp import AbsRaise, ExcVal, ExtRef, ModelMethod, mkbool
from .models import PyCallable, as_operand, bool_of_el
from .repo import AnalysisError
from .vec import NONE_EL, El, Sc, Vec, m_conc


def missing_attr(lib, cls, name, node):
    """an attribute the stub does not implement: an AttributeError only if the real class lacks it too - otherwise the stub is what is
    missing something, and that is an analysis error, never a finding about the analysed code"""
    try:
        real = getattr(__import__(lib), cls)
        has = hasattr(real, name)
    except Exception:
        has = True
    if has:
        raise AnalysisError(f'{cls}.{name} is not modelled by the {cls} stub', node)
    raise AbsRaise(ExcVal('AttributeError', (f"'{cls}' object has no attribute '{name}'",)), node)


class DF:
    abs_kind = 'DataFrame'

    def __init__(self, columns=None, index=None):
        self.columns = collections.OrderedDict(columns or {})     # name -> Vec (kind series)
        n = len(next(iter(self.columns.values()))) if self.columns else 0
        self.index = index if index is not None else Vec.fresh([El(X.num(i), False) for i in range(n)], kind='index', dtype='i8')

    def nrows(self):
        return len(self.index)

    def abs_contains(self, item):
        try:
            return item in self.columns
        except TypeError:
            return False

    def series(self, name):
        v = self.columns[name]
        out = v.view(list(v.idx), kind='series')
        out.index = self.index
        return out

    def abs_getitem(self, interp, key, node):
        if isinstance(key, (str, int)) and not isinstance(key, bool):
            if key not in self.columns:
                raise AbsRaise(ExcVal('KeyError', (key,)), node)
            return self.series(key)
        if isinstance(key, list):
            return self.select_cols(key, node)
        if isinstance(key, Vec) and key.dtype == 'b1':
            return self.select_rows(interp, key, node)
        raise AnalysisError('DataFrame[...] form not modelled', node)

    def abs_setitem(self, interp, key, v, node):
        if not isinstance(key, (str, int)) or isinstance(key, bool):
            raise AnalysisError('DataFrame column assignment with a key that is neither a string nor an integer', node)
        from .models_lib import as_series_values
        col = as_series_values(interp, v, self.nrows() if self.columns else None, node)
        if not self.columns:
            self.index = Vec.fresh([El(X.num(i), False) for i in range(len(col))], kind='index', dtype='i8')
        elif len(col) != self.nrows():
            raise AbsRaise(ExcVal('ValueError', (f'Length of values ({len(col)}) does not match length of index ({self.nrows()})',)), node)
        self.columns[key] = col

    def select_cols(self, cols, node):
        for c in cols:
            if c not in self.columns:
                raise AbsRaise(ExcVal('KeyError', (c,)), node)
        if len(set(cols)) != len(cols):
            # pandas keeps a label selected twice as two columns (and `frame[label]` is then a DataFrame, not a Series): outside this stub
            raise AnalysisError('selection of the same column label more than once (duplicate column labels) not modelled', node)
        return DF(collections.OrderedDict((c, self.columns[c]) for c in cols), self.index)

    def select_rows(self, interp, mask, node):
        if len(mask) != self.nrows():
            raise AbsRaise(ExcVal('IndexError', ('Boolean index has wrong length',)), node)
        pos = []
        for i, e in enumerate(mask.els()):
            f = bool_of_el(e.d)
            if f == X.TRUE:
                pos.append(i)
            elif f != X.FALSE:
                raise AnalysisError('row selection with an undecided mask', node)
        cols = collections.OrderedDict((c, v.like([v.el(p) for p in pos])) for c, v in self.columns.items())
        return DF(cols, self.index.like([self.index.el(p) for p in pos]))

    def abs_getattr(self, interp, name, node):
        if name == 'loc':
            return Loc(self)
        if name == 'iloc':
            return ILoc(self)
        if name == 'index':
            return self.index
        if name == 'columns':
            return list(self.columns)
        if name == 'shape':
            return (self.nrows(), len(self.columns))
        if name == 'empty':
            return self.nrows() == 0 or not self.columns
        if name in ('sort_values', 'sort_index'):
            def sort(it, a, k, n, _name=name):
                """rows reordered (stable) by a column / the index with concrete values; NaN / NaT last; the row labels travel with the rows"""
                if k.get('inplace') or k.get('key') is not None or k.get('axis', 0) not in (0, 'index'):
                    raise AnalysisError(f'DataFrame.{_name} with inplace / key / axis=1 not modelled', n)
                if _name == 'sort_values':
                    by = a[0] if a else k.get('by')
                    if isinstance(by, list):
                        if len(by) != 1:
                            raise AnalysisError('sort_values by several columns not modelled', n)
                        by = by[0]
                    if by not in self.columns:
                        raise AbsRaise(ExcVal('KeyError', (by,)), n)
                    keys = [e.d for e in self.columns[by].els()]
                else:
                    keys = [e.d for e in self.index.els()]
                if not all(X.is_num(d) or d == X.NAN for d in keys):
                    raise AnalysisError(f'DataFrame.{_name} on symbolic values', n)
                asc = k.get('ascending', True)
                good = [i for i, d in enumerate(keys) if d != X.NAN]
                bad = [i for i, d in enumerate(keys) if d == X.NAN]
                good.sort(key=lambda i: keys[i][1], reverse=not asc)
                pos = (bad + good) if k.get('na_position') == 'first' else (good + bad)
                cols = collections.OrderedDict((c, v.like([v.el(p) for p in pos])) for c, v in self.columns.items())
                idx = self.index.like([self.index.el(p) for p in pos])
                if k.get('ignore_index'):
                    idx = Vec.fresh([El(X.num(i), False) for i in range(len(pos))], kind='index', dtype='i8')
                return DF(cols, idx)
            return PyCallable(sort, name)
        if name == 'dropna':
            def dropna(it, a, k, n):
                """rows with a missing value (NaN / NaT) in any column (or in the columns of subset=) are dropped; the labels travel with the rows"""
                if a or set(k) - {'subset', 'how', 'axis'} or k.get('axis', 0) not in (0, 'index') or k.get('how', 'any') not in ('any', 'all'):
                    raise AnalysisError('DataFrame.dropna form not modelled', n)
                sub = k.get('subset')
                cols = list(self.columns) if sub is None else ([sub] if isinstance(sub, (str, int)) else list(sub))
                for c in cols:
                    if c not in self.columns:
                        raise AbsRaise(ExcVal('KeyError', ([c],)), n)
                pos = []
                for i in range(self.nrows()):
                    miss = [self.columns[c].el(i).d in (X.NAN, NONE_EL) for c in cols]
                    drop = any(miss) if k.get('how', 'any') == 'any' else (all(miss) and bool(miss))
                    if not drop:
                        pos.append(i)
                newcols = collections.OrderedDict((c, v.like([v.el(p) for p in pos])) for c, v in self.columns.items())
                return DF(newcols, self.index.like([self.index.el(p) for p in pos]))
            return PyCallable(dropna, name)
        if name in ('reset_index', 'reindex', 'sample', 'drop_duplicates'):
            return PyCallable(lambda it, a, k, n: (_ for _ in ()).throw(AnalysisError(f'DataFrame.{name} (row reordering / reindexing) not modelled', n)), name)
        if name in self.columns and name.isidentifier():
            return self.series(name)
        if name == 'copy':
            return PyCallable(lambda it, a, k, n: DF(collections.OrderedDict((c, v.copy()) for c, v in self.columns.items()), self.index.copy()), 'copy')
        missing_attr('pandas', 'DataFrame', name, node)

    def abs_truth(self):
        raise AnalysisError('truth value of a DataFrame is ambiguous')

    def abs_len(self):
        return self.nrows()


class Loc:
    def __init__(self, df):
        self.df = df

    def abs_getitem(self, interp, key, node):
        if isinstance(key, Vec) or (isinstance(key, slice) and key == slice(None)):
            key = (key, slice(None))          # df.loc[rows] selects rows and keeps every column
        if not (isinstance(key, tuple) and len(key) == 2):
            raise AnalysisError('.loc form not modelled', node)
        rows, cols = key
        df = self.df
        if isinstance(rows, Vec) and rows.dtype == 'b1':
            df = df.select_rows(interp, rows, node)
        elif isinstance(rows, Vec):
            # a list of labels: every row carrying the label, in the order of the requested labels (duplicates included)
            labels = [e.d for e in df.index.els()]
            pos = []
            for e in rows.els():
                hits = [i for i, lab in enumerate(labels) if lab == e.d]
                if not hits:
                    raise AbsRaise(ExcVal('KeyError', (X.show(e.d),)), node)
                pos.extend(hits)
            newcols = collections.OrderedDict((c, v.like([v.el(p) for p in pos])) for c, v in df.columns.items())
            df = DF(newcols, df.index.like([df.index.el(p) for p in pos]))
        elif not (isinstance(rows, slice) and rows == slice(None)):
            raise AnalysisError('.loc row selector not modelled', node)
        if isinstance(cols, slice) and cols == slice(None):
            return df
        if isinstance(cols, (str, int)) and not isinstance(cols, bool):
            if cols not in df.columns:
                raise AbsRaise(ExcVal('KeyError', (cols,)), node)
            return df.series(cols)
        if isinstance(cols, list):
            return df.select_cols(cols, node)
        raise AnalysisError('.loc column selector not modelled', node)


class ILoc:
    def __init__(self, df):
        self.df = df

    def abs_getitem(self, interp, key, node):
        raise AnalysisError('DataFrame.iloc[...] not modelled', node)


class SeriesILoc:
    """Series.iloc: purely positional"""
    def __init__(self, s):
        self.s = s

    def positions(self, interp, key, node):
        n = len(self.s)
        if isinstance(key, Vec):
            if key.dtype == 'b1':
                raise AnalysisError('boolean iloc', node)
            pos = []
            for e in key.els():
                if not X.is_num(e.d) or e.d[1].denominator != 1:
                    raise AbsRaise(ExcVal('IndexError', ('positional indexers must be integers',)), node)
                p = int(e.d[1])
                if p < -n or p >= n:
                    raise AbsRaise(ExcVal('IndexError', ('positional indexers are out-of-bounds',)), node)
                pos.append(p % n if n else p)
            return pos
        if isinstance(key, slice):
            return list(range(n))[key]
        raise AnalysisError('iloc key form not modelled', node)

    def abs_setitem(self, interp, key, v, node):
        pos = self.positions(interp, key, node)
        o = as_operand(v)
        d = bool_of_el(o[1]) if self.s.dtype == 'b1' else o[1]
        for p in pos:
            self.s.set(p, El(d, False))

    def abs_getitem(self, interp, key, node):
        pos = self.positions(interp, key, node)
        return self.s.like([self.s.el(p) for p in pos])


class SeriesLoc:
    """Series.loc: by label"""
    def __init__(self, s):
        self.s = s

    def positions(self, interp, key, node):
        labels = [e.d for e in self.s.index.els()] if self.s.index is not None else [X.num(i) for i in range(len(self.s))]
        if isinstance(key, Vec) and key.dtype != 'b1':
            pos = []
            for e in key.els():
                hits = [i for i, lab in enumerate(labels) if lab == e.d]      # every row carrying the label
                if not hits:
                    raise AbsRaise(ExcVal('KeyError', (X.show(e.d),)), node)
                pos.extend(hits)
            return pos
        if isinstance(key, Vec):
            return [i for i, e in enumerate(key.els()) if bool_of_el(e.d) == X.TRUE]
        raise AnalysisError('Series.loc key form not modelled', node)

    def abs_setitem(self, interp, key, v, node):
        o = as_operand(v)
        d = bool_of_el(o[1]) if self.s.dtype == 'b1' else o[1]
        for p in self.positions(interp, key, node):
            self.s.set(p, El(d, False))

    def abs_getitem(self, interp, key, node):
        pos = self.positions(interp, key, node)
        return self.s.like([self.s.el(p) for p in pos])


# ------------------------------------------------------------------------------------------------
# xarray

def var_getattr(var, interp, name, node):
    """DataVar (models_io) attributes used by the streams"""
    if name in ('to_numpy', 'values', 'data'):
        def f(it, a, k, n):
            v = var.values
            if v is None:
                raise AnalysisError(f'variable {var.name} has no values in this scenario', n)
            return Vec.fresh([El(e.d, False) for e in v.els()], kind='nd', dtype=v.dtype, unit=v.unit)
        return PyCallable(f, 'to_numpy') if name == 'to_numpy' else f(interp, [], {}, node)
    if name == 'size':
        return len(var.values) if var.values is not None else 0
    if name == 'shape':
        return (len(var.values),) if var.values is not None else ()
    if name == 'ndim':
        return len(var.dims)
    if name == 'coords':
        return Coords(var)
    if name == 'sel':
        return PyCallable(lambda it, a, k, n: var_sel(var, it, k, n), 'sel')
    if name == 'isel':
        raise AnalysisError('DataArray.isel not modelled', node)
    missing_attr('xarray', 'DataArray', name, node)


class Coords:
    def __init__(self, var):
        self.var = var

    def abs_contains(self, item):
        return item in self.var.coords

    def abs_getitem(self, interp, key, node):
        if key not in self.var.coords:
            raise AbsRaise(ExcVal('KeyError', (key,)), node)
        return self.var.coords[key]


def label_positions(var, indexers, node):
    """positions selected by {dim: slice(a, b)} — closed on both ends (xarray label slicing)"""
    n = len(var.values)
    keep = list(range(n))
    for dim, sl in indexers.items():
        if dim not in var.dims:
            raise AbsRaise(ExcVal('KeyError', (f'{dim} is not a valid dimension or coordinate',)), node)
        coord = var.coords.get(dim)
        if coord is None or coord.values is None:
            raise AbsRaise(ExcVal('KeyError', (f'no index found for coordinate {dim}',)), node)
        if not isinstance(sl, slice):
            raise AnalysisError('.sel with a non-slice indexer not modelled', node)
        for b in (sl.start, sl.stop):
            ob = as_operand(b) if b is not None else None
            if b is not None and (ob is None or not X.is_num(ob[1])):
                raise AnalysisError('.sel with a slice bound that is not a concrete label (NaT / symbolic) not modelled', node)
        lo = as_operand(sl.start)[1][1] if sl.start is not None else None
        hi = as_operand(sl.stop)[1][1] if sl.stop is not None else None
        labs = [None if e.d == X.NAN else e.d[1] for e in coord.values.els()]
        monotonic = None not in labs and all(a <= b for a, b in zip(labs, labs[1:]))
        if monotonic:
            keep = [i for i in keep if (lo is None or labs[i] >= lo) and (hi is None or labs[i] <= hi)]
            continue
        # library fact (pandas Index.slice_indexer): on an index that is not monotonic (rows out of order, a NaT among the stamps) a label
        # slice is positional between the rows that carry exactly the bound labels; a bound that is not a label raises KeyError
        def bound(v, side):
            hits = [i for i, x in enumerate(labs) if x == v]
            if not hits:
                raise AbsRaise(ExcVal('KeyError', (f'Cannot get {side} slice bound for non-monotonic index with a missing label',)), node)
            if len(hits) > 1 and hits != list(range(hits[0], hits[-1] + 1)):
                raise AbsRaise(ExcVal('KeyError', (f'Cannot get {side} slice bound for non-unique label',)), node)
            return hits[0] if side == 'left' else hits[-1]
        a = 0 if lo is None else bound(lo, 'left')
        b = n - 1 if hi is None else bound(hi, 'right')
        keep = [i for i in keep if a <= i <= b]
    return keep


def var_sel(var, interp, indexers, node):
    from .models_io import DataVar
    keep = label_positions(var, indexers, node) if indexers else list(range(len(var.values)))
    sub = DataVar(var.name, var.attrs, var.values.like([var.values.el(i) for i in keep]), var.dims)
    sub.coords = {}
    for cn, cv in var.coords.items():
        c2 = DataVar(cv.name, cv.attrs, cv.values.like([cv.values.el(i) for i in keep]), cv.dims)
        c2.coords = {}
        c2.is_coord = True
        sub.coords[cn] = c2
    sub.selected = keep
    return sub


def ds_getattr(ds, interp, name, node):
    missing_attr('xarray', 'Dataset', name, node)


class DimIndexers:
    def __init__(self, d):
        self.dim_indexers = d

    def abs_getattr(self, interp, name, node):
        if name == 'dim_indexers':
            return self.dim_indexers
        raise AnalysisError(f'IndexSelResult.{name} not modelled', node)


def register(M):
    E = M.ext_call

    def map_index_queries(interp, args, kw, node):
        """label indexers -> positional indexers (slice objects), closed intervals"""
        var, indexers = args[0], args[1]
        out = {}
        for dim, sl in indexers.items():
            keep = label_positions(var, {dim: sl}, node)
            if keep and keep != list(range(keep[0], keep[-1] + 1)):
                raise AnalysisError('non-contiguous label selection', node)
            out[dim] = slice(keep[0], keep[-1] + 1) if keep else slice(0, 0)
        return DimIndexers(out)
    E['xarray.core.indexing.map_index_queries'] = map_index_queries

    def dataframe(interp, args, kw, node):
        if args or kw:
            data = args[0] if args else kw.get('data')
            if isinstance(data, dict):
                from .models_lib import as_series_values
                cols = collections.OrderedDict()
                n = None
                for k, v in data.items():
                    cols[k] = as_series_values(interp, v, n, node)
                    n = len(cols[k])
                return DF(cols)
            raise AnalysisError('pd.DataFrame(data) form not modelled', node)
        return DF()
    E['pandas.DataFrame'] = dataframe
