"""Core array semantics: element-wise operators, indexing, stores, attribute access.

Library facts encoded here (DESIGN §3): rows 2-6, 12.
  * Python operators with a masked-array operand go through numpy.ma binary operations: result mask is
    the union; the *data* left under a masked cell is the left operand's data (not f(data)).
  * numpy ufuncs called directly (np.abs, np.sign, np.minimum, np.diff ...) compute f(data) everywhere
    and take the union of masks.
  * ordered comparisons compare the underlying data (NaN compares false); == / != on cells masked in
    exactly one operand are forced False / True; ~ & | act on the data.
  * A[M] = c writes where M's *data* is true; it never changes A's mask unless the value is masked.
  * pandas Series (op) MaskedArray: the masked array is replaced by its filled() form (bool fill_value
    is True), the result is a Series.
"""
import collections
import math
from fractions import Fraction as Fr

from . import expr as X
from .interp import (AbsRaise, BoundMethod, ClassVal, ExcType, ExcVal, ExtRef, FB, FuncVal,
                     GenResult, Instance, ModelMethod, ModuleNS, mkbool)
from .models import (ARITH, CMP, DType, PyCallable, UNIT_SECONDS, _where, as_operand, bool_of_el,
                     el_num, num_of_el, interp_owner)
from .models_py import DefaultDict, LOGGER, Logger, ParamVal, PartialVal, PathVal, SigVal, StringIOVal
from .repo import AnalysisError
from .vec import (MASKED, NONE_EL, OOB, Backing, El, Masked, Sc, Vec, Vec2, m_and, m_conc, m_formula, m_ite, m_or,
                  norm_index)


def register(M):
    from . import models_lib
    models_lib.register(M)


# ------------------------------------------------------------------------------------------------
# result kind / dtype

def result_kind(a, b):
    kinds = [v.kind for v in (a, b) if isinstance(v, Vec)]
    if 'series' in kinds:
        return 'series'
    if 'ma' in kinds:
        return 'ma'
    if 'dtindex' in kinds or 'index' in kinds:
        return 'nd'      # comparisons / arithmetic of an Index give ndarray (or Index); see callers
    return 'nd'


def check_oob(interp, els, node):
    for e in els:
        if e.d == OOB:
            interp.event('oob-read', node=node)
            raise AbsRaise(ExcVal('OutOfBoundsRead', ('numpy would silently read memory outside the array buffer here (as_strided view larger than the data)',)), node)


def filled_for_series(v):
    """MaskedArray operand of a pandas op -> plain data via filled()"""
    if isinstance(v, Vec) and v.kind == 'ma':
        fill = getattr(v, '_fill', None)
        out = []
        for e in v.els():
            if m_conc(e.m, None, 'pandas operation on a masked array'):
                if v.dtype == 'b1':
                    d = X.TRUE if fill is None else (X.TRUE if fill else X.FALSE)
                else:
                    d = X.num(fill) if fill is not None else X.num(10**20)
                out.append(El(d, False))
            else:
                out.append(e)
        return Vec.fresh(out, kind='nd', dtype=v.dtype)
    return v


def broadcast(interp, a, b, node):
    """-> (list of (ela, elb), template Vec)"""
    oa, ob = as_operand(a), as_operand(b)
    if (oa is None and a is None) or (ob is None and b is None):
        raise AbsRaise(ExcVal('TypeError', ("unsupported operand type(s): 'NoneType'",)), node)
    if oa is None or ob is None:
        raise AnalysisError(f'unsupported operand types {type(a).__name__}, {type(b).__name__}', node,
                            where=_where(interp, node))
    if oa[0] == 'vec' and ob[0] == 'vec':
        va, vb = oa[1], ob[1]
        if (va.sel_mask is None) != (vb.sel_mask is None) or (va.sel_mask is not None and va.sel_mask != vb.sel_mask):
            raise AnalysisError('element-wise operation between a data-dependent selection and an array of another shape', node)
        if va.sel_mask is not None:
            return list(zip(va.els(), vb.els())), va
        if len(va) != len(vb):
            if len(va) == 1:
                ea = va.els() * len(vb)
                return list(zip(ea, vb.els())), vb
            if len(vb) == 1:
                eb = vb.els() * len(va)
                return list(zip(va.els(), eb)), va
            raise AbsRaise(ExcVal('ValueError', (f'operands could not be broadcast together with shapes ({len(va)},) ({len(vb)},)',)), node)
        return list(zip(va.els(), vb.els())), va
    if oa[0] == 'vec':
        eb = El(ob[1], ob[2])
        return [(e, eb) for e in oa[1].els()], oa[1]
    if ob[0] == 'vec':
        ea = El(oa[1], oa[2])
        return [(ea, e) for e in ob[1].els()], ob[1]
    return [(El(oa[1], oa[2]), El(ob[1], ob[2]))], None


def none_check(interp, e, node):
    if e.d == NONE_EL:
        raise AbsRaise(ExcVal('TypeError', ("unsupported operand type(s): 'NoneType'",)), node)


def m_norm_f(f):
    from .vec import m_norm
    return m_norm(f)


def arith_el(op, ea, eb, ma_style):
    """ma_style: numpy.ma operator semantics (data under mask = left operand's data)"""
    f = ARITH[op]
    m = m_or(ea.m, eb.m)
    if op == 'Div' and ma_style:
        # numpy.ma division is "domained": the result is masked where the divisor is zero
        db = num_of_el(eb.d)
        if X.is_num(db):
            if db[1] == 0:
                m = True
        elif db not in (X.NAN, X.ANY):
            m = m_or(m, m_norm_f(X.cmp('eq', db, X.num(0))))
    if m is True and ma_style:
        return El(num_of_el(ea.d), True)
    val = f(num_of_el(ea.d), num_of_el(eb.d))
    if m is not False and ma_style:
        val = X.ite(m_formula(m), num_of_el(ea.d), val)
    return El(val, m)


def binop_model(M, interp, op, a, b, node):
    from . import models_pp
    if isinstance(a, models_pp.Element) or isinstance(b, models_pp.Element):
        return models_pp.binop(op, a, b, node)
    # plain python values
    if not isinstance(a, (Vec, Sc, Masked, FB, Vec2, IndexSet)) and not isinstance(b, (Vec, Sc, Masked, FB, Vec2, IndexSet)):
        return py_binop(M, interp, op, a, b, node)
    if isinstance(a, Vec2) or isinstance(b, Vec2):
        raise AnalysisError('2-D arithmetic not modelled', node)
    if isinstance(a, IndexSet) and op in ('Add', 'Sub') and isinstance(b, int):
        return a.shifted(b if op == 'Add' else -b)
    if op in ('BitAnd', 'BitOr', 'BitXor'):
        return logic_model(M, interp, op, a, b, node)
    if op in ('FloorDiv', 'Mod') and (isinstance(a, Vec) or isinstance(b, Vec)):
        pairs, tmpl = broadcast(interp, a, b, node)
        out = []
        for ea, eb in pairs:
            x, y = num_of_el(ea.d), num_of_el(eb.d)
            if X.is_num(x) and X.is_num(y) and y[1] != 0:
                q = Fr(math.floor(x[1] / y[1]))
                out.append(El(X.num(q if op == 'FloorDiv' else x[1] - y[1] * q), m_or(ea.m, eb.m)))
            elif x in (X.NAN, X.ANY) or y in (X.NAN, X.ANY):
                out.append(El(X.ANY if X.ANY in (x, y) else X.NAN, m_or(ea.m, eb.m)))
            else:
                out.append(El(X.fn('floordiv' if op == 'FloorDiv' else 'mod', x, y), m_or(ea.m, eb.m)))
        return Vec.fresh(out, kind=('nd' if tmpl.kind in ('dtindex',) else tmpl.kind), dtype=tmpl.dtype, index=tmpl.index if tmpl.kind == 'series' else None)
    if op == 'Pow' and isinstance(a, Vec) and not isinstance(b, Vec):
        k = M.conc_num(b, node, 'exponent')
        if k.denominator != 1 or k < 0 or k > 8:
            out = [El(X.fn('pow', num_of_el(e.d), X.num(k)), e.m) for e in a.els()]
        else:
            out = []
            for e in a.els():
                acc = X.num(1)
                for _ in range(int(k)):
                    acc = X.mul(acc, num_of_el(e.d))
                out.append(El(acc, e.m))
        return a.like(out, dtype='f8')
    if op in ('FloorDiv', 'Mod', 'Pow'):
        if all(isinstance(x, (int, Fr, Sc)) for x in (a, b)):
            x, y = M.conc_num(a, node), M.conc_num(b, node)
            if op == 'Pow':
                return x ** int(y) if y == int(y) else Fr(float(x) ** float(y))
            if y == 0:
                raise AbsRaise(ExcVal('ZeroDivisionError'), node)
            return Fr(math.floor(x / y)) if op == 'FloorDiv' else x - y * math.floor(x / y)
        raise AnalysisError(f'operator {op} on arrays not modelled', node)
    if op not in ARITH:
        raise AnalysisError(f'operator {op} not modelled', node)
    note_int_arith(interp, (a, b), node)
    # datetime arithmetic keeps units
    kind = result_kind(a, b)
    if kind == 'series':
        a, b = filled_for_series(a), filled_for_series(b)
    pairs, tmpl = broadcast(interp, a, b, node)
    ma_style = kind == 'ma'
    out = []
    for ea, eb in pairs:
        none_check(interp, ea, node)
        none_check(interp, eb, node)
        out.append(arith_el(op, ea, eb, ma_style))
    check_oob(interp, [e for p in pairs for e in p], node)
    dt, unit = arith_dtype(op, a, b, node)
    if tmpl is None:
        e = out[0]
        if m_conc(e.m, node, 'scalar result'):
            return MASKED
        return Sc(e.d, dt, unit)
    return with_sel(Vec.fresh(out, kind=('nd' if kind in ('nd',) else kind), dtype=dt, unit=unit,
                              index=getattr(tmpl, 'index', None) if kind == 'series' else None), a, b)


def note_int_arith(interp, operands, node):
    """arithmetic carried out in an integer dtype on *data* (wrap-around / truncation depend on the carrier's dtype)"""
    for v in operands:
        if isinstance(v, Vec) and v.dtype in ('i8', 'u1') and any(X.data_atoms(e.d) for e in v.els()):
            interp.event('int-arith', node=node)
            return
    for v in operands:
        if isinstance(v, Vec) and getattr(v, 'narrow', False) and any(X.data_atoms(e.d) for e in v.els()):
            # float32 / float16 data used without promotion to float64: sums, differences and the comparison with a (rounded) bound are
            # carried out in the narrow width
            interp.event('narrow-float-arith', node=node)
            return


def dtype_of(v):
    if isinstance(v, (Vec, Sc)):
        return v.dtype, v.unit
    if isinstance(v, bool):
        return 'b1', None
    if isinstance(v, int):
        return 'i8', None
    d = getattr(v, 'abs_dtype', None)
    if d is not None:
        return d
    return 'f8', None


def arith_dtype(op, a, b, node):
    (da, ua), (db, ub) = dtype_of(a), dtype_of(b)
    if da == 'M8' and db == 'M8' and op == 'Sub':
        return 'm8', 'ns'
    if da == 'M8' and db == 'm8' or da == 'm8' and db == 'M8':
        return 'M8', 'ns'
    if da == 'm8' and db == 'm8':
        if op == 'Div':
            return 'f8', None
        return 'm8', ua if ua == ub else 'ns'
    if da == 'm8' or db == 'm8':
        if op in ('Mult', 'Div'):
            return 'm8', ua or ub
        raise AbsRaise(ExcVal('TypeError', ('timedelta arithmetic with a number',)), node)
    if da == 'M8' or db == 'M8':
        raise AbsRaise(ExcVal('TypeError', ('datetime arithmetic with a number',)), node)
    if op == 'Div':
        return 'f8', None
    if 'f8' in (da, db):
        return 'f8', None
    if da == 'O' or db == 'O':
        return 'O', None
    if da == 'b1' and db == 'b1':
        return 'i8', None
    for c in ('i8', 'u1'):
        if c in (da, db):
            return ('i8' if 'i8' in (da, db) else 'u1'), None
    return 'f8', None


def py_binop(M, interp, op, a, b, node):
    import operator as O
    if isinstance(a, PathVal) and op == 'Div':
        return PathVal(a.s.rstrip('/') + '/' + str(b))
    if op == 'Add' and isinstance(a, (list, tuple, str)) and type(a) is type(b):
        return a + b
    if op == 'Add' and isinstance(a, tuple) and isinstance(b, tuple):
        return tuple(a) + tuple(b)
    if op == 'Mult' and isinstance(a, (list, tuple, str)) and isinstance(b, int):
        return a * b
    if op == 'Mod' and isinstance(a, str):
        try:
            return a % (b if not isinstance(b, list) else tuple(b))
        except Exception:
            raise AnalysisError('%-formatting of these values not modelled', node)
    if op == 'BitOr' and isinstance(a, dict) and isinstance(b, dict):
        return {**a, **b}
    if op in ('BitAnd', 'BitOr') and isinstance(a, bool) and isinstance(b, bool):
        return (a and b) if op == 'BitAnd' else (a or b)
    if op in ('BitAnd', 'BitOr', 'Sub', 'BitXor') and isinstance(a, (set, frozenset)) and isinstance(b, (set, frozenset)):
        return {'BitAnd': O.and_, 'BitOr': O.or_, 'Sub': O.sub, 'BitXor': O.xor}[op](a, b)
    if isinstance(a, (int, Fr, float, bool)) and isinstance(b, (int, Fr, float, bool)):
        x, y = M.conc_num(a, node), M.conc_num(b, node)
        both_int = isinstance(a, int) and isinstance(b, int)
        if op == 'Add':
            r = x + y
        elif op == 'Sub':
            r = x - y
        elif op == 'Mult':
            r = x * y
        elif op == 'Div':
            if y == 0:
                raise AbsRaise(ExcVal('ZeroDivisionError'), node)
            return x / y
        elif op == 'FloorDiv':
            if y == 0:
                raise AbsRaise(ExcVal('ZeroDivisionError'), node)
            r = Fr(math.floor(x / y))
        elif op == 'Mod':
            if y == 0:
                raise AbsRaise(ExcVal('ZeroDivisionError'), node)
            r = x - y * math.floor(x / y)
        elif op == 'Pow':
            r = x ** int(y) if y == int(y) else Fr(float(x) ** float(y))
        else:
            raise AnalysisError(f'operator {op} on numbers not modelled', node)
        return int(r) if both_int and r.denominator == 1 else r
    raise AnalysisError(f'operator {op} on {type(a).__name__}, {type(b).__name__} not modelled', node,
                        where=_where(interp, node))


def logic_model(M, interp, op, a, b, node):
    kind = result_kind(a, b)
    if kind == 'series':
        a, b = filled_for_series(a), filled_for_series(b)
    pairs, tmpl = broadcast(interp, a, b, node)
    f = {'BitAnd': X.f_and, 'BitOr': X.f_or, 'BitXor': X.f_xor}[op]
    out = []
    for ea, eb in pairs:
        out.append(El(f(bool_of_el(ea.d), bool_of_el(eb.d)), m_or(ea.m, eb.m)))
    if tmpl is None:
        e = out[0]
        if m_conc(e.m, node, 'scalar result'):
            return MASKED
        return mkbool(e.d)
    return with_sel(Vec.fresh(out, kind=kind, dtype='b1', index=tmpl.index if kind == 'series' else None), a, b)


def unaryop_model(M, interp, op, v, node):
    if op == 'Invert':
        if isinstance(v, Vec):
            if v.dtype != 'b1':
                raise AnalysisError('~ on non-boolean array', node)
            return v.like([El(X.f_not(bool_of_el(e.d)), e.m) for e in v.els()])
        if isinstance(v, FB):
            return mkbool(X.f_not(v.f))
        if isinstance(v, bool):
            return not v     # numpy.bool_ semantics (the code only inverts numpy booleans)
        if isinstance(v, int):
            return ~v
    if op == 'USub':
        if isinstance(v, Vec):
            return v.like([El(X.neg(num_of_el(e.d)), e.m) for e in v.els()])
        if isinstance(v, Sc):
            return Sc(X.neg(v.d), v.dtype, v.unit)
        if isinstance(v, (int, Fr, float)):
            return -v
    if op == 'UAdd':
        return v
    raise AnalysisError(f'unary {op} on {type(v).__name__} not modelled', node)


def cmp_el(op, ea, eb, masked_style):
    da, db = ea.d, eb.d
    m = m_or(ea.m, eb.m)
    if masked_style and m is not False and op in ('eq', 'ne'):
        m_conc(m, None, '== / != on masked arrays')
        both = m_conc(ea.m) and m_conc(eb.m)
        # numpy.ma: where masked, the comparison of the masks decides
        val = (both if op == 'eq' else not both)
        return El(X.TRUE if val else X.FALSE, True)
    if X.is_formula(da) or X.is_formula(db):
        return El(X.cmp(op, da, db), m)
    return El(X.cmp(op, num_of_el(da), num_of_el(db)), m)


def compare_model(M, interp, op, a, b, node):
    if op in ('Is', 'IsNot'):
        r = is_model(a, b)
        return r if op == 'Is' else (not r)
    if op in ('In', 'NotIn'):
        r = contains_model(M, interp, b, a, node)
        if isinstance(r, bool):
            return r if op == 'In' else (not r)
        return mkbool(r.f if op == 'In' else X.f_not(r.f))
    if op not in CMP:
        raise AnalysisError(f'comparison {op} not modelled', node)
    c = CMP[op]
    if not isinstance(a, (Vec, Sc, Masked, FB)) and not isinstance(b, (Vec, Sc, Masked, FB)):
        return py_compare(M, interp, c, a, b, node)
    kind = result_kind(a, b)
    if kind == 'series':
        a, b = filled_for_series(a), filled_for_series(b)
    # datetime-vs-number comparisons are a TypeError in numpy
    (da, _), (db, _) = dtype_of(a), dtype_of(b)
    if (da == 'M8') != (db == 'M8') and 'O' not in (da, db):
        raise AbsRaise(ExcVal('TypeError', ('comparison of datetime64 with a number',)), node)
    if getattr(a, 'narrow', False) or getattr(b, 'narrow', False):
        note_int_arith(interp, tuple(x for x in (a, b) if getattr(x, 'narrow', False)), node)
    for u, w in ((a, b), (b, a)):
        if isinstance(u, Vec) and u.dtype in ('i8', 'u1') and dtype_of(w)[0] == 'f8' and any(X.data_atoms(e.d) for e in u.els()):
            # numpy promotes the integer array to float64 for the comparison (exact up to 2**53 only)
            interp.event('int-float-compare', node=node)
            break
    pairs, tmpl = broadcast(interp, a, b, node)
    for ea, eb in pairs:
        for e in (ea, eb):
            if e.d == NONE_EL:
                if c in ('eq', 'ne'):
                    continue
                raise AbsRaise(ExcVal('TypeError', ("'<' not supported with NoneType",)), node)
    check_oob(interp, [e for p in pairs for e in p], node)
    note_data_compare(interp, c, pairs, node)
    out = [cmp_el(c, ea, eb, kind == 'ma') for ea, eb in pairs]
    if tmpl is None:
        e = out[0]
        if m_conc(e.m, node, 'scalar result'):
            return MASKED
        return mkbool(e.d)
    return with_sel(Vec.fresh(out, kind=kind, dtype='b1', index=tmpl.index if kind == 'series' else None), a, b)


def note_data_compare(interp, c, pairs, node):
    """a comparison in which observations take part: what stands on the other side (recorded once per site and shape)"""
    shapes = set()
    for ea, eb in pairs:
        da, db = bool(X.data_atoms(ea.d)), bool(X.data_atoms(eb.d))
        if not (da or db):
            continue
        if da and db:
            shapes.add(('data', None))
            continue
        other = eb.d if da else ea.d
        if X.is_num(other):
            shapes.add(('num', other[1]))
        elif other == X.NAN:
            shapes.add(('nan', None))
        else:
            shapes.add(('other', other[0] if isinstance(other, tuple) and other else str(other)))
    if shapes:
        interp.event('data-compare', node=node, op=c, shapes=shapes)


def py_compare(M, interp, c, a, b, node):
    num = (int, Fr, float, bool)
    if isinstance(a, num) and isinstance(b, num) and not (isinstance(a, float) and a != a) and not (isinstance(b, float) and b != b):
        x, y = Fr(a), Fr(b)
        return X._cmp_num(c, x, y)
    if isinstance(a, float) or isinstance(b, float):
        if c == 'ne':
            return True
        return False
    ka, kb = getattr(a, 'sort_key', None), getattr(b, 'sort_key', None)
    if ka is not None and kb is not None:
        return X._cmp_num(c, ka, kb)
    if c in ('eq', 'ne'):
        r = eq_model(M, interp, a, b, node)
        return r if c == 'eq' else not r
    if type(a) is type(b) and isinstance(a, (str, tuple, list)):
        try:
            return {'lt': a < b, 'le': a <= b, 'gt': a > b, 'ge': a >= b}[c]
        except TypeError:
            pass
    if a is None or b is None:
        raise AbsRaise(ExcVal('TypeError', (f"ordering comparison with NoneType",)), node)
    raise AnalysisError(f'comparison {c} of {type(a).__name__} and {type(b).__name__} not modelled', node,
                        where=_where(interp, node))


def eq_model(M, interp, a, b, node):
    if isinstance(a, Instance):
        try:
            f = a.cls.lookup('__eq__')
            r = interp.call_function(f, [a, b], {}, node)
            if r is NOTIMPL:
                return a is b
            return bool(r)
        except KeyError:
            if a is b:
                return True
            ta = a.tuple_items()
            if ta is not None:
                # a typing.NamedTuple instance is a tuple: equal to any tuple with equal items
                tb = b.tuple_items() if isinstance(b, Instance) else (list(b) if isinstance(b, tuple) else None)
                return tb is not None and len(ta) == len(tb) and all(eq_model(M, interp, x, y, node) for x, y in zip(ta, tb))
            if a.cls.record_fields is not None and getattr(a.cls, 'dataclass_eq', True):
                # a dataclass (eq=True is the default) compares its fields, for instances of the same class
                if not (isinstance(b, Instance) and b.cls is a.cls):
                    return False
                from .interp import compare_fields
                return all(eq_model(M, interp, a.attrs.get(n), b.attrs.get(n), node) for n in compare_fields(a.cls))
            return False
    if isinstance(b, Instance):
        return eq_model(M, interp, b, a, node)
    if isinstance(a, ExtRef) and isinstance(b, ExtRef):
        return a.path == b.path
    if isinstance(a, ExtRef) != isinstance(b, ExtRef):
        ext, other = (a, b) if isinstance(a, ExtRef) else (b, a)
        from .models import DType
        if isinstance(other, DType):
            return other == ext       # numpy: dtype == np.float64 compares with the dtype the object names (row 9)
        if other is None or isinstance(other, (bool, int, Fr, float, list, tuple, dict, set, FuncVal, ClassVal, Instance)):
            return False          # a library class / function / constant object is none of these
        if isinstance(other, str) and not ext.path.startswith(('numpy.', 'builtins.')):
            raise AnalysisError(f'== of the library object {ext.path} and a string not modelled', node)
        if isinstance(other, str):
            return False
        raise AnalysisError(f'== of the library object {ext.path} and {type(other).__name__} not modelled', node)
    try:
        return bool(a == b)
    except Exception:
        raise AnalysisError(f'== of {type(a).__name__} and {type(b).__name__} not modelled', node)


class _NotImpl:
    def __repr__(self):
        return 'NotImplemented'


NOTIMPL = _NotImpl()


def is_model(a, b):
    if isinstance(a, ExcType) and isinstance(b, ExcType):
        return a.tname == b.tname            # one class object per built-in exception
    if isinstance(a, Masked) or isinstance(b, Masked):
        return isinstance(a, Masked) and isinstance(b, Masked)
    if isinstance(a, NanConst) or isinstance(b, NanConst):
        return a is b
    if a is None or b is None:
        return a is b
    if isinstance(a, bool) or isinstance(b, bool):
        # numpy.bool_ is never `is True`; python bools compare by identity
        if isinstance(a, bool) and isinstance(b, bool):
            return a == b
        return False
    if isinstance(a, ExtRef) and isinstance(b, ExtRef):
        return a.path == b.path
    return a is b


class NanConst:
    """the np.nan object itself (identity matters for utils.isnan)"""
    def __repr__(self):
        return 'np.nan'


NP_NAN = NanConst()


def contains_model(M, interp, container, item, node):
    if isinstance(container, (list, tuple, set, frozenset)):
        for x in container:
            if x is item:
                return True
            try:
                if eq_model(M, interp, x, item, node):
                    return True
            except AnalysisError:
                continue
        return False
    if isinstance(container, dict):
        try:
            return item in container
        except TypeError:
            raise AbsRaise(ExcVal('TypeError', ('unhashable key',)), node)
    if isinstance(container, str):
        if not isinstance(item, str):
            raise AbsRaise(ExcVal('TypeError', ("'in <string>' requires string as left operand",)), node)
        return item in container
    if isinstance(container, range):
        return item in container
    if isinstance(container, bool) or container is None or isinstance(container, (int, Fr, float)):
        raise AbsRaise(ExcVal('TypeError', (f"argument of type '{type(container).__name__}' is not iterable",)), node)
    if isinstance(container, Instance):
        try:
            f = container.cls.lookup('__contains__')
            return bool(interp.call_function(f, [container, item], {}, node))
        except KeyError:
            if hasattr(container, 'dict_data'):
                return item in container.dict_data
    h = getattr(container, 'abs_contains', None)
    if h is not None:
        return h(item)
    if isinstance(container, Vec):
        fs = [X.cmp('eq', num_of_el(e.d), as_operand(item)[1]) for e in container.els() if not m_conc(e.m, node, "'in'")]
        return mkbool(X.f_or(*fs)) if fs else False
    raise AnalysisError(f"'in' on {type(container).__name__} not modelled", node, where=_where(interp, node))


def truth_model(M, interp, v, node):
    if isinstance(v, Sc):
        if v.concrete():
            return v.value() != 0
        if X.is_formula(v.d):
            return v.d
        if v.d == X.NAN:
            return True
        return X.cmp('ne', v.d, X.num(0))
    if isinstance(v, Masked):
        return False
    if isinstance(v, Fr):
        return v != 0
    if isinstance(v, Vec):
        if len(v) == 1:
            e = v.el(0)
            return bool_of_el(e.d) if not X.is_num(e.d) else e.d[1] != 0
        if len(v) == 0:
            return False    # deprecated in numpy but still False
        raise AbsRaise(ExcVal('ValueError', ('The truth value of an array with more than one element is ambiguous',)), node)
    if isinstance(v, Instance):
        for meth in ('__bool__', '__len__'):
            try:
                f = v.cls.lookup(meth)
                r = interp.call_function(f, [v], {}, node)
                return bool(r)
            except KeyError:
                continue
        if hasattr(v, 'dict_data'):
            return bool(v.dict_data)
        return True
    if isinstance(v, (FuncVal, BoundMethod, ClassVal, ExtRef, ModuleNS, ExcVal, PartialVal, PathVal, Logger, GenResult)):
        return True
    if isinstance(v, NanConst):
        return True
    t = getattr(v, 'abs_truth', None)
    if t is not None:
        return t()
    raise AnalysisError(f'truth value of {type(v).__name__} not modelled', node, where=_where(interp, node))


def iterate_model(M, interp, v, node):
    if isinstance(v, Vec):
        out = []
        for e in v.els():
            out.append(MASKED if m_conc(e.m, node, 'iteration') else scalar_of(e, v))
        return out
    if isinstance(v, Vec2):
        return list(v.rows)
    if isinstance(v, Instance) and hasattr(v, 'dict_data'):
        return list(v.dict_data)
    it = getattr(v, 'abs_iter', None)
    if it is not None:
        return it()
    if v is None:
        raise AbsRaise(ExcVal('TypeError', ("'NoneType' object is not iterable",)), node)
    if isinstance(v, Instance):
        for meth in ('__iter__', '__getitem__'):
            try:
                f = v.cls.lookup(meth)
            except KeyError:
                continue
            if meth == '__iter__':
                return interp.iterate(interp.call_function(f, [v], {}, node), node)
            raise AnalysisError('iteration through __getitem__ not modelled', node)
        if all(isinstance(b, ClassVal) for b in v.cls.bases):
            raise AbsRaise(ExcVal('TypeError', (f"'{v.cls.name}' object is not iterable",)), node)
    if isinstance(v, (bool, int, Fr, float, FuncVal, BoundMethod)) or (isinstance(v, Sc) and not isinstance(v, Vec)):
        raise AbsRaise(ExcVal('TypeError', (f"'{type(v).__name__}' object is not iterable",)), node)
    # (anything else is a value of the model whose iteration nobody wrote down: refuse rather than invent a TypeError)
    raise AnalysisError(f'iteration over {type(v).__name__} not modelled', node, where=_where(interp, node))


def scalar_of(e, v):
    """python-level value of an unmasked element"""
    d = e.d
    if d == NONE_EL:
        return None
    if v.dtype == 'b1':
        return mkbool(bool_of_el(d))
    ts = getattr(v, 'tstamps', None)
    return Sc(d, v.dtype, v.unit)


def ite_model(M, interp, f, a, b, node):
    if isinstance(a, Vec) and isinstance(b, Vec) and len(a) == len(b):
        out = [El(X.ite(f, ea.d, eb.d), m_ite(f, ea.m, eb.m)) for ea, eb in zip(a.els(), b.els())]
        return a.like(out)
    oa, ob = as_operand(a), as_operand(b)
    if oa and ob and oa[0] == 'sc' and ob[0] == 'sc' and not oa[2] and not ob[2]:
        d = X.ite(f, oa[1], ob[1])
        if X.is_formula(d):
            return mkbool(d)
        return Sc(d)
    raise AnalysisError(f'cannot merge values of an undecided branch: {type(a).__name__} / {type(b).__name__}', node,
                        where=_where(interp, node))


def _mask_conflict(node):
    raise AnalysisError('mask differs between the arms of an undecided branch', node)


# ------------------------------------------------------------------------------------------------
# indexing

def concrete_int(M, v, node):
    if isinstance(v, bool):
        raise AnalysisError('bool used as index', node)
    if isinstance(v, int):
        return v
    x = M.conc_num(v, node, 'index')
    if x.denominator != 1:
        raise AbsRaise(ExcVal('TypeError', ('slice indices must be integers',)), node)
    return int(x)


def slice_positions(M, key, n, node):
    lo = None if key.start is None else concrete_int(M, key.start, node)
    hi = None if key.stop is None else concrete_int(M, key.stop, node)
    st = None if key.step is None else concrete_int(M, key.step, node)
    return list(range(n))[slice(lo, hi, st)]


def getitem_model(M, interp, obj, key, node):
    if isinstance(obj, Vec):
        return vec_getitem(M, interp, obj, key, node)
    if isinstance(obj, Vec2):
        if isinstance(key, tuple) and len(key) == 2 and all(isinstance(k, slice) for k in key):
            rows = [obj.rows[i] for i in slice_positions(M, key[0], len(obj.rows), node)]
            cols = slice_positions(M, key[1], obj.width, node)
            rows = [r.view([r.idx[c] for c in cols]) for r in rows]
            return Vec2(rows, len(cols), obj.kind, obj.dtype)
        if isinstance(key, slice):
            return Vec2([obj.rows[i] for i in slice_positions(M, key, len(obj.rows), node)], obj.width, obj.kind, obj.dtype)
        if isinstance(key, int):
            p = norm_index(key, len(obj.rows))
            if p is None:
                raise AbsRaise(ExcVal('IndexError', ('row index out of bounds',)), node)
            return obj.rows[p]
        raise AnalysisError('2-D indexing form not modelled', node)
    if isinstance(obj, (list, tuple, str, range)):
        if isinstance(key, slice):
            s = slice(*(None if k is None else concrete_int(M, k, node) for k in (key.start, key.stop, key.step)))
            return obj[s]
        if isinstance(key, (str, type(None))) or isinstance(key, (list, tuple, dict)):
            raise AbsRaise(ExcVal('TypeError', ('list indices must be integers or slices',)), node)
        i = concrete_int(M, key, node)
        try:
            return obj[i]
        except IndexError:
            raise AbsRaise(ExcVal('IndexError', ('index out of range',)), node)
    if isinstance(obj, DefaultDict):
        if key not in obj:
            if obj.factory is None:
                raise AbsRaise(ExcVal('KeyError', (key,)), node)
            obj[key] = interp.call(obj.factory, [], {}, node)
        return dict.__getitem__(obj, key)
    if isinstance(obj, dict):
        try:
            return obj[key]
        except KeyError:
            raise AbsRaise(ExcVal('KeyError', (key,)), node)
        except TypeError:
            raise AbsRaise(ExcVal('TypeError', ('unhashable key',)), node)
    if obj is None:
        raise AbsRaise(ExcVal('TypeError', ("'NoneType' object is not subscriptable",)), node)
    if isinstance(obj, ExtRef) and obj.path.split('.')[0] in ('typing', 'collections', 'builtins'):
        return obj          # generic alias in an annotation: Union[...], List[...]
    if isinstance(obj, ClassVal) and getattr(obj, 'enum_members', None) is not None:
        if key in obj.enum_members:
            return obj.enum_members[key]
        raise AbsRaise(ExcVal('KeyError', (key,)), node)
    if isinstance(obj, Instance):
        try:
            f = obj.cls.lookup('__getitem__')
            return interp.call_function(f, [obj, key], {}, node)
        except KeyError:
            if obj.tuple_items() is not None:
                return getitem_model(M, interp, tuple(obj.tuple_items()), key, node)
            if hasattr(obj, 'dict_data'):
                try:
                    return obj.dict_data[key]
                except KeyError:
                    raise AbsRaise(ExcVal('KeyError', (key,)), node)
    h = getattr(obj, 'abs_getitem', None)
    if h is not None:
        return h(interp, key, node)
    if isinstance(obj, (Sc, int, Fr, float, bool)):
        raise AbsRaise(ExcVal('TypeError', ('scalar is not subscriptable',)), node)
    raise AnalysisError(f'subscript of {type(obj).__name__} not modelled', node, where=_where(interp, node))


def bool_positions(interp, mask, n, node):
    """positions selected by a boolean index array with concrete truth values; formula -> AnalysisError"""
    if len(mask) != n:
        raise AbsRaise(ExcVal('IndexError', (f'boolean index did not match indexed array; dimension is {n} but corresponding boolean dimension is {len(mask)}',)), node)
    pos = []
    for i, e in enumerate(mask.els()):
        f = bool_of_el(e.d)
        if f == X.TRUE:
            pos.append(i)
        elif f != X.FALSE:
            raise AnalysisError('boolean-mask *selection* with undecided mask (result length would be symbolic)', node,
                                where=_where(interp, node))
    return pos


def sel_of(*vals):
    """common lazy-selection mask of operands (None if none); different masks cannot be combined"""
    masks = [x.sel_mask for x in vals if isinstance(x, Vec) and x.sel_mask is not None]
    if not masks:
        return None
    if any(m != masks[0] for m in masks):
        raise AnalysisError('operands are boolean selections with different data-dependent masks')
    return masks[0]


def with_sel(res, *vals):
    if isinstance(res, Vec):
        sm = sel_of(*vals)
        if sm is not None:
            res.sel_mask = sm
    return res


def vec_getitem(M, interp, v, key, node):
    if v.sel_mask is not None:
        raise AnalysisError('indexing a data-dependent boolean selection', node)
    n = len(v)
    if isinstance(key, tuple) and len(key) == 1:
        key = key[0]
    if key is Ellipsis or (isinstance(key, tuple) and len(key) == 2 and Ellipsis in key and all(k is Ellipsis or (isinstance(k, slice) and k == slice(None)) for k in key)):
        key = slice(None)      # a[...] / a[..., :] on a 1-D array: the whole array (a view)
    if isinstance(key, tuple) and len(key) == 2 and sum(1 for k in key if k is Ellipsis) == 1 and v.kind in ('nd', 'ma'):
        other = key[0] if key[1] is Ellipsis else key[1]
        if isinstance(other, slice):
            key = other        # a[..., 1:] / a[1:, ...] on a 1-D array: the ellipsis stands for no axis
    if isinstance(key, slice):
        pos = slice_positions(M, key, n, node)
        out = v.view([v.idx[p] for p in pos])
        if v.kind == 'series' and v.index is not None:
            out.index = v.index.view([v.index.idx[p] for p in pos])
        return out
    if isinstance(key, Vec):
        if key.dtype == 'b1':
            conds = [bool_of_el(e.d) for e in key.els()]
            if len(conds) == n and any(c not in (X.TRUE, X.FALSE) for c in conds) and v.sel_mask is None:
                out = v.copy()
                out.sel_mask = tuple(conds)
                return out
            pos = bool_positions(interp, key, n, node)
            out = v.like([v.el(p) for p in pos])      # advanced indexing copies
            if v.kind == 'series' and v.index is not None:
                out.index = v.index.like([v.index.el(p) for p in pos])
            return out
        out = []
        for e in key.els():
            out.append(select_through_ite(M, v, e.d, n, node))
        return v.like(out)
    if isinstance(key, list):
        pos = [norm_checked(concrete_int(M, k, node), n, node) for k in key]
        return v.like([v.el(p) for p in pos])
    if isinstance(key, (str, type(None))):
        raise AbsRaise(ExcVal('IndexError', ('only integers, slices ... are valid indices',)), node)
    i = concrete_int(M, key, node)
    p = norm_index(i, n)
    if p is None:
        raise AbsRaise(ExcVal('IndexError', (f'index {i} is out of bounds for axis 0 with size {n}',)), node)
    e = v.el(p)
    check_oob(interp, [e], node)
    if m_conc(e.m, node, 'scalar element access'):
        return MASKED
    return scalar_of(e, v)


def select_through_ite(M, v, d, n, node):
    """element of v at an index expression that may be an if-then-else tree over concrete integers (lookup tables)"""
    if isinstance(d, tuple) and d and d[0] == 'ite':
        a = select_through_ite(M, v, d[2], n, node)
        b = select_through_ite(M, v, d[3], n, node)
        return El(X.ite(d[1], a.d, b.d), m_ite(d[1], a.m, b.m))
    return v.el(norm_checked(concrete_int(M, Sc(d), node), n, node))


def norm_checked(i, n, node):
    p = norm_index(i, n)
    if p is None:
        raise AbsRaise(ExcVal('IndexError', (f'index {i} is out of bounds for axis 0 with size {n}',)), node)
    return p


# ------------------------------------------------------------------------------------------------
# stores

def value_elements(M, interp, v, count, node, target):
    """elements to be written by a store of `v` into `count` cells"""
    if isinstance(v, Vec):
        if len(v) == count:
            return v.els()
        if len(v) == 1:
            return v.els() * count
        raise AbsRaise(ExcVal('ValueError', (f'NumPy boolean array indexing assignment cannot assign {len(v)} input values to the {count} output values',)), node)
    if isinstance(v, Masked):
        return [El(X.ANY, True)] * count
    if isinstance(v, (list, tuple)):
        if len(v) != count and len(v) != 1:
            raise AbsRaise(ExcVal('ValueError', ('cannot copy sequence to array',)), node)
        els = [as_el(M, x, node) for x in v]
        return els * count if len(v) == 1 and count != 1 else els
    return [as_el(M, v, node)] * count


def as_el(M, x, node):
    if x is None:
        return El(NONE_EL, False)
    o = as_operand(x)
    if o is None:
        raise AnalysisError(f'cannot store value of type {type(x).__name__} into an array', node)
    return El(o[1], o[2])


def cast_for(target, e):
    """element as stored into `target` (dtype conversion; masks only survive in masked arrays)"""
    d = e.d
    if target.dtype == 'b1':
        d = bool_of_el(d) if d != NONE_EL else d
    elif target.dtype in ('u1', 'i8', 'f8'):
        d = num_of_el(d)
    m = e.m if target.kind == 'ma' else False
    return El(d, m)


def store_model(M, interp, obj, key, v, node):
    if isinstance(obj, Vec):
        return vec_store(M, interp, obj, key, v, node)
    if isinstance(obj, Vec2):
        raise AnalysisError('store into 2-D array not modelled', node)
    if isinstance(obj, DefaultDict):
        dict.__setitem__(obj, key, v)
        return
    if isinstance(obj, dict):
        M.mutation(interp, obj, '[...] =', node)
        try:
            obj[key] = v
        except TypeError:
            raise AbsRaise(ExcVal('TypeError', ('unhashable key',)), node)
        return
    if isinstance(obj, list):
        M.mutation(interp, obj, '[...] =', node)
        if isinstance(key, slice):
            s = slice(*(None if k is None else concrete_int(M, k, node) for k in (key.start, key.stop, key.step)))
            obj[s] = interp.iterate(v, node)
            return
        i = concrete_int(M, key, node)
        try:
            obj[i] = v
        except IndexError:
            raise AbsRaise(ExcVal('IndexError', ('list assignment index out of range',)), node)
        return
    if isinstance(obj, tuple):
        raise AbsRaise(ExcVal('TypeError', ("'tuple' object does not support item assignment",)), node)
    if isinstance(obj, Instance):
        try:
            f = obj.cls.lookup('__setitem__')
            return interp.call_function(f, [obj, key, v], {}, node)
        except KeyError:
            if hasattr(obj, 'dict_data'):
                obj.dict_data[key] = v
                return
    h = getattr(obj, 'abs_setitem', None)
    if h is not None:
        return h(interp, key, v, node)
    raise AnalysisError(f'subscript store on {type(obj).__name__} not modelled', node, where=_where(interp, node))


def vec_store(M, interp, t, key, v, node):
    """t[key] = v, guarded by the interpreter's current path condition"""
    n = len(t)
    live = interp.live
    owner = t.back.owner
    mut_event = None
    if owner is not None:
        mut_event = interp.event('mutation', owner=owner, what='array element store', node=node, changed=False)
    if getattr(t.back, 'readonly', False) or getattr(t, 'ro', False):
        raise AbsRaise(ExcVal('ValueError', ('assignment destination is read-only',)), node)

    def write(pos, cond, e, keep_mask=False):
        e = cast_for(t, e)
        old = t.el(pos)
        if keep_mask or t.kind == 'nd':
            # numpy.ma.__setitem__ with a *masked* boolean index and an unmasked value writes the data only; a plain-ndarray view of a
            # masked array's buffer (np.asarray(ma), ma.data) writes data and leaves the owner's mask alone
            e = El(e.d, old.m)
        g = X.f_and(live, cond)
        if mut_event is not None and g != X.FALSE and (e.d != old.d or e.m != old.m):
            mut_event['changed'] = True
        if g == X.TRUE:
            t.set(pos, e)
        elif g == X.FALSE:
            return
        else:
            # a store of an unmasked value unmasks the cell (numpy.ma soft mask): the mask becomes data dependent
            t.set(pos, El(X.ite(g, e.d, old.d), m_ite(g, e.m, old.m)))

    if isinstance(key, tuple) and len(key) == 1:
        key = key[0]
    if key is Ellipsis:
        key = slice(None)
    if isinstance(key, slice):
        pos = slice_positions(M, key, n, node)
        els = value_elements(M, interp, v, len(pos), node, t)
        for p, e in zip(pos, els):
            write(p, X.TRUE, e)
        return
    if isinstance(v, Vec) and v.sel_mask is not None:
        # target[m] = source[m] with the same undecided mask m: element-wise conditional copy
        if not (isinstance(key, Vec) and key.dtype == 'b1' and key.full_len() == n and tuple(bool_of_el(e.d) for e in key.els()) == v.sel_mask
                and v.full_len() == n):
            raise AnalysisError('store of a data-dependent boolean selection under a different index', node, where=_where(interp, node))
        for p, (c, e) in enumerate(zip(v.sel_mask, v.els())):
            write(p, c, e)
        return
    if isinstance(key, Vec) and key.dtype == 'b1':
        if len(key) != n:
            raise AbsRaise(ExcVal('IndexError', (f'boolean index did not match indexed array along axis 0; size of axis is {n} but size of corresponding boolean axis is {len(key)}',)), node)
        conds = [bool_of_el(e.d) for e in key.els()]
        if isinstance(v, Vec) and len(v) != 1:
            # value array consumed in order by the selected cells: needs a concrete selection
            sel = [i for i, c in enumerate(conds) if c == X.TRUE]
            if any(c not in (X.TRUE, X.FALSE) for c in conds):
                raise AnalysisError('mask store of an array value under an undecided mask', node, where=_where(interp, node))
            els = value_elements(M, interp, v, len(sel), node, t)
            for p, e in zip(sel, els):
                write(p, X.TRUE, e)
            return
        e = value_elements(M, interp, v, 1, node, t)[0]
        keep = key.kind == 'ma' and t.kind == 'ma' and e.m is False
        for p, c in enumerate(conds):
            write(p, c, e, keep_mask=keep)
        return
    if isinstance(key, IndexSet):
        # integer index set derived from a boolean condition (np.where(c)[0] + k)
        e = value_elements(M, interp, v, 1, node, t)[0]
        for p, c in key.items:
            if c == X.FALSE:
                continue
            if p < 0 or p >= n:
                if c == X.TRUE:
                    raise AbsRaise(ExcVal('IndexError', (f'index {p} is out of bounds',)), node)
                raise AnalysisError('possibly out-of-range integer index under an undecided condition', node)
            write(p, c, e)
        return
    if isinstance(key, Vec):
        pos = [norm_checked(concrete_int(M, Sc(e.d), node), n, node) for e in key.els()]
        els = value_elements(M, interp, v, len(pos), node, t)
        for p, e in zip(pos, els):
            write(p, X.TRUE, e)
        return
    if isinstance(key, list):
        pos = [norm_checked(concrete_int(M, k, node), n, node) for k in key]
        els = value_elements(M, interp, v, len(pos), node, t)
        for p, e in zip(pos, els):
            write(p, X.TRUE, e)
        return
    i = concrete_int(M, key, node)
    p = norm_index(i, n)
    if p is None:
        raise AbsRaise(ExcVal('IndexError', (f'index {i} is out of bounds for axis 0 with size {n}',)), node)
    e = value_elements(M, interp, v, 1, node, t)[0]
    write(p, X.TRUE, e)


class IndexSet:
    """integer indices {p : cond} as produced by np.where(mask)[0] (+ shift)"""
    def __init__(self, items):
        self.items = items      # list of (position, formula)

    def shifted(self, k):
        return IndexSet([(p + k, c) for p, c in self.items])

    def abs_getattr(self, interp, name, node):
        if name in ('size', 'shape'):
            if all(c in (X.TRUE, X.FALSE) for _, c in self.items):
                n = sum(1 for _, c in self.items if c == X.TRUE)
                return n if name == 'size' else (n,)
            return _undecided_size(self, node) if name == 'size' else (_undecided_size(self, node),)
        raise AnalysisError(f'attribute {name} of an integer index set not modelled', node)


def _undecided_size(ix, node):
    """size of a data-dependent index set: the exact count, sum of the indicator of every condition"""
    from .vec import Sc
    acc = X.num(0)
    for _, c in ix.items:
        acc = X.add(acc, X.ite(c, X.num(1), X.num(0)))
    return Sc(acc, 'i8')


# ------------------------------------------------------------------------------------------------
# attributes

def getattr_model(M, interp, obj, name, node):
    from . import models_lib
    return models_lib.getattr_lib(M, interp, obj, name, node)
