"""Models of Python builtins and small stdlib pieces."""
import collections
import math
from fractions import Fraction as Fr

from . import expr as X
from .interp import (AbsRaise, BoundMethod, ClassVal, ExcType, ExcVal, ExtRef, FB, FuncVal,
                     GenResult, Instance, ModelMethod, ModuleNS, mkbool)
from .repo import AnalysisError
from .vec import MASKED, Masked, Sc, Vec, Vec2


class Dispatcher:
    """functools.singledispatch: the implementation registered for the most specific class of the first argument, else the default"""
    def __init__(self, default):
        self.default = default
        self.registry = []        # (class value, function), in registration order

    def abs_getattr(self, interp, name, node):
        from .models import PyCallable
        if name == 'register':
            def reg(it, a, k, n):
                if len(a) == 1 and isinstance(a[0], FuncVal):
                    fn = a[0]
                    ann = fn.node.args.args[0].annotation if fn.node.args.args else None
                    if ann is None:
                        raise AbsRaise(ExcVal('TypeError', ('Invalid first argument to `register()`: use either `@register(some_class)` or a type annotation',)), n)
                    cls = it.eval(ann, it.def_frame(fn))
                    self.registry.append((cls, fn))
                    return fn
                if len(a) == 1:
                    cls = a[0]
                    return PyCallable(lambda it2, a2, k2, n2: (self.registry.append((cls, a2[0])), a2[0])[1], 'register(cls)')
                if len(a) == 2:
                    self.registry.append((a[0], a[1]))
                    return a[1]
                raise AnalysisError('singledispatch.register form not modelled', n)
            return PyCallable(reg, 'register')
        if name in ('__name__', '__wrapped__'):
            return interp.getattr(self.default, name, node) if name == '__name__' else self.default
        raise AnalysisError(f'singledispatch function attribute {name} not modelled', node)

    def abs_call(self, interp, args, kwargs, node):
        if not args:
            raise AbsRaise(ExcVal('TypeError', ('singledispatch function requires at least 1 positional argument',)), node)
        isinst = interp.models.ext_call['builtins.isinstance']
        matches = [(c, f) for c, f in self.registry if isinst(interp, [args[0], c], {}, node) is True]
        if len(matches) > 1:
            # the most specific class wins: known chains only
            order = ['builtins.bool', 'builtins.int', 'builtins.float', 'builtins.object']
            def rank(c):
                p = getattr(c, 'path', None)
                return order.index(p) if p in order else None
            ranked = [(rank(c), f) for c, f in matches]
            if all(r is not None for r, _ in ranked):
                matches = [min(zip([r for r, _ in ranked], range(len(ranked)), matches))[2]]
            else:
                raise AnalysisError('singledispatch with several matching registrations: specificity not modelled', node)
        fn = matches[0][1] if matches else self.default
        return interp.call(fn, list(args), dict(kwargs), node)


def register(M):
    from .models import ContextMgr, FieldSpec, PyCallable, _where
    E = M.ext_call

    def ext(path):
        def deco(fn):
            E[path] = fn
            return fn
        return deco

    def conc_num(v, node, what='number'):
        if isinstance(v, bool):
            return Fr(int(v))
        if isinstance(v, (int, Fr)):
            return Fr(v)
        if isinstance(v, float):
            if v != v or v in (float('inf'), float('-inf')):
                raise AnalysisError(f'non-finite concrete {what}', node)
            return Fr(v)
        if isinstance(v, Sc) and v.concrete():
            return v.value()
        raise AnalysisError(f'expected a concrete {what}, got {v!r}', node)

    M.conc_num = conc_num

    # ---- trivial passthroughs -----------------------------------------------------------------
    @ext('builtins.len')
    def _len(interp, args, kw, node):
        v = args[0]
        if isinstance(v, (list, tuple, dict, str, set, collections.OrderedDict, range)):
            return len(v)
        if isinstance(v, Vec):
            return len(v)
        if isinstance(v, Vec2):
            return len(v.rows)
        if isinstance(v, ClassVal) and getattr(v, 'enum_members', None) is not None:
            return len({id(m) for m in v.enum_members.values()})
        if isinstance(v, GenResult):
            raise AbsRaise(ExcVal('TypeError', ('object of type generator has no len()',)), node)
        if isinstance(v, Instance):
            try:
                f = v.cls.lookup('__len__')
                return interp.call_function(f, [v], {}, node)
            except KeyError:
                if v.tuple_items() is not None:
                    return len(v.tuple_items())
                if M.is_dict_subclass(v.cls) and hasattr(v, 'dict_data'):
                    return len(v.dict_data)
        if v is None or isinstance(v, (bool, int, Fr, float, FuncVal)) or (isinstance(v, Sc) and not isinstance(v, Vec)) or \
                (isinstance(v, Instance) and all(isinstance(b, ClassVal) for b in v.cls.bases)):
            raise AbsRaise(ExcVal('TypeError', (f'object of type {type(v).__name__} has no len()',)), node)
        h = getattr(v, 'abs_len', None)
        if h is not None:
            return h()
        raise AnalysisError(f'len() of {type(v).__name__} not modelled', node)

    @ext('builtins.sorted')
    def _sorted(interp, args, kw, node):
        items = interp.iterate(args[0], node)
        keyed = None
        if kw.get('key') is not None:
            # the key function is applied to every item once; the keys are ordered like items would be
            keyed = items
            items = [interp.call(kw['key'], [x], {}, node) for x in items]
        def sort_num(x):
            # NaN / infinities take part in Python's comparisons as floats (no comparison with NaN holds: timsort keeps what it cannot order)
            if isinstance(x, float) and (x != x or x in (float('inf'), float('-inf'))):
                return x
            if type(x).__name__ == 'NanConst' or (isinstance(x, Sc) and x.d == X.NAN):
                return float('nan')
            if isinstance(x, (tuple, list)):
                return tuple(sort_num(y) if not isinstance(y, str) else y for y in x)      # sequences compare lexicographically
            return conc_num(x, node)
        try:
            vals = [sort_num(x) if not isinstance(x, str) else x for x in items]
        except AnalysisError:
            ts = [getattr(x, 'sort_key', None) for x in items]
            if all(t is not None for t in ts):
                order = sorted(range(len(items)), key=lambda i: ts[i], reverse=bool(kw.get('reverse')))
                return [(keyed if keyed is not None else items)[i] for i in order]
            raise
        try:
            order = sorted(range(len(items)), key=lambda i: vals[i], reverse=bool(kw.get('reverse')))
        except TypeError:
            raise AbsRaise(ExcVal('TypeError', ("'<' not supported between these items",)), node)
        return [(keyed if keyed is not None else items)[i] for i in order]

    def _minmax(which):
        def f(interp, args, kw, node):
            items = list(args) if len(args) > 1 else interp.iterate(args[0], node)
            if not items and 'default' in kw and len(args) == 1:
                return kw['default']
            if not items:
                raise AbsRaise(ExcVal('ValueError', (f'{which}() arg is an empty sequence',)), node)
            keys = items if kw.get('key') is None else [interp.call(kw['key'], [x], {}, node) for x in items]

            def conc(x):
                if isinstance(x, str):
                    return x
                if isinstance(x, (tuple, list)):
                    return tuple(conc(y) for y in x)
                return conc_num(x, node)
            vals = [conc(x) for x in keys]
            pick = min if which == 'min' else max
            try:
                i = vals.index(pick(vals))        # the first of equal extremes, as Python does
            except TypeError:
                raise AbsRaise(ExcVal('TypeError', ("'<' not supported between these items",)), node)
            return items[i]
        return f
    E['builtins.min'] = _minmax('min')
    E['builtins.max'] = _minmax('max')

    @ext('builtins.int')
    def _int(interp, args, kw, node):
        if not args:
            return 0
        v = args[0]
        base = args[1] if len(args) > 1 else kw.get('base')
        if set(kw) - {'base'}:
            raise AnalysisError('int() keyword not modelled', node)
        if base is not None:
            if not isinstance(v, (str, bytes)) or not isinstance(base, int):
                raise AbsRaise(ExcVal('TypeError', ("int() can't convert non-string with explicit base",)), node)
            try:
                return int(v, base)
            except ValueError:
                raise AbsRaise(ExcVal('ValueError', ('invalid literal for int() with this base',)), node)
        if isinstance(v, str):
            try:
                return int(v)
            except ValueError:
                raise AbsRaise(ExcVal('ValueError', ('invalid literal for int()',)), node)
        if v is None:
            raise AbsRaise(ExcVal('TypeError', ('int() argument must be a number, not NoneType',)), node)
        return int(math.trunc(conc_num(v, node)))

    @ext('builtins.float')
    def _float(interp, args, kw, node):
        if not args:
            return Fr(0)
        v = args[0]
        if isinstance(v, str):
            try:
                f = float(v)
            except ValueError:
                raise AbsRaise(ExcVal('ValueError', ('could not convert string to float',)), node)
            if f != f or f in (float('inf'), float('-inf')):
                return f
            return Fr(v) if _is_plain_decimal(v) else Fr(f)
        if v is None:
            raise AbsRaise(ExcVal('TypeError', ('float() argument must be a number, not NoneType',)), node)
        if isinstance(v, Sc) and not v.concrete():
            return v
        return conc_num(v, node)

    def _is_plain_decimal(s):
        try:
            Fr(s.strip())
            return True
        except (ValueError, ZeroDivisionError):
            return False

    @ext('builtins.str')
    def _str(interp, args, kw, node):
        if not args:
            return ''
        v = args[0]
        if isinstance(v, Instance):
            try:
                f = v.cls.lookup('__str__')
                return interp.call_function(f, [v], {}, node)
            except KeyError:
                pass
        if isinstance(v, PathVal):
            return v.s
        if isinstance(v, str):
            return v          # keeps ConfText (a string with a known meaning)
        return M.to_str(interp, v, node)

    @ext('builtins.repr')
    def _repr(interp, args, kw, node):
        return M.to_str(interp, args[0], node)

    @ext('builtins.bool')
    def _bool(interp, args, kw, node):
        t = interp.truth(args[0], node) if args else False
        return t if isinstance(t, bool) else mkbool(t)

    @ext('builtins.abs')
    def _abs(interp, args, kw, node):
        v = args[0]
        if isinstance(v, (int, Fr)):
            return abs(v)
        return M.call(interp, ExtRef('numpy.ma.abs_operator'), args, kw, node)

    @ext('builtins.any')
    def _any(interp, args, kw, node):
        items = interp.iterate(args[0], node)
        fs = []
        for x in items:
            t = interp.truth(x, node)
            if t is True:
                return True
            if t is not False:
                fs.append(t)
        return mkbool(X.f_or(*fs)) if fs else False

    @ext('builtins.all')
    def _all(interp, args, kw, node):
        items = interp.iterate(args[0], node)
        fs = []
        for x in items:
            t = interp.truth(x, node)
            if t is False:
                return False
            if t is not True:
                fs.append(t)
        return mkbool(X.f_and(*fs)) if fs else True

    @ext('builtins.sum')
    def _sum(interp, args, kw, node):
        items = interp.iterate(args[0], node)
        acc = args[1] if len(args) > 1 else 0
        for x in items:
            acc = M.binop(interp, 'Add', acc, x, node)
        return acc

    @ext('builtins.round')
    def _round(interp, args, kw, node):
        v = conc_num(args[0], node)
        nd = args[1] if len(args) > 1 else None
        r = round(v, nd) if nd is not None else round(v)
        return r

    @ext('builtins.list')
    def _list(interp, args, kw, node):
        return list(interp.iterate(args[0], node)) if args else []

    @ext('builtins.tuple')
    def _tuple(interp, args, kw, node):
        return tuple(interp.iterate(args[0], node)) if args else ()

    @ext('builtins.set')
    def _set(interp, args, kw, node):
        items = interp.iterate(args[0], node) if args else []
        try:
            return set(items)
        except TypeError:
            raise AnalysisError('set() of unhashable abstract values', node)

    @ext('builtins.dict')
    def _dict(interp, args, kw, node):
        d = {}
        if args:
            src = args[0]
            if isinstance(src, dict):
                d.update(src)
            else:
                for kv in interp.iterate(src, node):
                    k, v = interp.iterate(kv, node)
                    d[k] = v
        d.update(kw)
        return d

    @ext('collections.OrderedDict')
    def _odict(interp, args, kw, node):
        d = collections.OrderedDict()
        if args:
            src = args[0]
            if src is None:
                raise AbsRaise(ExcVal('TypeError', ("'NoneType' object is not iterable",)), node)
            if isinstance(src, dict):
                d.update(src)
            elif isinstance(src, (list, tuple, GenResult)):
                for kv in interp.iterate(src, node):
                    try:
                        k, v = interp.iterate(kv, node)
                    except (ValueError, AnalysisError):
                        raise AbsRaise(ExcVal('ValueError', ('dictionary update sequence element',)), node)
                    d[k] = v
            else:
                if isinstance(src, str):
                    if src:
                        raise AbsRaise(ExcVal('ValueError', ('dictionary update sequence element #0 has length 1; 2 is required',)), node)
                elif isinstance(src, (bool, int, Fr, float)):
                    raise AbsRaise(ExcVal('TypeError', (f"'{type(src).__name__}' object is not iterable",)), node)
                else:
                    raise AnalysisError(f'OrderedDict({type(src).__name__}) not modelled', node)
        d.update(kw)
        return d

    @ext('collections.defaultdict')
    def _ddict(interp, args, kw, node):
        return DefaultDict(args[0] if args else None)

    @ext('builtins.range')
    def _range(interp, args, kw, node):
        r = range(*[int(conc_num(a, node)) for a in args])
        if len(args) == 3 and abs(r.step) > 1:
            # block-wise processing: remember how many blocks the scenarios ever produced at this site (see Check.check_length_branches)
            from .interp import Interp
            rec = Interp.strides.setdefault(id(node), [node, abs(r.step), 0, interp.call_stack[-1] if interp.call_stack else '?'])
            rec[1] = max(rec[1], abs(r.step))
            rec[2] = max(rec[2], len(r))
        return r

    @ext('builtins.zip')
    def _zip(interp, args, kw, node):
        seqs = [interp.iterate(a, node) for a in args]
        if set(kw) - {'strict'}:
            raise AnalysisError('zip() keyword not modelled', node)
        if kw.get('strict') is True and len({len(x) for x in seqs}) > 1:
            raise AbsRaise(ExcVal('ValueError', ('zip() arguments have different lengths',)), node)
        return list(zip(*seqs))

    @ext('builtins.enumerate')
    def _enum(interp, args, kw, node):
        start = args[1] if len(args) > 1 else kw.get('start', 0)
        if not isinstance(start, int) or set(kw) - {'start'}:
            raise AnalysisError('enumerate(start=<not a plain int>)', node)
        return list(enumerate(interp.iterate(args[0], node), start))

    @ext('builtins.reversed')
    def _rev(interp, args, kw, node):
        return list(reversed(interp.iterate(args[0], node)))

    @ext('builtins.map')
    def _map(interp, args, kw, node):
        f = args[0]
        seqs = [interp.iterate(a, node) for a in args[1:]]
        return [interp.call(f, list(xs), {}, node) for xs in zip(*seqs)]

    @ext('builtins.filter')
    def _filter(interp, args, kw, node):
        f, seq = args
        out = []
        for x in interp.iterate(seq, node):
            t = interp.truth(interp.call(f, [x], {}, node) if f is not None else x, node)
            if t is True:
                out.append(x)
            elif t is not False:
                raise AnalysisError('filter on undecided predicate', node)
        return out

    @ext('builtins.slice')
    def _slice(interp, args, kw, node):
        return slice(*args)

    @ext('builtins.iter')
    def _iter(interp, args, kw, node):
        return IterVal(interp.iterate(args[0], node))

    @ext('builtins.next')
    def _next(interp, args, kw, node):
        it = args[0]
        from .interp import GenList
        if isinstance(it, GenList):
            if it.pos < len(it):
                it.pos += 1
                return it[it.pos - 1]
            if len(args) > 1:
                return args[1]
            raise AbsRaise(ExcVal('StopIteration'), node)
        if isinstance(it, GenResult):
            # a generator function's result: consumed from the front (a lazy one produces the item now)
            pos = getattr(it, 'pos', 0)
            if pos >= len(it.items) and hasattr(it, 'pull'):
                it.pull(node)
            if pos < len(it.items):
                it.pos = pos + 1
                return it.items[pos]
            if getattr(it, 'pending', None) is not None:
                raise it.pending
            if len(args) > 1:
                return args[1]
            raise AbsRaise(ExcVal('StopIteration'), node)
        if not isinstance(it, IterVal):
            if not isinstance(it, (list, tuple, dict, set, str, Vec)):
                raise AnalysisError(f'next() on {type(it).__name__} not modelled', node)
            raise AbsRaise(ExcVal('TypeError', (f"'{type(it).__name__}' object is not an iterator",)), node)
        if it.pos < len(it.items):
            it.pos += 1
            return it.items[it.pos - 1]
        if len(args) > 1:
            return args[1]
        raise AbsRaise(ExcVal('StopIteration'), node)

    @ext('builtins.print')
    def _print(interp, args, kw, node):
        return None

    @ext('builtins.callable')
    def _callable(interp, args, kw, node):
        return isinstance(args[0], (FuncVal, BoundMethod, ClassVal, ExtRef, ModelMethod, PyCallable))

    @ext('builtins.type')
    def _type(interp, args, kw, node):
        v = args[0]
        if isinstance(v, Instance):
            return v.cls
        if isinstance(v, (collections.OrderedDict,)):
            return ExtRef('collections.OrderedDict')
        if isinstance(v, Fr):
            return ExtRef('builtins.float')
        if isinstance(v, (list, tuple, dict, str, int, float, bool, type(None))) and type(v).__module__ == 'builtins':
            return ExtRef('builtins.' + type(v).__name__)
        if isinstance(v, Vec):
            kinds = {'nd': 'numpy.ndarray', 'ma': 'numpy.ma.MaskedArray', 'series': 'pandas.Series', 'index': 'pandas.Index', 'dtindex': 'pandas.DatetimeIndex'}
            return ExtRef(kinds[v.kind])
        if isinstance(v, Vec2):
            return ExtRef('numpy.ma.MaskedArray' if v.kind == 'ma' else 'numpy.ndarray')
        if isinstance(v, Sc):
            return ExtRef({'f8': 'numpy.float64', 'i8': 'numpy.int64', 'u1': 'numpy.uint8', 'b1': 'numpy.bool_', 'M8': 'numpy.datetime64', 'm8': 'numpy.timedelta64'}.get(v.dtype, 'numpy.generic'))
        if isinstance(v, ExcVal):
            return ExcType(v.tname)
        kind = getattr(v, 'abs_kind', None)
        if kind in ('xr.Dataset', 'xr.DataArray', 'DataFrame', 'GeometryCollection', 'datetime'):
            return ExtRef({'xr.Dataset': 'xarray.Dataset', 'xr.DataArray': 'xarray.DataArray', 'DataFrame': 'pandas.DataFrame',
                           'GeometryCollection': 'shapely.geometry.GeometryCollection', 'datetime': 'pandas.Timestamp'}[kind])
        if isinstance(v, (FuncVal, BoundMethod)):
            return ExtRef('types.FunctionType' if isinstance(v, FuncVal) else 'types.MethodType')
        raise AnalysisError(f'type() of {type(v).__name__} not modelled', node)

    @ext('builtins.hasattr')
    def _hasattr(interp, args, kw, node):
        obj, name = args
        try:
            interp.getattr(obj, name, node)
            return True
        except AbsRaise as r:
            if r.exc.tname == 'AttributeError':
                return False
            raise

    @ext('builtins.getattr')
    def _getattr(interp, args, kw, node):
        obj, name = args[0], args[1]
        if not isinstance(name, str):
            raise AnalysisError('getattr with non-constant name', node)
        try:
            return interp.getattr(obj, name, node)
        except AbsRaise as r:
            if r.exc.tname == 'AttributeError' and len(args) > 2:
                return args[2]
            raise

    @ext('builtins.setattr')
    def _setattr(interp, args, kw, node):
        obj, name, v = args
        interp.setattr(obj, name, v, node)

    @ext('builtins.isinstance')
    def _isinstance(interp, args, kw, node):
        v, c = args
        cs = c if isinstance(c, tuple) else (c,)
        return any(isinstance_abs(interp, v, x, node) for x in cs)

    def _pure_builtin(name):
        import builtins as _b
        fn = getattr(_b, name)

        def call(interp, args, kw, node):
            if not all(isinstance(x, (int, str, bytes)) and not isinstance(x, bool) or isinstance(x, bool) for x in list(args) + list(kw.values())):
                raise AnalysisError(f'{name}() of a value that is not a plain int / str not modelled', node)
            try:
                return fn(*args, **kw)
            except (TypeError, ValueError, OverflowError) as e:
                raise AbsRaise(ExcVal(type(e).__name__, (str(e),)), node)
        return call
    for _nm in ('ord', 'chr', 'hex', 'bin', 'oct', 'ascii'):
        E['builtins.' + _nm] = _pure_builtin(_nm)

    @ext('builtins.vars')
    def _vars(interp, args, kw, node):
        if len(args) == 1 and isinstance(args[0], Instance) and interp.class_slots(args[0].cls) is None:
            return args[0].attrs            # the instance dictionary itself (live)
        raise AnalysisError('vars() of this object not modelled', node)

    @ext('builtins.issubclass')
    def _issubclass(interp, args, kw, node):
        c, ps = args
        ps = ps if isinstance(ps, tuple) else (ps,)
        for p_ in ps:
            if isinstance(c, ClassVal) and isinstance(p_, ClassVal):
                if c.is_subclass(p_):
                    return True
            elif isinstance(c, ExcType) and isinstance(p_, ExcType):
                if interp_exc_isa(c.tname, p_.tname):
                    return True
            elif isinstance(c, ClassVal) and isinstance(p_, ExcType):
                if interp.class_is_exception(c) and interp_exc_isa(interp.exception_base_name(c), p_.tname):
                    return True
            elif isinstance(c, ExtRef) and isinstance(p_, ExtRef) and c.path == p_.path:
                return True
            elif isinstance(p_, ExtRef) and p_.path == 'builtins.object':
                return True
            else:
                raise AnalysisError(f'issubclass({c!r}, {p_!r}) not modelled', node)
        return False

    @ext('builtins.super')
    def _super(interp, args, kw, node):
        # zero-argument super(): find self in the calling frame
        raise AnalysisError('super() handled by interpreter hook', node)

    @ext('builtins.dict.fromkeys')
    def _fromkeys(interp, args, kw, node):
        items = list(interp.iterate(args[0], node))
        value = args[1] if len(args) > 1 else None
        try:
            return dict.fromkeys(items, value)      # hashing / equality of repository objects goes through their own __hash__ / __eq__
        except TypeError as e:
            raise AbsRaise(ExcVal('TypeError', (str(e),)), node)

    E['collections.OrderedDict.fromkeys'] = _fromkeys

    @ext('builtins.id')
    def _id(interp, args, kw, node):
        return id(args[0])

    @ext('builtins.hash')
    def _hash(interp, args, kw, node):
        v = args[0]
        if isinstance(v, Instance):
            try:
                f = v.cls.lookup('__hash__')
                return interp.call_function(f, [v], {}, node)
            except KeyError:
                try:
                    return hash(v)       # dataclass / NamedTuple field hashing, identity otherwise (Instance.__hash__)
                except TypeError as e:
                    raise AbsRaise(ExcVal('TypeError', (str(e),)), node)
        try:
            return hash(v)
        except TypeError:
            raise AbsRaise(ExcVal('TypeError', ('unhashable',)), node)

    # ---- isinstance -------------------------------------------------------------------------
    PYTYPES = {
        'builtins.list': list, 'builtins.tuple': tuple, 'builtins.dict': dict, 'builtins.str': str,
        'builtins.int': int, 'builtins.float': (float, Fr), 'builtins.bool': bool, 'builtins.set': set,
        'collections.OrderedDict': collections.OrderedDict,
        'collections.abc.Mapping': collections.abc.Mapping,
        'typing.Mapping': collections.abc.Mapping,
    }

    def isinstance_abs(interp, v, c, node):
        if isinstance(c, ClassVal):
            return isinstance(v, Instance) and v.cls.is_subclass(c)
        if isinstance(c, type):
            return isinstance(v, c)
        if isinstance(c, ExcType):
            return isinstance(v, ExcVal) and interp_exc_isa(v.tname, c.tname)
        if isinstance(c, ExtRef):
            p = c.path
            if p in PYTYPES:
                if p == 'builtins.int' and isinstance(v, bool):
                    return True
                if p == 'builtins.dict' and isinstance(v, DefaultDict):
                    return True
                if p in ('collections.abc.Mapping', 'typing.Mapping', 'builtins.dict') and isinstance(v, Instance):
                    return M.is_dict_subclass(v.cls) and hasattr(v, 'dict_data')
                if isinstance(v, Sc) and p in ('builtins.float', 'builtins.int', 'builtins.bool'):
                    # numpy scalars: only np.float64 is a Python float subclass; np.int64 / np.int32 / np.float32 / np.bool_ are neither int nor float
                    return p == 'builtins.float' and v.dtype == 'f8' and not getattr(v, 'narrow', False)
                return isinstance(v, PYTYPES[p]) and not (p == 'builtins.int' and isinstance(v, Fr))
            if p == 'numpy.ndarray':
                return isinstance(v, (Vec, Vec2)) and getattr(v, 'kind', '') in ('nd', 'ma')
            if p in ('numpy.ma.MaskedArray', 'numpy.ma.core.MaskedArray'):
                return isinstance(v, (Vec, Vec2)) and v.kind == 'ma'
            if p == 'numpy.generic':
                return isinstance(v, Sc)
            if p in ('numpy.integer', 'numpy.signedinteger', 'numpy.int64', 'numpy.int_', 'numpy.intp'):
                return isinstance(v, Sc) and v.dtype in ('i8', 'u1')
            if p in ('numpy.floating', 'numpy.float64', 'numpy.double', 'numpy.inexact'):
                return isinstance(v, Sc) and v.dtype == 'f8' and (p in ('numpy.floating', 'numpy.inexact') or not getattr(v, 'narrow', False))
            if p in ('numpy.float32',):
                return isinstance(v, Sc) and v.dtype == 'f8' and getattr(v, 'narrow', False)
            if p == 'numpy.number':
                return isinstance(v, Sc) and v.dtype in ('i8', 'u1', 'f8')
            if p in ('numpy.bool_', 'numpy.bool'):
                return isinstance(v, Sc) and v.dtype == 'b1'
            if p in ('numpy.datetime64', 'numpy.timedelta64'):
                return isinstance(v, Sc) and v.dtype == ('M8' if p.endswith('datetime64') else 'm8')
            if p in ('pandas.Timestamp',):
                return getattr(v, 'abs_kind', None) == 'datetime' and type(v).__name__ == 'TS' and not getattr(v, 'py', False)
            if p in ('pandas.Timedelta', 'datetime.timedelta'):
                return isinstance(v, Sc) and v.dtype == 'm8'
            if p == 'pandas.Series':
                return isinstance(v, Vec) and v.kind == 'series'
            if p == 'pandas.Index':
                return isinstance(v, Vec) and v.kind in ('index', 'dtindex')
            if p == 'pandas.DataFrame':
                return getattr(v, 'abs_kind', None) == 'DataFrame'
            if p in ('numbers.Number', 'numbers.Integral'):
                return (isinstance(v, (int, Fr)) and (p == 'numbers.Number' or getattr(v, 'denominator', 1) == 1 and not isinstance(v, Fr))) or (p == 'numbers.Number' and isinstance(v, (float, Sc)))
            if p in ('pandas.DatetimeIndex',):
                return isinstance(v, Vec) and v.kind == 'dtindex'
            if p == 'pathlib.Path':
                return isinstance(v, PathVal)
            if p == 'io.StringIO':
                return isinstance(v, StringIOVal)
            if p in ('xarray.Dataset', 'xr.Dataset'):
                return getattr(v, 'abs_kind', None) == 'xr.Dataset'
            if p in ('shapely.geometry.GeometryCollection',):
                return getattr(v, 'abs_kind', None) == 'GeometryCollection'
            if p in ('numbers.Real',):
                return isinstance(v, (int, float, Fr)) or (isinstance(v, Sc))
            if p in ('datetime.datetime', 'datetime.date'):
                return getattr(v, 'abs_kind', None) == 'datetime'
            if p in ('h5netcdf.legacyapi.Dataset',):
                return getattr(v, 'abs_kind', None) == 'nc4.Dataset'
            raise AnalysisError(f'isinstance against unmodelled type {p}', node)
        raise AnalysisError(f'isinstance against {c!r}', node)

    def interp_exc_isa(a, b):
        from .interp import exc_isa
        return exc_isa(a, b)

    M.isinstance_abs = isinstance_abs

    # ---- collections.namedtuple ---------------------------------------------------------------
    @ext('collections.namedtuple')
    def _namedtuple(interp, args, kw, node):
        name, fields = args[0], args[1]
        defaults = kw.get('defaults')
        try:
            return collections.namedtuple(name, fields, defaults=defaults)
        except Exception as e:
            raise AnalysisError(f'namedtuple: {e}', node)

    # ---- warnings / logging -----------------------------------------------------------------
    @ext('datetime.timedelta')
    def _timedelta(interp, args, kw, node):
        """stdlib fact: timedelta accepts Python ints / floats (np.float64 is a float) and rejects other numpy scalars with TypeError"""
        names = ['days', 'seconds', 'microseconds', 'milliseconds', 'minutes', 'hours', 'weeks']
        unit = {'days': 86400, 'seconds': 1, 'microseconds': Fr(1, 10 ** 6), 'milliseconds': Fr(1, 1000), 'minutes': 60, 'hours': 3600, 'weeks': 604800}
        vals = dict(zip(names, args))
        vals.update(kw)
        total = Fr(0)
        for k, v in vals.items():
            if k not in unit:
                raise AbsRaise(ExcVal('TypeError', (f"'{k}' is an invalid keyword argument for timedelta",)), node)
            if isinstance(v, Sc) and (v.dtype != 'f8' or getattr(v, 'narrow', False)):
                raise AbsRaise(ExcVal('TypeError', (f'unsupported type for timedelta {k} component: numpy scalar',)), node)
            total += conc_num(v, node) * unit[k]
        # rounded to microseconds like the real type
        total = Fr(round(total * 10 ** 6), 10 ** 6)
        return Sc(X.num(total), 'm8', 'us')

    @ext('weakref.ref')
    def _weakref(interp, args, kw, node):
        obj = args[0]
        if isinstance(obj, (int, str, tuple, list, dict, Fr, float)) or obj is None:
            raise AbsRaise(ExcVal('TypeError', (f"cannot create weak reference to '{type(obj).__name__}' object",)), node)
        return PyCallable(lambda it, a, k, n, _o=obj: _o, 'weakref')       # the referent stays alive for the duration of the analysed call

    @ext('weakref.finalize')
    def _finalize(interp, args, kw, node):
        return PyCallable(lambda it, a, k, n: None, 'finalize')

    @ext('contextlib.suppress')
    def _suppress(interp, args, kw, node):
        cm = ContextMgr(None)
        cm.suppresses = list(args)
        return cm

    @ext('contextlib.nullcontext')
    def _nullcontext(interp, args, kw, node):
        return ContextMgr(args[0] if args else None)

    @ext('warnings.catch_warnings')
    def _cw(interp, args, kw, node):
        return ContextMgr()

    @ext('warnings.simplefilter')
    def _sf(interp, args, kw, node):
        return None

    @ext('warnings.warn')
    def _warn(interp, args, kw, node):
        interp.event('warn', msg=str(args[0]) if args else '', node=node)

    @ext('logging.getLogger')
    def _getlogger(interp, args, kw, node):
        return LOGGER

    @ext('copy.deepcopy')
    def _deepcopy(interp, args, kw, node):
        return deep_copy(args[0])

    @ext('copy.copy')
    def _copy(interp, args, kw, node):
        v = args[0]
        if isinstance(v, list):
            return list(v)
        if isinstance(v, dict):
            return type(v)(v)
        if isinstance(v, Vec):
            return v.copy()
        return v

    def deep_copy(v):
        if isinstance(v, Vec):
            return v.copy()
        if isinstance(v, list):
            return [deep_copy(x) for x in v]
        if isinstance(v, tuple) and not hasattr(v, '_fields'):
            return tuple(deep_copy(x) for x in v)
        if isinstance(v, collections.OrderedDict):
            return collections.OrderedDict((k, deep_copy(x)) for k, x in v.items())
        if isinstance(v, dict):
            return {k: deep_copy(x) for k, x in v.items()}
        return v

    @ext('functools.partial')
    def _partial(interp, args, kw, node):
        return PartialVal(args[0], tuple(args[1:]), dict(kw))

    @ext('dataclasses.field')
    def _field(interp, args, kw, node):
        return FieldSpec(default=kw.get('default'), factory=kw.get('default_factory'))

    @ext('contextlib.contextmanager')
    def _contextmanager(interp, args, kw, node):
        from .interp import GenContext, LazyGen
        fn = args[0]
        if not isinstance(fn, FuncVal) or not interp.is_generator(fn.node):
            raise AnalysisError('contextlib.contextmanager on something that is not a generator function of the repository', node)

        def make(it, a, k, n):
            g = it.call(fn, list(a), dict(k), n)
            if not isinstance(g, LazyGen):
                raise AnalysisError('contextlib.contextmanager needs lazy generators (VERIF_EAGER_GEN is set)', n)
            return GenContext(g)
        return PyCallable(make, f'contextmanager({fn.qualname})')

    # typing helpers that do nothing at run time
    E['typing.cast'] = lambda it, a, k, n: (a[1] if len(a) > 1 else k.get('val'))
    E['typing.NewType'] = lambda it, a, k, n: PyCallable(lambda it2, a2, k2, n2: a2[0], f'NewType({a[0]})')
    E['typing.TypeVar'] = lambda it, a, k, n: ExtRef('typing.TypeVar')
    for _nm in ('typing.final', 'typing.overload', 'typing.no_type_check', 'typing.runtime_checkable'):
        E[_nm] = lambda it, a, k, n: a[0]

    @ext('types.MappingProxyType')
    def _mapping_proxy(interp, args, kw, node):
        # a read-only live view of the mapping: reads go to the mapping itself (a write through the proxy, a TypeError in Python, is not modelled)
        if not isinstance(args[0], dict):
            raise AbsRaise(ExcVal('TypeError', ('mappingproxy() argument must be a mapping',)), node)
        return args[0]

    @ext('functools.total_ordering')
    def _total_ordering(interp, args, kw, node):
        raise AnalysisError('functools.total_ordering not modelled', node)

    @ext('functools.singledispatch')
    def _singledispatch(interp, args, kw, node):
        return Dispatcher(args[0])

    @ext('enum.auto')
    def _enum_auto(interp, args, kw, node):
        return ('enum-auto',)

    @ext('dataclasses.replace')
    def _dc_replace(interp, args, kw, node):
        # stdlib fact: replace(obj, **changes) builds a new instance through the class (so __post_init__ runs), fields not named keep their value
        obj = args[0]
        if not isinstance(obj, Instance) or obj.cls.record_fields is None or getattr(obj.cls, 'is_namedtuple', False):
            raise AnalysisError('dataclasses.replace on something that is not an instance of a repository dataclass', node)
        names = [n for n, _ in obj.cls.record_fields]
        for k in kw:
            if k not in names:
                raise AbsRaise(ExcVal('TypeError', (f"__init__() got an unexpected keyword argument '{k}'",)), node)
        vals = {n: obj.attrs[n] for n in names if n in obj.attrs}
        vals.update(kw)
        return interp.instantiate(obj.cls, [], vals, node)

    @ext('dataclasses.asdict')
    def _dc_asdict(interp, args, kw, node):
        obj = args[0]
        if not isinstance(obj, Instance) or obj.cls.record_fields is None:
            raise AnalysisError('dataclasses.asdict on something that is not an instance of a repository dataclass', node)
        for n, _ in obj.cls.record_fields:
            if isinstance(obj.attrs.get(n), (Instance, list, dict, tuple)):
                raise AnalysisError('dataclasses.asdict with nested containers (deep copy) not modelled', node)
        return {n: obj.attrs[n] for n, _ in obj.cls.record_fields}

    @ext('dataclasses.fields')
    def _dc_fields(interp, args, kw, node):
        raise AnalysisError('dataclasses.fields not modelled', node)

    @ext('inspect.signature')
    def _signature(interp, args, kw, node):
        f = args[0]
        if isinstance(f, BoundMethod):
            f = f.func
        if not isinstance(f, FuncVal):
            raise AnalysisError('signature() of non-repo function', node)
        while kw.get('follow_wrapped', True) and isinstance(f.attrs.get('__wrapped__'), FuncVal):
            f = f.attrs['__wrapped__']          # stdlib fact: signature() follows __wrapped__ (functools.wraps)
        return SigVal(f)

    def _update_wrapper(wrapper, wrapped, node):
        """functools.update_wrapper: name / module / qualname / doc and the attribute dict are copied, __wrapped__ is set"""
        if not isinstance(wrapper, FuncVal):
            raise AnalysisError('functools.wraps on a non-function', node)
        if isinstance(wrapped, FuncVal):
            wrapper.attrs.update(wrapped.attrs)
            wrapper.attrs['__name__'] = wrapped.attrs.get('__name__', wrapped.name)
            wrapper.attrs['__module__'] = wrapped.attrs.get('__module__', wrapped.module.name)
            wrapper.attrs['__qualname__'] = wrapped.attrs.get('__qualname__', wrapped.qualname)
            import ast as _ast
            wrapper.attrs['__doc__'] = wrapped.attrs.get('__doc__', _ast.get_docstring(wrapped.node) if isinstance(getattr(wrapped.node, 'body', None), list) else None)
        wrapper.attrs['__wrapped__'] = wrapped
        return wrapper
    E['functools.update_wrapper'] = lambda it, a, k, n: _update_wrapper(a[0], a[1], n)
    E['functools.wraps'] = lambda it, a, k, n: PyCallable(lambda it2, a2, k2, n2, _w=a[0]: _update_wrapper(a2[0], _w, n2), 'wraps(...)')

    E['inspect.isfunction'] = lambda it, a, k, n: isinstance(a[0], FuncVal)
    E['inspect.ismethod'] = lambda it, a, k, n: isinstance(a[0], BoundMethod)
    E['inspect.isclass'] = lambda it, a, k, n: isinstance(a[0], ClassVal) or (isinstance(a[0], ExtRef) and a[0].path.split('.')[-1][:1].isupper())
    E['inspect.ismodule'] = lambda it, a, k, n: type(a[0]).__name__ == 'ModuleNS' or (isinstance(a[0], ExtRef) and a[0].path in ('numpy', 'pandas', 'logging', 'warnings'))

    @ext('inspect.unwrap')
    def _unwrap(interp, args, kw, node):
        f = args[0]
        seen = 0
        while isinstance(f, FuncVal) and '__wrapped__' in f.attrs and seen < 50:
            f = f.attrs['__wrapped__']
            seen += 1
        return f

    @ext('importlib.import_module')
    def _import_module(interp, args, kw, node):
        name = args[0]
        if not isinstance(name, str):
            raise AnalysisError('import_module of non-constant', node)
        if name.split('.')[0] == 'ioos_qc':
            if name in interp.repo.modules:
                return interp.module(name)
            raise AbsRaise(ExcVal('ModuleNotFoundError', (name,)), node)
        return ExtRef(name)

    @ext('importlib.util.find_spec')
    def _find_spec(interp, args, kw, node):
        """stdlib fact: find_spec imports the parent of a dotted name; a parent that is missing or is not a package raises
        ModuleNotFoundError, a missing leaf under an existing package gives None"""
        name = args[0]
        if not isinstance(name, str):
            raise AnalysisError('find_spec of non-constant', node)
        if name.split('.')[0] != 'ioos_qc':
            return ExtRef(name + '.__spec__')
        if name in interp.repo.modules:
            return ExtRef(name + '.__spec__')
        parent = name.rsplit('.', 1)[0]
        is_pkg = parent in interp.repo.modules and str(interp.repo.modules[parent].path).endswith('__init__.py')
        if not is_pkg:
            raise AbsRaise(ExcVal('ModuleNotFoundError', (f"No module named {parent!r} (or it is not a package)",)), node)
        return None

    @ext('pathlib.Path')
    def _path(interp, args, kw, node):
        v = args[0]
        if isinstance(v, PathVal):
            return v
        return PathVal(v if isinstance(v, str) else str(v))

    @ext('io.StringIO')
    def _sio(interp, args, kw, node):
        return StringIOVal(args[0] if args else '')

    for _nm, _op in (('add', 'Add'), ('sub', 'Sub'), ('mul', 'Mult'), ('truediv', 'Div'), ('pow', 'Pow'), ('floordiv', 'FloorDiv'), ('mod', 'Mod')):
        E['operator.' + _nm] = (lambda it, a, k, n, _op=_op: M.binop(it, _op, a[0], a[1], n))
    E['operator.neg'] = lambda it, a, k, n: M.unaryop(it, 'USub', a[0], n)

    @ext('math.floor')
    def _floor(interp, args, kw, node):
        return int(math.floor(conc_num(args[0], node)))

    # ---- methods on python containers are dispatched in models_np.getattr_model ---------------


class IterVal:
    def __init__(self, items):
        self.items = list(items)
        self.pos = 0

    def abs_iter(self):
        rest = self.items[self.pos:]
        self.pos = len(self.items)
        return rest


class PartialVal:
    def __init__(self, func, args, keywords):
        self.func = func
        self.args = args
        self.keywords = keywords


class SigVal:
    def __init__(self, fv):
        self.fv = fv


class ParamVal:
    POSITIONAL_OR_KEYWORD = 'POSITIONAL_OR_KEYWORD'
    POSITIONAL_ONLY = 'POSITIONAL_ONLY'
    VAR_POSITIONAL = 'VAR_POSITIONAL'
    VAR_KEYWORD = 'VAR_KEYWORD'
    KEYWORD_ONLY = 'KEYWORD_ONLY'

    def __init__(self, name, kind):
        self.name = name
        self.kind = kind


class PathVal:
    def __init__(self, s):
        self.s = s

    def __repr__(self):
        return f'Path({self.s!r})'


class StringIOVal:
    def __init__(self, s):
        self.s = s


class DefaultDict(dict):
    def __init__(self, factory):
        super().__init__()
        self.factory = factory


class Logger:
    def __repr__(self):
        return '<logger>'


LOGGER = Logger()
