"""Shared harness for the QC-test properties: scenario skeletons, running, generic comparisons."""
import itertools
from fractions import Fraction as Fr

from . import expr as X
from .cells import TableResult, compare_position, flags_of
from .repo import AnalysisError
from .scen import Outcome, data_input, time_input, x
from .vec import Vec

G, U, S, F, M = 1, 2, 3, 4, 9
FLAGSET = {G, U, S, F, M}
FLAGNAME = {1: 'GOOD', 2: 'UNKNOWN', 3: 'SUSPECT', 4: 'FAIL', 9: 'MISSING'}

MODS = {
    'location_test': 'ioos_qc.qartod', 'gross_range_test': 'ioos_qc.qartod', 'climatology_test': 'ioos_qc.qartod',
    'spike_test': 'ioos_qc.qartod', 'rate_of_change_test': 'ioos_qc.qartod', 'flat_line_test': 'ioos_qc.qartod',
    'attenuated_signal_test': 'ioos_qc.qartod', 'density_inversion_test': 'ioos_qc.qartod',
    'pressure_increasing_test': 'ioos_qc.argo', 'speed_test': 'ioos_qc.argo', 'valid_range_test': 'ioos_qc.axds',
}


def patterns(n, alphabet='pm'):
    return [''.join(p) for p in itertools.product(alphabet, repeat=n)]


class Case:
    """one scenario skeleton"""

    def __init__(self, test, args=None, kwargs=None, n=0, pat=None, meta=None, label=None, features=None,
                 owned=None, parse_time=None):
        self.test = test
        self.args = args or []
        self.kwargs = kwargs or {}
        self.n = n
        self.pat = pat or {}          # input name -> presence pattern
        self.meta = meta or {}
        self.features = features
        self.parse_time = parse_time
        self.owned = owned or {}
        self.label = label or self.describe()

    def describe(self):
        kws = ', '.join(f'{k}={_short(v)}' for k, v in self.kwargs.items() if k not in self.pat)
        pats = ', '.join(f'{k}:{v!r}' for k, v in self.pat.items())
        return f'{self.test}({pats}; {kws})'


def _short(v):
    if isinstance(v, Fr):
        return str(v.numerator) if v.denominator == 1 else str(float(v))
    if isinstance(v, (list, tuple)):
        return '[' + ','.join(_short(a) for a in v) + ']'
    if isinstance(v, Vec):
        return f'<{v.kind}:{len(v)}>'
    return repr(v)


def run_case(ck, case):
    fn = ck.runner.function(MODS.get(case.test, case.meta.get('module')), case.meta.get('qual', case.test))
    owned = dict(case.owned)
    for k, v in case.kwargs.items():
        if isinstance(v, (list, dict)):
            owned[k] = v
            if isinstance(v, list):
                for j, item in enumerate(v):
                    if isinstance(item, (dict, list)):
                        owned[f'{k}[{j}]'] = item
    for i, v in enumerate(case.args):
        if isinstance(v, (list, dict)):
            owned[f'arg{i}'] = v
    out = ck.runner.run(fn, case.args, case.kwargs, time_features=case.features, owned=owned, parse_time=case.parse_time)
    ck.count(1, distinct=('case', case.test, case.label, out.kind, None if out.kind == 'return' else out.exc.tname))
    return out


def fn_key(case):
    return f"{MODS.get(case.test, case.meta.get('module', '?'))}.{case.meta.get('qual', case.test)}"


def expect_raise(ck, rule, case, out, want, why):
    """want: tuple of acceptable exception type names, or None for 'must return'"""
    if want:
        if out.kind == 'raise' and out.exc.tname in want:
            ck.hold(rule, f'{case.label} -> {out.exc.tname}')
            return True
        got = out.exc.tname if out.kind == 'raise' else 'a result'
        ck.violate(rule, f'{fn_key(case)}:{case.meta.get("class", "reject")}',
                   f'{case.test}: {why}: expected {"/".join(want)}, the code gives {got}',
                   dict(case=case.label))
        return False
    if out.kind == 'raise':
        ck.violate(rule, f'{fn_key(case)}:raises-{out.exc.tname}:{case.meta.get("class", "valid-input")}',
                   f'{case.test} raises {out.exc.tname}{out.exc.args} on valid input {case.label}',
                   dict(case=case.label, site=_site(out)))
        return False
    return True


def _site(out):
    n = out.node
    if n is None:
        return None
    from .repo import unparse
    return f'line {getattr(n, "lineno", "?")}: {unparse(n, 100)}'


def result_vec(ck, rule, case, out):
    v = out.value
    if not isinstance(v, Vec):
        ck.violate(rule, f'{fn_key(case)}:result-type', f'{case.test} returns {type(v).__name__}, not an array', dict(case=case.label))
        return None
    return v


def compare_flags(ck, rule, case, vec, spec_pos, extra=None):
    """spec_pos(p) -> (spec_quantities, allowed_fn) or None to skip the position"""
    res = TableResult()
    els = vec.els()
    for p, e in enumerate(els):
        sp = spec_pos(p)
        if sp is None:
            continue
        qs, allowed = sp
        compare_position(e.d, qs, allowed, ck.rng, res, f'{case.label} @ {p}')
    ck.evaluations += res.cells
    for d in res.distinct:
        ck.distinct.add(d)
    for s in res.samples:
        ck.sample(s)
    if res.unrealised:
        ck.notes.append(f'{case.label}: {res.unrealised} disagreeing cells are not realisable by any data values (equivalent spelling)')
    return res


def class_of_mismatch(m):
    """stable key fragment for a table mismatch: which flags instead of which"""
    return f"got={'/'.join(m['got'])}:allowed={'/'.join(m['allowed'])}"


def table_rule(ck, rule, case, spec, scope='present'):
    """run one scenario and compare the resulting order-cell tables with the spec.

    scope: 'present' - positions whose tested observation is missing are left to C02
           'all'     - every position
           'missing' - C02's projection: missing positions exactly; at present positions only the use of MISSING
    """
    out = run_case(ck, case)
    if not expect_raise(ck, rule + ('.reject' if spec.rejects else '.total'), case, out, spec.rejects,
                        'invalid parameters must be rejected'):
        return None
    if spec.rejects:
        return None
    vec = result_vec(ck, rule, case, out)
    if vec is None:
        return None
    if len(vec) != case.n:
        ck.violate(rule + '.shape', f'{fn_key(case)}:length', f'{case.test} returns {len(vec)} flags for {case.n} inputs',
                   dict(case=case.label))
        return None

    def pos(p):
        missing = spec.is_missing(p) if hasattr(spec, 'is_missing') else case.pat.get('inp', 'p' * case.n)[p] == 'm'
        if scope == 'present' and missing:
            return None
        qs, allowed = spec.pos(p)
        if scope == 'missing' and not missing:
            return qs, (lambda cell: allowed(cell) | {G, U, S, F})
        return qs, allowed
    res = compare_flags(ck, rule, case, vec, pos)
    for m in res.mismatches:
        ck.violate(rule + '.table', f'{fn_key(case)}:{case.meta.get("class", "")}:{class_of_mismatch(m)}',
                   f"{case.label}: position {m['where'].rsplit('@', 1)[-1].strip()} cell {m['cell']} gives "
                   f"{[FLAGNAME.get(int(g), g) if str(g).isdigit() else g for g in m['got']]}, the property allows "
                   f"{[FLAGNAME.get(int(g), g) for g in m['allowed']]}" + (f"; witness {m['witness']}" if m.get('witness') else ''), m)
    if not res.mismatches:
        ck.hold(rule + '.table', case.label)
    return out
