"""Shared harness for the QC-test properties: scenario skeletons, running, generic comparisons."""
import itertools
import os
from fractions import Fraction as Fr

from . import expr as X
from .cells import TableResult, compare_position, flags_of
from .repo import AnalysisError
from .scen import Outcome, data_input, time_input, x
from .vec import Vec

G, U, S, F, M = 1, 2, 3, 4, 9
FLAGSET = {G, U, S, F, M}
FLAGNAME = {1: 'GOOD', 2: 'UNKNOWN', 3: 'SUSPECT', 4: 'FAIL', 9: 'MISSING'}

MODS = {
    'location_test': 'ioos_qc.qartod', 'gross_range_test': 'ioos_qc.qartod', 'climatology_test': 'ioos_qc.qartod',
    'spike_test': 'ioos_qc.qartod', 'rate_of_change_test': 'ioos_qc.qartod', 'flat_line_test': 'ioos_qc.qartod',
    'attenuated_signal_test': 'ioos_qc.qartod', 'density_inversion_test': 'ioos_qc.qartod',
    'pressure_increasing_test': 'ioos_qc.argo', 'speed_test': 'ioos_qc.argo', 'valid_range_test': 'ioos_qc.axds',
}


def patterns(n, alphabet='pm'):
    return [''.join(p) for p in itertools.product(alphabet, repeat=n)]


class Case:
    """one scenario skeleton"""

    def __init__(self, test, args=None, kwargs=None, n=0, pat=None, meta=None, label=None, features=None,
                 owned=None, parse_time=None):
        self.test = test
        self.args = args or []
        self.kwargs = kwargs or {}
        self.n = n
        self.pat = pat or {}          # input name -> presence pattern
        self.meta = meta or {}
        self.features = features
        self.parse_time = parse_time
        self.owned = owned or {}
        self.label = label or self.describe()

    def describe(self):
        kws = ', '.join(f'{k}={_short(v)}' for k, v in self.kwargs.items() if k not in self.pat)
        pats = ', '.join(f'{k}:{v!r}' for k, v in self.pat.items())
        return f'{self.test}({pats}; {kws})'


def _short(v):
    if isinstance(v, Fr):
        return str(v.numerator) if v.denominator == 1 else str(float(v))
    if isinstance(v, (list, tuple)):
        return '[' + ','.join(_short(a) for a in v) + ']'
    if isinstance(v, Vec):
        return f'<{v.kind}:{len(v)}>'
    return repr(v)


def run_case(ck, case, allow_refused=False):
    fn = ck.runner.function(MODS.get(case.test, case.meta.get('module')), case.meta.get('qual', case.test))
    owned = dict(case.owned)
    for k, v in case.kwargs.items():
        if isinstance(v, (list, dict)):
            owned[k] = v
            if isinstance(v, list):
                for j, item in enumerate(v):
                    if isinstance(item, (dict, list)):
                        owned[f'{k}[{j}]'] = item
    for i, v in enumerate(case.args):
        if isinstance(v, (list, dict)):
            owned[f'arg{i}'] = v
    try:
        out = ck.runner.run(fn, case.args, case.kwargs, time_features=case.features, owned=owned, parse_time=case.parse_time)
    except AnalysisError as e:
        if not allow_refused or os.environ.get('VERIF_NO_CONCRETE') or not atoms_in([case.args, case.kwargs], set()):
            raise
        out = Outcome('refused')
        out.reason = str(e)[:200]
        out.error = e
    out.case = case
    ck.count(1, distinct=('case', case.test, case.label, out.kind, getattr(getattr(out, 'exc', None), 'tname', None)))
    return out


def fn_key(case):
    return f"{MODS.get(case.test, case.meta.get('module', '?'))}.{case.meta.get('qual', case.test)}"


def expect_raise(ck, rule, case, out, want, why):
    """want: tuple of acceptable exception type names, or None for 'must return'"""
    if want:
        if out.kind == 'raise' and out.exc.tname in want:
            ck.hold(rule, f'{case.label} -> {out.exc.tname}')
            return True
        got = out.exc.tname if out.kind == 'raise' else 'a result'
        ck.violate(rule, f'{fn_key(case)}:{case.meta.get("class", "reject")}',
                   f'{case.test}: {why}: expected {"/".join(want)}, the code gives {got}',
                   dict(case=case.label))
        return False
    if out.kind == 'raise':
        ck.violate(rule, f'{fn_key(case)}:raises-{out.exc.tname}:{case.meta.get("class", "valid-input")}',
                   f'{case.test} raises {out.exc.tname}{out.exc.args} on valid input {case.label}',
                   dict(case=case.label, site=_site(out)))
        return False
    return True


def _site(out):
    n = out.node
    if n is None:
        return None
    from .repo import unparse
    return f'line {getattr(n, "lineno", "?")}: {unparse(n, 100)}'


def numpy_scalar_params(kw, kind):
    """the same parameters handed over as numpy scalars (as they come out of an array, an xarray attribute, a DataFrame cell):
    kind 'int64' turns whole numbers into np.int64, 'float32' every number into np.float32, 'float64' into np.float64"""
    from .vec import Sc

    def conv(v):
        if isinstance(v, bool) or v is None or isinstance(v, str):
            return v
        if isinstance(v, (int, Fr)):
            if kind == 'int64':
                return Sc(X.num(v), 'i8') if Fr(v).denominator == 1 else Sc(X.num(v), 'f8')
            return Sc(X.num(v), 'f8', narrow=(kind == 'float32'))
        if isinstance(v, tuple):
            return tuple(conv(x) for x in v)
        if isinstance(v, list):
            return [conv(x) for x in v]
        return v
    return {k: (conv(v) if k not in ('method', 'check_type', 'config') else v) for k, v in kw.items()}


def result_vec(ck, rule, case, out):
    v = out.value
    if not isinstance(v, Vec):
        ck.violate(rule, f'{fn_key(case)}:result-type', f'{case.test} returns {type(v).__name__}, not an array', dict(case=case.label))
        return None
    start = getattr(out, 'start_serial', None)
    if start is not None and getattr(v.back, 'serial', start + 1) <= start:
        # the array handed back existed before the call: it is an input, or state kept between calls (a cache) - the caller editing one result
        # (or the library reusing it) changes the flags another call reported
        what = f'the caller-owned input `{v.back.owner}`' if v.back.owner else 'memory kept from an earlier call'
        ck.violate(rule + '.fresh', f'{fn_key(case)}:result-aliases-earlier-state', f'{case.label}: the returned flag array is {what}, not a new array', dict(case=case.label))
    return v


def numbers_in(v, acc):
    """every number inside a (nested) parameter value"""
    if isinstance(v, bool) or v is None or isinstance(v, str):
        return acc
    if isinstance(v, (int, Fr)):
        acc.add(Fr(v))
    elif isinstance(v, float):
        if v == v and v not in (float('inf'), float('-inf')):
            acc.add(Fr(v))
    elif isinstance(v, dict):
        for x in v.values():
            numbers_in(x, acc)
    elif isinstance(v, (list, tuple)):
        for x in v:
            numbers_in(x, acc)
    else:
        d = getattr(v, 'd', None)
        if isinstance(d, tuple) and d and d[0] == 'num':
            acc.add(d[1])
    return acc


def signature_numbers(ck, case):
    """numeric literals that the test's module *declares*: defaults in signatures (e.g. the whole-globe bounding box of location_test, wherever a
    decorator or helper keeps them) and module- / class-level constants.  Numbers computed inside function bodies are not among them."""
    import ast
    modname = MODS.get(case.test, case.meta.get('module'))
    cache = ck.__dict__.setdefault('_declared_numbers', {})
    if modname in cache:
        return cache[modname]
    acc = set()
    tree = ck.runner.interp.repo.module(modname).tree

    def lits(node):
        for sub in ast.walk(node):
            if isinstance(sub, ast.Constant) and isinstance(sub.value, (int, float)) and not isinstance(sub.value, bool):
                acc.add(Fr(sub.value))
    for node in ast.walk(tree):
        if isinstance(node, (ast.FunctionDef, ast.AsyncFunctionDef, ast.Lambda)):
            for d in list(node.args.defaults) + [k for k in node.args.kw_defaults if k is not None]:
                lits(d)
    for scope in [tree] + [n for n in ast.walk(tree) if isinstance(n, ast.ClassDef)]:
        for st in scope.body:
            if isinstance(st, (ast.Assign, ast.AnnAssign)) and st.value is not None:
                lits(st.value)
    cache[modname] = acc
    return acc


def decision_rule(ck, rule, case, out, vec=None):
    """Structural necessary condition of "flagged iff the value is beyond the limit" at the limit itself, in floating point: a comparison in
    which observations take part has the *parameter as given* (or 0, or a truth value) on its other side - not a number computed from the
    parameters (a centre and half-width, a threshold multiplied by the elapsed time ...): such a number is rounded, so a value exactly on the
    limit can fall on the wrong side, although the two spellings agree over the reals (and therefore in this analyser's exact arithmetic)."""
    evs = [e for e in getattr(out, 'events', []) if e['kind'] == 'data-compare']
    if not evs:
        # flags that depend on the observations were decided by some comparison: if none was recorded, the comparisons went through a
        # library function whose model does not report them, and this rule would pass vacuously - refuse instead
        if vec is not None and any(X.data_atoms(e.d) for e in vec.els() if isinstance(e.d, tuple)):
            return 'vacuous'
        return
    allowed = numbers_in(case.kwargs, set()) | numbers_in(list(case.args), set()) | signature_numbers(ck, case)
    allowed |= {-v for v in allowed} | {Fr(0)}
    from .repo import unparse
    for e in evs:
        bad = sorted(v for k, v in e['shapes'] if k == 'num' and v not in allowed)
        ck.ob(rule + '.decision', f'{case.label} {unparse(e["node"], 50) if e.get("node") is not None else ""}', not bad,
              key=f'{fn_key(case)}:compared-with-a-derived-number',
              what=f'{case.label}: `{unparse(e["node"], 70) if e.get("node") is not None else "?"}` compares observations with {[str(b) for b in bad[:3]]}, '
                   f'computed from the parameters {sorted(str(a) for a in allowed if a >= 0)[:8]} instead of a parameter itself: at the limit the rounding of that number decides the flag')


def compare_flags(ck, rule, case, vec, spec_pos, extra=None):
    """spec_pos(p) -> (spec_quantities, allowed_fn) or None to skip the position"""
    res = TableResult()
    els = vec.els()
    for p, e in enumerate(els):
        sp = spec_pos(p)
        if sp is None:
            continue
        qs, allowed = sp
        if e.m is not False:
            # a flag behind a mask is not a flag: consumers (aggregate, stores) read the position as not evaluated
            ck.violate(rule + '.table', f'{fn_key(case)}:{case.meta.get("class", "")}:flag-masked',
                       f'{case.label}: the flag at position {p} is returned masked' + ('' if e.m is True else f' when {X.show(e.m)[:160]}') +
                       ': the property gives that position a flag', dict(case=case.label, position=p))
            continue
        compare_position(e.d, qs, allowed, ck.rng, res, f'{case.label} @ {p}')
    ck.evaluations += res.cells
    for d in res.distinct:
        ck.distinct.add(d)
    for s in res.samples:
        ck.sample(s)
    if res.unrealised:
        ck.notes.append(f'{case.label}: {res.unrealised} disagreeing cells are not realisable by any data values (equivalent spelling)')
    return res


def class_of_mismatch(m):
    """stable key fragment for a table mismatch: which flags instead of which"""
    return f"got={'/'.join(m['got'])}:allowed={'/'.join(m['allowed'])}"


def table_rule(ck, rule, case, spec, scope='present'):
    """run one scenario and compare the resulting order-cell tables with the spec.

    scope: 'present' - positions whose tested observation is missing are left to C02
           'all'     - every position
           'missing' - C02's projection: missing positions exactly; at present positions only the use of MISSING
    """
    try:
        out = run_case(ck, case)
    except AnalysisError as e:
        if spec.rejects or not atoms_in([case.args, case.kwargs], set()) or os.environ.get('VERIF_NO_CONCRETE'):
            raise
        return concrete_table_rule(ck, rule, case, spec, scope, str(e)[:160])
    if not expect_raise(ck, rule + ('.reject' if spec.rejects else '.total'), case, out, spec.rejects,
                        'invalid parameters must be rejected'):
        return None
    if spec.rejects:
        return None
    vec = result_vec(ck, rule, case, out)
    if vec is None:
        return None
    if len(vec) != case.n:
        ck.violate(rule + '.shape', f'{fn_key(case)}:length', f'{case.test} returns {len(vec)} flags for {case.n} inputs',
                   dict(case=case.label))
        return None
    vacuous = False
    if scope != 'missing':
        vacuous = decision_rule(ck, rule, case, out, vec) == 'vacuous'

    def pos(p):
        missing = spec.is_missing(p) if hasattr(spec, 'is_missing') else case.pat.get('inp', 'p' * case.n)[p] == 'm'
        if scope == 'present' and missing:
            return None
        qs, allowed = spec.pos(p)
        if scope == 'missing' and not missing:
            return qs, (lambda cell: allowed(cell) | {G, U, S, F})
        return qs, allowed
    try:
        res = compare_flags(ck, rule, case, vec, pos)
    except AnalysisError as e:
        if not atoms_in([case.args, case.kwargs], set()) or os.environ.get('VERIF_NO_CONCRETE'):
            raise
        return concrete_table_rule(ck, rule, case, spec, scope, str(e)[:160])
    for m in res.mismatches:
        ck.violate(rule + '.table', f'{fn_key(case)}:{case.meta.get("class", "")}:{class_of_mismatch(m)}',
                   f"{case.label}: position {m['where'].rsplit('@', 1)[-1].strip()} cell {m['cell']} gives "
                   f"{[FLAGNAME.get(int(g), g) if str(g).isdigit() else g for g in m['got']]}, the property allows "
                   f"{[FLAGNAME.get(int(g), g) for g in m['allowed']]}" + (f"; witness {m['witness']}" if m.get('witness') else ''), m)
    if not res.mismatches:
        if vacuous:
            # the table agrees over the reals, but the decision rule (its floating-point complement) had nothing to look at
            ck.defer(f'{case.label}: the flags depend on the observations but no comparison of observations was recorded '
                     f'(decision rule cannot be applied)')
        ck.hold(rule + '.table', case.label)
    return out


# ---------------------------------------------------------------------------------------------------------------
# concretised fallback: when the symbolic interpretation of a scenario is refused (a construct or library call outside
# the symbolic model), the scenario is re-run with exact representative data for every order cell of the *specification*;
# library calls outside the model are then answered by the real library on concrete values (sa/bridge.py).

def qval(q, env):
    """numeric value of a quantity under concrete data (std via sqrt, geodesic via geographiclib)"""
    import math
    t = q[0]
    if t == 'red' and q[1] in ('std', 'std_sample', 'std_pop'):
        vs = [qval(a, env) for a in q[2]]
        m = sum(vs) / len(vs)
        ss = sum((v - m) ** 2 for v in vs)
        return math.sqrt(float(ss / (len(vs) - (1 if q[1] == 'std_sample' else 0))))
    if t == 'fn' and q[1] == 'geodist':
        from geographiclib.geodesic import Geodesic
        a = [float(qval(x, env)) for x in q[2]]
        return Geodesic.WGS84.Inverse(*a)['s12']
    if t == 'fn' and q[1] in ('trunc', 'floor', 'rint'):
        v = qval(q[2][0], env)
        return Fr({'trunc': math.trunc, 'floor': math.floor, 'rint': round}[q[1]](v))
    if t == 'lin':
        return sum((qval(g, env) * k for g, k in q[1]), q[2])
    if t == 'abs':
        return abs(qval(q[1], env))
    if t in ('min', 'max'):
        vs = [qval(a, env) for a in q[1]]
        return min(vs) if t == 'min' else max(vs)
    if t == 'mul':
        r = 1
        for a in q[1]:
            r = r * qval(a, env)
        return r
    if t == 'div':
        return qval(q[1], env) / qval(q[2], env)
    return X.eval_num(q, env)


def concretise_value(v, env):
    from .vec import El, Sc
    if isinstance(v, Sc):
        d = v.d
        if X.data_atoms(d):
            return Sc(X.num(Fr(qval(d, env))), v.dtype, v.unit)
        return v
    if isinstance(v, Vec):
        cells = []
        for e in v.back.cells:
            cells.append(El(X.num(Fr(qval(e.d, env))), e.m) if isinstance(e.d, tuple) and X.data_atoms(e.d) else e)
        out = Vec.fresh([cells[i] for i in v.idx], kind=v.kind, dtype=v.dtype, unit=v.unit, owner=v.back.owner, index=v.index, tz=v.tz)
        return out
    if isinstance(v, list):
        return [concretise_value(x, env) for x in v]
    if isinstance(v, tuple) and not hasattr(v, '_fields'):
        return tuple(concretise_value(x, env) for x in v)
    if isinstance(v, dict):
        return {k: concretise_value(x, env) for k, x in v.items()}
    return v


def atoms_in(v, acc):
    from .vec import Sc
    if isinstance(v, Sc):
        acc |= X.data_atoms(v.d)
    elif isinstance(v, Vec):
        for e in v.back.cells:
            if isinstance(e.d, tuple):
                acc |= X.data_atoms(e.d)
    elif isinstance(v, (list, tuple)):
        for a in v:
            atoms_in(a, acc)
    elif isinstance(v, dict):
        for a in v.values():
            atoms_in(a, acc)
    return acc


def concrete_flags_of(vec, p):
    """flag set of position p of a concretely computed result"""
    e = vec.el(p)
    qs = {}
    for a in X.atoms_of(e.d):
        qs[a[2]] = qval(a[2], {})
    return flags_of(X.eval_values(e.d, qs)), e.m


def concrete_table_rule(ck, rule, case, spec, scope, reason):
    """representative exact data for every order cell of the specification at every position"""
    from .cells import candidate_ranks, numeric_evaluable, realise
    import itertools as _it
    atoms = sorted(atoms_in([case.args, case.kwargs], set()), key=repr)
    ck.notes.append(f'{case.label}: symbolic interpretation refused ({reason}); concretised order-cell run used instead')
    ck.rule_counts['concretised-fallback'] = ck.rule_counts.get('concretised-fallback', 0) + 1
    rng = ck.rng
    bad = 0
    runs = 0
    for p in range(case.n):
        missing = spec.is_missing(p) if hasattr(spec, 'is_missing') else case.pat.get('inp', 'p' * case.n)[p] == 'm'
        if scope == 'present' and missing:
            continue
        qs, allowed = spec.pos(p)
        if scope == 'missing' and not missing:
            base_allowed = allowed
            allowed = (lambda cell, _a=base_allowed: _a(cell) | {G, U, S, F})
        breaks = {q: list(b) for q, b in qs}
        order = sorted(breaks, key=repr)
        steer = [q for q in order if numeric_evaluable(q)]
        cells = list(_it.product(*[candidate_ranks(breaks[q]) for q in steer])) if steer else [()]
        if len(cells) > 60:
            rng.shuffle(cells)
            cells = cells[:60]
        free_runs = 1 if steer and len(steer) == len(order) else 6
        for combo in cells:
            cell = dict(zip(steer, combo))
            env0 = realise(cell, rng, breaks=breaks) if steer else {}
            if env0 is None:
                continue
            for _ in range(free_runs):
                env = {a: Fr(rng.randint(-12, 24), rng.choice((1, 2, 4))) for a in atoms}
                env.update(env0)
                try:
                    actual = {q: qval(q, env) for q in order}
                except (ZeroDivisionError, ImportError, KeyError):
                    continue
                want = allowed(actual)
                c2 = Case(case.test, concretise_value(case.args, env), concretise_value(case.kwargs, env), n=case.n, pat=case.pat,
                          meta=case.meta, label=case.label + f' with {{{", ".join(f"{X.show(a)}={float(v):g}" for a, v in sorted(env.items(), key=repr)[:6])}}}',
                          features=case.features, owned=case.owned, parse_time=case.parse_time)
                out = run_case(ck, c2)
                runs += 1
                if out.kind == 'raise':
                    ck.violate(rule + '.total', f'{fn_key(case)}:raises-{out.exc.tname}:{case.meta.get("class", "valid-input")}',
                               f'{c2.label}: raises {out.exc.tname}{out.exc.args} on valid input', dict(case=c2.label, site=_site(out)))
                    bad += 1
                    break
                vec = result_vec(ck, rule, c2, out)
                if vec is None or len(vec) != case.n:
                    ck.violate(rule + '.shape', f'{fn_key(case)}:length', f'{c2.label}: result does not have one flag per input')
                    bad += 1
                    break
                got, masked = concrete_flags_of(vec, p)
                if want is not None and (not got <= set(want) or masked is not False):
                    ck.violate(rule + '.table', f'{fn_key(case)}:{case.meta.get("class", "")}:got={"/".join(sorted(map(str, got)))}:allowed={"/".join(sorted(map(str, want)))}',
                               f'{c2.label}: position {p} gives {sorted(map(str, got))}{" (masked)" if masked is not False else ""}, the property allows {sorted(want)} '
                               f'(cell {{{", ".join(f"{X.show(q)}={float(v):g}" for q, v in actual.items())}}}) [concretised run]',
                               dict(case=c2.label))
                    bad += 1
            if bad > 5:
                break
    ck.evaluations += runs
    if not bad:
        ck.hold(rule + '.table', case.label + ' [concretised]')


def concrete_envs(cases, rng, k):
    """k random exact assignments of all data atoms occurring in the given cases"""
    atoms = set()
    for c in cases:
        atoms_in([c.args, c.kwargs], atoms)
    atoms = sorted(atoms, key=repr)
    scales = [1, 1, 2, 3, 10]
    for _ in range(k):
        sc = rng.choice(scales)
        yield {a: Fr(rng.randint(-6 * sc, 9 * sc), rng.choice((1, 2, 4))) for a in atoms}


def concretised(case, env):
    return Case(case.test, concretise_value(case.args, env), concretise_value(case.kwargs, env), n=case.n, pat=case.pat, meta=case.meta,
                label=case.label + f' with {{{", ".join(f"{X.show(a)}={float(v):g}" for a, v in sorted(env.items(), key=repr)[:6])}}}',
                features=case.features, owned=case.owned, parse_time=case.parse_time)


def concrete_result_flags(out):
    """per position (flag set, masked) of a concretely computed outcome"""
    return [concrete_flags_of(out.value, p) for p in range(len(out.value))]
