"""C19 — the pandas store writes one aligned, uniquely named column per test result."""
import ast
import itertools
import re
import string

from .. import expr as X
from ..interp import AbsRaise
from ..repo import AnalysisError, unparse
from ..streams_h import Table, make_config_source, run_frontend
from ..vec import Vec
from .c04 import PREC
from .c05 import t

ALLOWED = set(string.ascii_letters + string.digits + '_')
PUBLIC = {}       # (package, test name) -> the module-level function object
COVERAGE = {}     # (table id, stream, test) -> rows some context evaluates
CFSAFE = {}       # 'fn': the repository's own cf_safe_name, interpreted


def cf_safe_spec(name):
    out = ''.join(c if c in ALLOWED else '_' for c in name)
    return out


def is_cf_safe(s):
    return bool(s) and set(s) <= ALLOWED and not s[0].isdigit()


# ---- structural analysis of the regular expressions in cf_safe_name -------------------------------
def class_members(items):
    """set of characters matched by a parsed character class (ASCII range)"""
    import re._parser as sp
    import re._constants as sc
    chars = set()
    negate = False
    for op, av in items:
        if op == sc.NEGATE:
            negate = True
        elif op == sc.LITERAL:
            chars.add(chr(av))
        elif op == sc.RANGE:
            chars.update(chr(c) for c in range(av[0], av[1] + 1))
        elif op == sc.CATEGORY:
            if av == sc.CATEGORY_DIGIT:
                chars.update(string.digits)
            elif av == sc.CATEGORY_WORD:
                chars.update(ALLOWED)
            else:
                raise AnalysisError(f'regex category {av} not analysed')
        else:
            raise AnalysisError(f'regex class item {op} not analysed')
    universe = {chr(c) for c in range(128)}
    return (universe - chars) if negate else chars


def regex_rule(ck):
    """cf_safe_name: the substitution must replace exactly the characters outside [A-Za-z0-9_] by an allowed character, and the
    guard must recognise every leading digit (it prefixes a letter).  The regular expressions are taken from the function's own
    uses of the re module while it is interpreted (however the pattern reaches the call: literal, module constant, compiled)."""
    import re._parser as sp
    import re._constants as sc
    it = ck.runner.interp
    cf = it.module('ioos_qc.utils').globals['cf_safe_name']
    n0 = len(it.events)
    for s_ in ('9a b.c', 'abc', '_x-1'):
        try:
            it.call(cf, [s_], {}, None)
        except AbsRaise:
            pass
    uses = []
    for e in it.events[n0:]:
        if e['kind'] == 'regex' and (e['fn'], e['pattern'], e['repl']) not in [(u['fn'], u['pattern'], u['repl']) for u in uses]:
            uses.append(e)
    subs = [(u['pattern'], u['repl'], u['node']) for u in uses if u['fn'] == 'sub']
    guards = [(u['pattern'], u['fn'], u['node']) for u in uses if u['fn'] in ('match', 'search', 'fullmatch')]
    ck.regex_uses = len(uses)
    if not uses:
        return      # no regular expression involved: the per-character enumeration (char_rule) decides alone
    for pat, repl, node in subs:
        parsed = list(sp.parse(pat))
        # a sequence of one (possibly repeated) class
        ok_shape = len(parsed) == 1
        op, av = parsed[0] if ok_shape else (None, None)
        if ok_shape and op in (sc.MAX_REPEAT, sc.MIN_REPEAT):
            lo, hi, sub = av
            inner = list(sub)
            ok_shape = len(inner) == 1 and lo >= 1
            op, av = inner[0] if ok_shape else (None, None)
        if not ok_shape or op not in (sc.IN, sc.NOT_LITERAL, sc.LITERAL, sc.CATEGORY, sc.ANY):
            raise AnalysisError(f'cf_safe_name: substitution pattern {pat!r} is not a single character class')
        if op == sc.IN:
            replaced = class_members(av)
        elif op == sc.CATEGORY and av == sc.CATEGORY_NOT_WORD:
            replaced = {chr(c) for c in range(128)} - ALLOWED
        elif op == sc.LITERAL:
            replaced = {chr(av)}
        else:
            raise AnalysisError(f'cf_safe_name: substitution pattern {pat!r} not analysed')
        universe = {chr(c) for c in range(128)}
        survivors = universe - replaced
        bad_survivors = sorted(survivors - ALLOWED)
        ck.ob('C19.regex', f'cf_safe_name: re.sub({pat!r}, {repl!r})', not bad_survivors, key='cf_safe_name:substitution-lets-illegal-characters-through',
              what=f'cf_safe_name: the substitution pattern {pat!r} leaves characters {bad_survivors[:8]} that are not letters, digits or underscore')
        ck.ob('C19.regex', f'cf_safe_name: replacement {repl!r}', set(repl) <= ALLOWED and len(repl) >= 0, key='cf_safe_name:replacement-not-cf-safe',
              what=f'cf_safe_name: the replacement {repl!r} is itself not CF-safe')
    digit_guard = False
    for pat, kind, node in guards:
        parsed = list(sp.parse(pat))
        anchored = kind in ('match', 'fullmatch') or (parsed and parsed[0][0] == sc.AT)
        body = [p for p in parsed if p[0] != sc.AT]
        if anchored and body and body[0][0] == sc.IN:
            first = class_members(body[0][1])
            if set(string.digits) <= first:
                digit_guard = True
        elif anchored and body and body[0][0] == sc.CATEGORY and body[0][1] == sc.CATEGORY_DIGIT:
            digit_guard = True
    ck.ob('C19.regex', 'cf_safe_name: leading-digit guard', digit_guard, key='cf_safe_name:leading-digit-guard',
          what='cf_safe_name: no start-anchored guard recognises every leading digit 0-9 (a name starting with some digit is returned unchanged)')


# ---- behaviour on concrete runs -------------------------------------------------------------------
def concrete_flags(vec):
    out = []
    for e in vec.els():
        if e.d == X.NAN or e.m is True:
            out.append(None)
        elif X.is_num(e.d):
            out.append(int(e.d[1]))
        else:
            # a flag that depends on an uninterpreted function of concrete numbers (sqrt(2) > 1 ...): evaluate in floating point
            try:
                from ..cells import fflag, fval
                fl = fflag(e.d, {}) if e.d[0] == 'ite' else {fval(e.d, {})}
                fl = sorted(fl)
                out.append(int(fl[0]) if len(fl) == 1 and float(fl[0]).is_integer() else X.show(e.d))
            except (KeyError, ValueError, TypeError, ZeroDivisionError, OverflowError):
                out.append(X.show(e.d))
    return out


def rollup(cols):
    out = []
    for vals in zip(*cols):
        best = None
        for v in vals:
            if v in PREC and (best is None or PREC.index(v) > PREC.index(best)):
                best = v
        out.append(9 if best is None else best)
    return out


def char_rule(ck):
    """every ASCII character, in the middle of a name and in front of it, through the interpreted cf_safe_name"""
    it = ck.runner.interp
    cf = it.module('ioos_qc.utils').globals['cf_safe_name']
    for c in map(chr, range(128)):
        for text, pos in (('a' + c + 'b', 1), (c + 'xy', 0), ('ab' + c, 2)):
            try:
                got = it.call(cf, [text], {}, None)
            except AbsRaise as e:
                got = f'raises {e.exc.tname}'
            # the statement fixes the alphabet and the first character, not how an illegal character is rendered (replaced, dropped, merged)
            ok = isinstance(got, str) and is_cf_safe(got)
            ck.ob('C19.chars', f'cf_safe_name({text!r})', ok, key='cf_safe_name:character',
                  what=f'cf_safe_name({text!r}) gives {got!r}: only letters, digits and underscores are allowed and the result must not start with a digit')


def run(ck):
    ck.explanation = (
        'Decided (1) structurally: the regular expressions cf_safe_name uses (collected from its own re calls while it is interpreted, so literal, constant and compiled patterns alike) are parsed (re._parser): the substitution class is exactly the complement of '
        '[A-Za-z0-9_], the replacement is CF-safe and a start-anchored guard covers every leading digit - for all strings; plus every ASCII character in front, middle and end position through the interpreted function; (2) by abstract interpretation of '
        'PandasStore.__init__ / compute_aggregate / save on the (interpreted) stream results of a concrete table with stream ids containing illegal characters, '
        'for every combination of write_data / write_axes and include / exclude lists (by stream id, test name, function, none): one row per input row in order, '
        'exactly the expected columns, names <stream>_<module>_<test> made CF-safe, values equal to the collected flags (empty where not evaluated), axis and '
        'data columns equal to the source, roll-up column equal to the precedence maximum of all test columns.')
    regex_rule(ck)
    char_rule(ck)
    r = ck.runner
    it = r.interp
    utils = it.module('ioos_qc.utils')
    cf = utils.globals['cf_safe_name']
    samples = ['temp', '9lives', '_x', 'a-b', 'a b.c', 'sea water/temp(1)', 'ünï', '1', 'a.qartod.gross_range_test', '5.qartod.t', 'A_1', '',
               # names outside ASCII, in front of a digit or a legal character (a dropped character would expose what follows it)
               '\u03c30', '\u03b413C', '\u00e9', '\u00b5mol', '\u6c34\u6e29', '\u03c3_t', 'O\u2082', 'a\u00a0b', '\u00c50']
    for s in samples:
        try:
            got = it.call(cf, [s], {}, None)
        except AbsRaise as e:
            got = f'raises {e.exc.tname}'
        ok = isinstance(got, str) and (is_cf_safe(got) or s == '')
        ck.ob('C19.names', f'cf_safe_name({s!r}) -> {got!r}', ok, key='cf_safe_name:sample',
              what=f'cf_safe_name({s!r}) gives {got!r}: not a CF-safe rendering of the input')
    CFSAFE['fn'] = lambda text: it.call(cf, [text], {}, None)

    streams = ('temp', '9 lives-x', 'sal.t')
    conc = {'temp': [1, 5, 30, 3, 9], '9 lives-x': [2, 2, 2, 2, 50], 'sal.t': [0, 1, 2, 3, 4], 'lat': [1, 2, 3, 4, 5], 'lon': [6, 7, 8, 9, 10]}
    table = Table(5, streams=streams, concrete=conc)
    contexts = [dict(window=(t(0), t(3)), tests={'temp': ['gross', 'spike'], '9 lives-x': ['gross', 'flat'], 'sal.t': ['valid']}),
                dict(window=(t(3), t(4)), tests={'temp': ['gross'], '9 lives-x': ['flat']})]
    src = make_config_source(contexts)
    from ..streams_h import test_menu
    menu = test_menu()
    stores = it.module('ioos_qc.stores')
    PS = stores.globals['PandasStore']
    qartod = it.module('ioos_qc.qartod').globals
    for pkg in ('qartod', 'axds', 'argo'):
        for nm, obj in it.module(f'ioos_qc.{pkg}').globals.items():
            if nm.endswith('_test') or nm == 'aggregate':
                PUBLIC[(pkg, nm)] = obj
    filters = [None, ['temp'], ['gross_range_test'], [qartod['spike_test']], ['9 lives-x', 'valid_range_test'], ['nothing-matches'], []]
    # a platform at the surface / equator / prime meridian: axis (and data) values that are all exactly zero are still values
    zconc = dict(conc, z=[0] * 5, lat=[0] * 5, lon=[0] * 5, temp=[0] * 5)
    ztable = Table(5, streams=streams, concrete=zconc)
    # one observation only: still one row, with its axis values
    one = Table(1, streams=streams, concrete={k: v[:1] for k, v in conc.items()})
    src_one = make_config_source([dict(window=(None, None), tests={'temp': ['gross'], '9 lives-x': ['gross'], 'sal.t': ['valid']})])
    ctx_one = [dict(window=(None, None), tests={'temp': ['gross'], '9 lives-x': ['gross'], 'sal.t': ['valid']})]
    # one configuration for several deployments applied to a record of the later one: the first window listed holds no row of the input
    etable = Table(5, streams=streams, concrete=conc)
    ctx_empty_first = [dict(window=(t(10), t(20)), tests={'temp': ['gross'], 'sal.t': ['valid']}),
                       dict(window=(t(1), t(4)), tests={'temp': ['gross', 'spike'], '9 lives-x': ['flat'], 'sal.t': ['valid']})]
    # a frame whose row labels are a permutation of 0..n-1 (sorted by time without reset_index): labels are not positions
    ltable = Table(5, streams=streams, concrete=conc, index_labels=[3, 0, 4, 1, 2])
    setups = {id(table): (contexts, src), id(ztable): (contexts, src), id(one): (ctx_one, src_one), id(etable): (ctx_empty_first, make_config_source(ctx_empty_first)),
              id(ltable): (contexts, src)}
    for fe, table, tname in [(f, tb, tn) for f in ('numpy', 'pandas') for tb, tn in ((table, ''), (ztable, '[all-zero axes]'), (one, '[single row]'), (etable, '[first window empty]'),
                                                                                      (ltable, '[permuted row labels]'))]:
        if table is ltable and fe != 'pandas':
            continue
        run0 = run_frontend(r, fe, table, setups[id(table)][1])
        if run0.error is not None:
            ck.violate('C19.save', f'{fe}:stream-raises', f'{fe}: the stream raises {run0.error.exc}')
            continue
        for c in setups[id(table)][0]:
            for sid, keys in c['tests'].items():
                for k in keys:
                    COVERAGE.setdefault((id(table), sid, menu[k][1]), set()).update(table.rows_in(c['window']))
        for wd, wa, inc, exc, agg in itertools.product((False, True), (True, False), filters, filters, (False, True)):
            if inc is not None and exc is not None and ck.tier != 'thorough' and (inc != ['temp'] or exc != ['gross_range_test']):
                continue
            if tname and (inc is not None or exc is not None):
                continue
            label = f'{fe}{tname}: save(write_data={wd}, write_axes={wa}, include={show_filter(inc)}, exclude={show_filter(exc)}, aggregate={agg})'
            ck.count(1, distinct=label)
            try:
                ps = it.instantiate(PS, [list(run0.context_results)], {}, None)
                if agg:
                    if inc is None and exc is None:
                        # a frame saved before the roll-up was computed must not be what a later save() hands back
                        it.call(it.getattr(ps, 'save', None), [], dict(write_data=wd, write_axes=wa, include=inc, exclude=exc), None)
                    it.call(it.getattr(ps, 'compute_aggregate', None), [], {}, None)
                df = it.call(it.getattr(ps, 'save', None), [], dict(write_data=wd, write_axes=wa, include=inc, exclude=exc), None)
            except AbsRaise as e:
                site = unparse(e.node, 60) if e.node is not None else '?'
                ck.violate('C19.save', f'PandasStore.save:raises-{e.exc.tname}:{site}', f'{label}: raises {e.exc.tname}{e.exc.args} at `{site}`')
                continue
            check_frame(ck, label, df, ps, table, wd, wa, inc, exc, agg)
        # defaults: write_axes on, write_data off, no filters
        try:
            ps = it.instantiate(PS, [list(run0.context_results)], {}, None)
            df = it.call(it.getattr(ps, 'save', None), [], {}, None)
            check_frame(ck, f'{fe}{tname}: save() with default arguments', df, ps, table, False, True, None, None, False)
        except AbsRaise as e:
            ck.violate('C19.save', f'PandasStore.save:defaults-raise-{e.exc.tname}', f'{fe}: save() raises {e.exc}')
    # two stream ids that are the same once made CF-safe: each collected result still has to come out as a column of its own
    ctable = Table(5, streams=('sal.t', 'sal t'), concrete={'sal.t': [1, 5, 30, 3, 9], 'sal t': [2, 2, 2, 2, 50], 'lat': [1, 2, 3, 4, 5], 'lon': [6, 7, 8, 9, 10]})
    csrc = make_config_source([dict(window=(None, None), tests={'sal.t': ['gross'], 'sal t': ['gross']})])
    for fe in ('numpy', 'pandas'):
        run0 = run_frontend(r, fe, ctable, csrc)
        if run0.error is not None:
            ck.violate('C19.save', f'{fe}:stream-raises', f'{fe}: the stream raises {run0.error.exc}')
            continue
        try:
            ps = it.instantiate(PS, [list(run0.context_results)], {}, None)
            df = it.call(it.getattr(ps, 'save', None), [], {}, None)
        except AbsRaise as e:
            ck.violate('C19.save', f'PandasStore.save:cf-clashing-ids:raises-{e.exc.tname}', f'{fe}: save() with stream ids that clash after CF-safe renaming raises {e.exc}')
            continue
        crs = ps.attrs['collected_results']
        cols = dict(df.columns)
        result_cols = [n for n in cols if n not in ('time', 'z', 'lat', 'lon')]
        flags = sorted(str(concrete_flags(cols[n])) for n in result_cols)
        want = sorted(str(concrete_flags(cr.attrs['results'])) for cr in crs)
        ck.ob('C19.columns', f'{fe}: save() with stream ids "sal.t" and "sal t"', flags == want, key='PandasStore.save:cf-clashing-ids:result-lost',
              what=f'{fe}: the stream ids "sal.t" and "sal t" both become "sal_t": {len(crs)} collected results but result columns {result_cols} - '
                   'a result is overwritten / dropped instead of getting a uniquely named column')
    ck.floor('C19.columns', 40)
    if getattr(ck, 'regex_uses', 0):
        ck.floor('C19.regex', 3)
    ck.floor('C19.chars', 384)


def show_filter(f):
    if f is None:
        return None
    return [getattr(x, 'name', x) for x in f]


def passes(cr, inc, exc):
    sid, test, pkg = cr.attrs['stream_id'], cr.attrs['test'], cr.attrs['package']
    def member(lst):
        # a function in a filter list is the public object ioos_qc.<package>.<test> (what a user can name), not whatever the result carries
        return any((isinstance(x, str) and x in (sid, test)) or (not isinstance(x, str) and x is PUBLIC.get((pkg, test))) for x in lst)
    if inc is not None and not member(inc):
        return False
    if exc is not None and member(exc):
        return False
    return True


def check_frame(ck, label, df, ps, table, wd, wa, inc, exc, agg):
    cols = dict(df.columns)
    crs = ps.attrs['collected_results']
    want_cols = {}
    if wa:
        for name, ax in (('time', 'time'), ('z', 'z'), ('lon', 'lon'), ('lat', 'lat')):
            want_cols[name] = ('axis', ax)
    test_cols = []
    for k, cr in enumerate(crs):
        if not passes(cr, inc, exc):
            continue
        if agg and k == len(crs) - 1 and (inc is not None or exc is not None):
            continue        # the roll-up under filters: neither demanded nor forbidden (see below)
        sid, pkg, tst = cr.attrs['stream_id'], cr.attrs['package'], cr.attrs['test']
        if wd and sid:
            want_cols[sid] = ('data', sid)
        # the column label is <stream>_<module>_<test>, made CF-safe the way the library's own cf_safe_name does it (C19.chars / C19.regex decide
        # that this rendering is CF-safe); how illegal characters are rendered is not prescribed
        label_txt = '_'.join(x for x in (sid, pkg, tst) if x)
        try:
            name = CFSAFE['fn'](label_txt)
        except Exception:
            name = cf_safe_spec(label_txt)
        want_cols[name] = ('result', cr)
    # column names
    got_names = list(cols)
    for nm in got_names:
        ck.ob('C19.columns', f'{label} column {nm!r}', nm in ('time', 'z', 'lat', 'lon') or nm in table.streams or is_cf_safe(nm),
              key='PandasStore.save:column-name-not-cf-safe', what=f'{label}: result column name {nm!r} is not CF-safe')
    matched = set()
    for key, (kind, ref) in want_cols.items():
        if isinstance(key, tuple):
            _, sid, pkg, tst = key
            tail = cf_safe_spec('.'.join((sid, pkg, tst)))
            cand = [n for n in got_names if n.endswith(tail) and n not in matched and is_cf_safe(n)]
            nm = cand[0] if cand else None
        else:
            nm = key if key in cols else None
        ok = nm is not None
        ck.ob('C19.columns', f'{label} expects {key!r}', ok, key=f'PandasStore.save:missing-{kind}-column',
              what=f'{label}: expected a {kind} column {key!r}; the frame has {got_names}')
        if not ok:
            continue
        matched.add(nm)
        vals = concrete_flags(cols[nm])
        if kind == 'axis' or kind == 'data':
            # taken from the first collected result of the stream: equal to the source wherever that result covers the row
            want = concrete_flags(Vec.fresh(table.cells(ref)))
            # equal to the source on every row it holds, and it must hold at least the rows that the first collected result (axes) / the first
            # result of that stream (data) covers - the store has no other source for them
            src_cr = next((c for c in crs if kind == 'axis' or (c.attrs['stream_id'] == ref and passes(c, inc, exc))), None)
            must = COVERAGE.get((id(table), src_cr.attrs['stream_id'], src_cr.attrs['test']), set()) if src_cr is not None else set()
            okv = len(vals) == len(want) and all(v is None or v == w for v, w in zip(vals, want)) and all(vals[i] is not None for i in must if i < len(vals)) \
                and any(v is not None for v in vals)
        else:
            want = concrete_flags(ref.attrs['results'])
            okv = vals == want
            # rows that no context evaluated for this test are empty in the frame (not a flag)
            cov = COVERAGE.get((id(table), ref.attrs['stream_id'], ref.attrs['test']))
            if cov is not None:
                stray = [i for i, v in enumerate(vals) if i not in cov and v is not None]
                ck.ob('C19.values', f'{label} {nm!r} rows outside every window', not stray, key='PandasStore.save:flag-on-a-row-no-context-evaluated',
                      what=f'{label}: column {nm!r} holds {vals}; rows {stray} are outside every window configured for that test and must be empty')
        ck.ob('C19.values', f'{label} {nm!r}', okv, key=f'PandasStore.save:{kind}-column-values',
              what=f'{label}: column {nm!r} holds {vals}, expected {want}')
        ck.ob('C19.rows', f'{label} {nm!r}', len(vals) == table.n, key='PandasStore.save:row-count', what=f'{label}: column {nm!r} has {len(vals)} rows for {table.n} input rows')
    extra = [n for n in got_names if n not in matched]
    if agg and (inc is not None or exc is not None):
        # "after compute_aggregate the frame also holds a roll-up column": whether the include / exclude filters apply to it is not stated
        roll = crs[-1]
        try:
            rname = CFSAFE['fn']('_'.join(x for x in (roll.attrs['stream_id'], roll.attrs['package'], roll.attrs['test']) if x))
        except Exception:
            rname = None
        extra = [n for n in extra if n != rname]
    if wd:
        extra = [n for n in extra if n not in table.streams]      # data columns of streams whose results were filtered out: not prescribed
    ck.ob('C19.columns', f'{label} no extra columns', not extra, key='PandasStore.save:unexpected-columns',
          what=f'{label}: unexpected columns {extra} (filters / write flags not honoured)')
    if agg:
        tests = [concrete_flags(cr.attrs['results']) for cr in crs[:-1]]
        want = rollup(tests)
        got = concrete_flags(crs[-1].attrs['results'])
        ck.ob('C19.rollup', label, got == want, key='PandasStore.compute_aggregate:rollup', what=f'{label}: roll-up {got}, the aggregate of all test columns is {want}')
