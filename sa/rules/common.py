"""shared drivers for the per-test table properties"""
from .. import cases
from ..qc import table_rule


def run_tables(ck, rule, gen, scope='present', **kw):
    n = 0
    for case, spec in gen(ck.tier, **kw):
        table_rule(ck, rule, case, spec, scope=scope)
        n += 1
    return n
