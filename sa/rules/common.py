"""shared drivers for the per-test table properties"""
from .. import cases
from ..qc import table_rule


def run_tables(ck, rule, gen, scope='present', **kw):
    n = 0
    for case, spec in gen(ck.tier, **kw):
        table_rule(ck, rule, case, spec, scope=scope)
        n += 1
    return n


TIME_SWEEP = ['dt64_s', 'epoch_list', 'epoch_array', 'epoch_series', 'series', 'series_tz', 'dtindex', 'dtindex_tz', 'dtindex_s', 'series_us', 'pydatetime', 'epoch_series_u']
DATA_SWEEP = ['list_nan', 'tuple_nan', 'ndarray', 'series', 'ndarray_f4', 'ndarray_int']


def run_carrier_sweep(ck, rule, gen, time=True, data=True, n_max=3, per_class=4, **kw):
    """The table properties quantify over "all series": the same scenarios (short lengths, a few per scenario class) are repeated with the
    series and the time axis handed over in the other supported containers (C15 compares carriers with each other; here each carrier is
    held against the specification itself).  Scenarios whose instants a carrier cannot represent are skipped."""
    sweeps = [('tcarrier', tc) for tc in (TIME_SWEEP if time else [])] + [('carrier', dc) for dc in (DATA_SWEEP if data else [])]
    # the same numbers as numpy scalars (np.int64 out of an array or a DataFrame cell, np.float64): a parameter is its value, whatever its Python type
    from ..qc import numpy_scalar_params
    for kind in ('int64', 'float64'):
        seen = {}
        for case, spec in gen('quick', **kw):
            cls = (case.meta.get('class'), case.n)
            if case.n > n_max or case.n < 2 or seen.get(cls[0], 0) >= 1 or (spec is not None and spec.rejects):
                continue
            seen[cls[0]] = 1
            case.kwargs = numpy_scalar_params(case.kwargs, kind)
            case.label = f'{case.label} [parameters as np.{kind}]'
            case.meta = dict(case.meta, **{'class': f'{case.meta.get("class", "")}/np.{kind}'})
            table_rule(ck, rule, case, spec, scope='present')
    for param, value in sweeps:
        seen = {}
        try:
            it = gen('quick', **dict(kw, **{param: value}))
            while True:
                try:
                    case, spec = next(it)
                except StopIteration:
                    break
                except ValueError:
                    continue       # instants not representable in this carrier
                cls = (case.meta.get('class'), case.n)
                if case.n > n_max or seen.get(cls, 0) >= per_class:
                    continue
                seen[cls] = seen.get(cls, 0) + 1
                case.label = f'{case.label} [{param}={value}]'
                case.meta = dict(case.meta, **{'class': f'{case.meta.get("class", "")}/{value}'})
                out = table_rule(ck, rule, case, spec, scope='present')
                if value in ('ndarray_f4', 'ndarray_int') and out is not None:
                    # the specification is about the values: a float32 / integer array must be widened before it is added, differenced or
                    # compared with the limits, otherwise the flags follow the rounding / wrap-around of the carrier's type
                    kind = 'narrow-float-arith' if value == 'ndarray_f4' else 'int-arith'
                    evs = [e for e in getattr(out, 'events', []) if e['kind'] == kind]
                    from ..repo import unparse
                    from ..qc import fn_key
                    ck.ob(rule + '.table', f'{case.label} width', not evs, key=f'{fn_key(case)}:{value}:arithmetic-in-the-carrier-dtype',
                          what=f'{case.label}: the data is used in the dtype of the input array ('
                               f'{unparse(evs[0]["node"], 70) if evs and evs[0].get("node") is not None else ""}) instead of being widened to float64 first')
        except ValueError:
            continue
