"""C17 — flags ignore value/time offsets and depend only on the local neighbourhood."""
import math
from fractions import Fraction as Fr

from .. import expr as X
from ..cells import TableResult, compare_pair
from ..qc import Case, fn_key, patterns, run_case
from ..scen import data_input, time_input, x
from ..vec import El, Sc, Vec

DELTA = ('x', 'offset', 0)


def same(fa, fb):
    return fa == fb


def vals(name, pat, f):
    """symbolic values transformed by f(atom, i)"""
    return [Sc(f(x(name, i), i)) if c == 'p' else None for i, c in enumerate(pat)]


def t10(n, shift=0):
    return [100 + shift + 10 * i for i in range(n)]


def equal_flags(ck, rule, key, la, oa, lb, ob, what, perm=None, only=None, relation=None):
    """two outcomes must give equivalent flag expressions position by position"""
    rel = relation or same
    if 'refused' in (oa.kind, ob.kind):
        # symbolic interpretation refused for at least one of the two runs: compare both on exact representative data
        from ..qc import concrete_envs, concretised, concrete_result_flags
        ca, cb = getattr(oa, 'case', None), getattr(ob, 'case', None)
        if ca is None or cb is None:
            raise (getattr(oa, 'error', None) or getattr(ob, 'error', None))
        ck.rule_counts['concretised-fallback'] = ck.rule_counts.get('concretised-fallback', 0) + 1
        for env in concrete_envs([ca, cb], ck.rng, 12):
            xa, xb = run_case(ck, concretised(ca, env)), run_case(ck, concretised(cb, env))
            if xa.kind == 'raise' or xb.kind == 'raise':
                ck.ob(rule, f'{la} ~ {lb}', xa.kind == xb.kind, key=f'{key}:raise-differs', what=f'{what}: {xa.case.label}: one raises, the other does not')
                continue
            fa, fb = concrete_result_flags(xa), concrete_result_flags(xb)
            n = len(fa)
            okc = len(fa) == len(fb) and all(rel(fa[p][0], fb[perm(p) if perm else p][0]) and fa[p][1] == fb[perm(p) if perm else p][1]
                                             for p in range(n) if only is None or p in only)
            ck.ob(rule, f'{la} ~ {lb} [concretised]', okc, key=f'{key}:concretised-differs',
                  what=f'{what}: {xa.case.label} gives {[sorted(map(str, f[0])) for f in fa]} but {lb} gives {[sorted(map(str, f[0])) for f in fb]}')
        return
    if oa.kind == 'raise' or ob.kind == 'raise':
        ok = oa.kind == ob.kind
        ck.ob(rule, f'{la} ~ {lb}', ok, key=f'{key}:raise-differs', what=f'{what}: {la} and {lb}: one raises, the other does not')
        return
    va, vb = oa.value, ob.value
    if not (isinstance(va, Vec) and isinstance(vb, Vec) and len(va) == len(vb)):
        ck.violate(rule, f'{key}:shape', f'{what}: results of {la} and {lb} are not comparable')
        return
    res = TableResult()
    n = len(va)
    for p in range(n):
        if only is not None and p not in only:
            continue
        q = perm(p) if perm else p
        ea, eb = va.el(p), vb.el(q)
        if ea.m != eb.m:
            ck.violate(rule, f'{key}:mask', f'{what}: mask differs at {p}')
            continue
        compare_pair(ea.d, eb.d, rel, ck.rng, res, f'{la} @ {p}')
    ck.evaluations += res.cells
    ck.distinct.update(res.distinct)
    for m in res.mismatches:
        ck.violate(rule, f"{key}:{'/'.join(m['got'])}-vs-{'/'.join(m['allowed'])}",
                   f"{what}: {m['where']}: cell {m['cell']}: {m['got']} before, {m['allowed']} after the transformation"
                   + (f"; witness {m['witness']}" if m.get('witness') else ''), m)
    if not res.mismatches:
        ck.hold(rule, f'{la} ~ {lb}')


def run_pair(ck, test, mk, meta=None):
    outs = []
    for variant in ('base', 'xf'):
        args, kw, label = mk(variant)
        c = Case(test, args, kw, n=0, pat={}, meta=dict(meta or {}, **{'class': 'invariance'}), label=label)
        outs.append((label, run_case(ck, c, allow_refused=True), c))
    return outs


TESTS_VALUE = {
    # test -> (builder(values, n) -> (args, kwargs), shift?, negate?)
    'spike_test': (lambda v, n: ([v], dict(suspect_threshold=Fr(1), fail_threshold=Fr(2))), True, True),
    'spike_test:differential': (lambda v, n: ([v], dict(suspect_threshold=Fr(1), fail_threshold=Fr(2), method='differential')), True, True),
    'rate_of_change_test': (lambda v, n: ([v, time_input('tinp', t10(n))], dict(threshold=Fr(1))), True, True),
    'flat_line_test': (lambda v, n: ([v, time_input('tinp', t10(n))], dict(suspect_threshold=20, fail_threshold=30, tolerance=Fr(1))), True, True),
    'attenuated_signal_test': (lambda v, n: ([v, time_input('tinp', t10(n))], dict(suspect_threshold=Fr(2), fail_threshold=Fr(1))), True, True),
    'attenuated_signal_test:range-window': (lambda v, n: ([v, time_input('tinp', t10(n))], dict(suspect_threshold=Fr(2), fail_threshold=Fr(1), check_type='range', test_period=20)), True, True),
    'attenuated_signal_test:std-window': (lambda v, n: ([v, time_input('tinp', t10(n))], dict(suspect_threshold=Fr(2), fail_threshold=Fr(1), test_period=30, min_obs=2)), True, True),
    'density_inversion_test': (lambda v, n: ([v, data_input('zinp', 'p' * n, values=[Fr(i) for i in range(n)])], dict(suspect_threshold=Fr(-1), fail_threshold=Fr(-2))), True, False),
}


def value_transforms(ck):
    ns = [3, 4] if ck.tier != 'thorough' else [1, 2, 3, 4, 5]
    for name, (build, do_shift, do_neg) in TESTS_VALUE.items():
        test = name.split(':')[0]
        for n in ns:
            pats = [p for p in patterns(n) if p.count('m') <= (1 if ck.tier != 'thorough' else n)]
            for pat in pats:
                base_args, base_kw = build(data_input('inp', pat), n)
                cb = Case(test, base_args, base_kw, label=f'{name}({pat!r})', meta={'class': 'invariance'})
                ob = run_case(ck, cb, allow_refused=True)
                xfs = []
                if do_shift:
                    xfs.append(('value-shift', lambda a, i: X.add(a, DELTA)))
                if do_neg:
                    xfs.append(('negation', lambda a, i: X.neg(a)))
                for tname, f in xfs:
                    v = [e for e in vals('inp', pat, f)]
                    args, kw = build(v, n)
                    cx = Case(test, args, kw, label=f'{name}({pat!r}) after {tname}', meta={'class': 'invariance'})
                    ox = run_case(ck, cx, allow_refused=True)
                    equal_flags(ck, f'C17.{tname}', f'{fn_key(cb)}:{tname}', cb.label, ob, cx.label, ox, f'{name}: {tname}')
                if test == 'spike_test':
                    v = [Sc(x('inp', n - 1 - i)) if pat[n - 1 - i] == 'p' else None for i in range(n)]
                    args, kw = build(v, n)
                    cx = Case(test, args, kw, label=f'{name}({pat!r}) reversed', meta={'class': 'invariance'})
                    ox = run_case(ck, cx, allow_refused=True)
                    equal_flags(ck, 'C17.reversal', f'{fn_key(cb)}:reversal', cb.label, ob, cx.label, ox, f'{name}: reversal',
                                perm=lambda p, n=n: n - 1 - p)


def integer_carriers(ck):
    """An offset only cancels in exact arithmetic: differences / sums taken in a caller's integer dtype wrap around, so x -> x + d changes
    them.  Necessary condition decided here: no arithmetic on the data is carried out in the integer dtype of the input."""
    from ..repo import unparse
    for name, (build, do_shift, do_neg) in TESTS_VALUE.items():
        test = name.split(':')[0]
        n = 4
        args, kw = build(data_input('inp', 'p' * n, 'ndarray_int'), n)
        c = Case(test, args, kw, label=f'{name}(data=integer ndarray)', meta={'class': 'invariance'})
        o = run_case(ck, c, allow_refused=True)
        if o.kind == 'refused':
            from ..qc import concrete_envs, concretised
            o = run_case(ck, concretised(c, next(concrete_envs([c], ck.rng, 1))))
        # differences are shift-invariant even modulo 2^k ((x+d)-(y+d) = x-y); sums, means, products and spreads are not
        def is_difference(node):
            import ast
            if isinstance(node, ast.BinOp) and isinstance(node.op, ast.Sub):
                return True
            return isinstance(node, ast.Call) and getattr(node.func, 'attr', getattr(node.func, 'id', '')) in ('diff', 'ediff1d')
        ints = [e for e in o.events if e['kind'] == 'int-arith' and not is_difference(e.get('node'))]
        ck.ob('C17.value-shift', c.label, not ints, key=f'{fn_key(c)}:value-shift:integer-dtype-arithmetic',
              what=f'{c.label}: arithmetic on the data runs in the integer dtype of the input '
                   f'({unparse(ints[0]["node"], 70) if ints and ints[0].get("node") is not None else ""}): it wraps around, so adding a constant to all values changes the flags')


def time_transforms(ck):
    SH = 86400 * 365 + 7
    ns = [3, 4]
    def both(test, mk, label):
        ca = Case(test, *mk(0), label=f'{label}', meta={'class': 'invariance'})
        cb = Case(test, *mk(SH), label=f'{label} after time-shift', meta={'class': 'invariance'})
        oa, ob = run_case(ck, ca, allow_refused=True), run_case(ck, cb, allow_refused=True)
        equal_flags(ck, 'C17.time-shift', f'{fn_key(ca)}:time-shift', ca.label, oa, cb.label, ob, f'{test}: time shift')
    for n in ns:
        for pat in [p for p in patterns(n) if p.count('m') <= 1]:
            both('rate_of_change_test', lambda s: ([data_input('inp', pat), time_input('tinp', t10(n, s))], dict(threshold=Fr(1))), f'rate_of_change_test({pat!r})')
            both('flat_line_test', lambda s: ([data_input('inp', pat), time_input('tinp', t10(n, s))], dict(suspect_threshold=20, fail_threshold=30, tolerance=Fr(1))), f'flat_line_test({pat!r})')
            for extra in (dict(), dict(test_period=20, check_type='range'), dict(test_period=30, min_period=20)):
                both('attenuated_signal_test', lambda s: ([data_input('inp', pat), time_input('tinp', t10(n, s))], dict(suspect_threshold=Fr(2), fail_threshold=Fr(1), **extra)),
                     f'attenuated_signal_test({pat!r}; {extra})')
            both('speed_test', lambda s: ([data_input('lon', pat), data_input('lat', 'p' * n), time_input('tinp', t10(n, s))], dict(suspect_threshold=Fr(1), fail_threshold=Fr(2))),
                 f'speed_test(lon:{pat!r})')
    # sub-second timestamps with non-integral spacing, shifted by a fraction of a second
    frac = lambda n, s: [Fr(401, 4) + s + Fr(3, 2) * i for i in range(n)]
    for sh in (Fr(1, 4), Fr(1, 2), 86400 + Fr(1, 2)):
        for n in (3, 4):
            pat = 'p' * n
            for test, mk in (
                ('speed_test', lambda s: ([data_input('lon', pat), data_input('lat', pat), time_input('tinp', frac(n, s))], dict(suspect_threshold=Fr(1), fail_threshold=Fr(2)))),
                ('rate_of_change_test', lambda s: ([data_input('inp', pat), time_input('tinp', frac(n, s))], dict(threshold=Fr(1)))),
                ('flat_line_test', lambda s: ([data_input('inp', pat), time_input('tinp', frac(n, s))], dict(suspect_threshold=3, fail_threshold=5, tolerance=Fr(1)))),
                ('attenuated_signal_test', lambda s: ([data_input('inp', pat), time_input('tinp', frac(n, s))], dict(suspect_threshold=Fr(2), fail_threshold=Fr(1), test_period=4, check_type='range'))),
            ):
                ca = Case(test, *mk(0), label=f'{test}(n={n}; 1.5 s sampling from xx.25 s)', meta={'class': 'invariance'})
                cb = Case(test, *mk(sh), label=f'{test}(n={n}; 1.5 s sampling) after time-shift {sh} s', meta={'class': 'invariance'})
                equal_flags(ck, 'C17.time-shift', f'{fn_key(ca)}:sub-second-time-shift', ca.label, run_case(ck, ca, allow_refused=True), cb.label, run_case(ck, cb, allow_refused=True), f'{test}: sub-second time shift')
    # climatology (absolute span shifted too) and time-valued valid_range
    from ..models_pd import TS
    for pat in ('ppp', 'pmp'):
        def mk(s):
            cfg = [dict(tspan=(TS(100 + s), TS(120 + s)), vspan=(Fr(2), Fr(4)), fspan=(Fr(1), Fr(5)))]
            return [], dict(config=cfg, inp=data_input('inp', pat), tinp=time_input('tinp', [90 + s, 100 + s, 120 + s]),
                            zinp=data_input('zinp', 'ppp', values=[Fr(1)] * 3))
        both('climatology_test', mk, f'climatology_test({pat!r})')
        # a span that ends exactly at midnight, an observation later that day, and offsets that are not whole days (a change of time zone):
        # what is special about midnight in the unshifted run is gone after the shift
        day = 86400
        for off in (6 * 3600, -3600, day // 2):
            def mkd(s, off=off):
                s = off if s else 0
                cfg = [dict(tspan=(TS(day + s), TS(2 * day + s)), vspan=(Fr(2), Fr(4)), fspan=(Fr(1), Fr(5)))]
                return [], dict(config=cfg, inp=data_input('inp', pat), tinp=time_input('tinp', [day + s, 2 * day + s, 2 * day + 3600 + s]),
                                zinp=data_input('zinp', 'ppp', values=[Fr(1)] * 3))
            both('climatology_test', mkd, f'climatology_test({pat!r}; span ending at midnight, shift {off} s)')
    for si, ei in ((None, None), (False, True)):
        def mk(s):
            cells = [El(X.add(('x', 'inp', i), X.num(s)), False) for i in range(2)]
            inp = Vec.fresh(cells, kind='nd', dtype='M8', unit='ns', owner='inp')
            kw = dict(valid_span=(Sc(X.num(100 + s), 'M8', 'ns'), Sc(X.num(200 + s), 'M8', 'ns')))
            if si is not None:
                kw.update(start_inclusive=si, end_inclusive=ei)
            return [inp], kw
        both('valid_range_test', mk, f'valid_range_test(time-valued; inclusive={si},{ei})')


def joint_shift(ck):
    # offsets that put a bound of the shifted spans exactly on 0 (a bound equal to zero is a bound like any other), and one that does not
    for D in (Fr(7), Fr(-2), Fr(-4), Fr(-6), Fr(-1), Fr(-5)):
        joint_shift_by(ck, D)


def joint_shift_by(ck, D):
    for pat in ('p', 'pm'):
        for ss in (None, (2, 4)):
            def mk(s):
                kw = dict(fail_span=(Fr(0) + s, Fr(6) + s))
                if ss:
                    kw['suspect_span'] = (Fr(ss[0]) + s, Fr(ss[1]) + s)
                return [vals('inp', pat, lambda a, i: X.add(a, X.num(s)))], kw
            ca = Case('gross_range_test', *mk(0), label=f'gross_range_test({pat!r}, suspect={ss})', meta={'class': 'invariance'})
            cb = Case('gross_range_test', *mk(D), label=f'gross_range_test({pat!r}, suspect={ss}) data and spans + {D}', meta={'class': 'invariance'})
            equal_flags(ck, 'C17.joint-shift', f'{fn_key(ca)}:joint-shift', ca.label, run_case(ck, ca, allow_refused=True), cb.label, run_case(ck, cb, allow_refused=True), 'gross_range_test: joint shift')
        def mkv(s):
            cells = [El(X.add(('x', 'inp', i), X.num(s)), False) if c == 'p' else El(X.NAN, False) for i, c in enumerate(pat)]
            return [Vec.fresh(cells, kind='nd', dtype='f8', owner='inp')], dict(valid_span=(Fr(1) + s, Fr(5) + s))
        ca = Case('valid_range_test', *mkv(0), label=f'valid_range_test({pat!r})', meta={'class': 'invariance'})
        cb = Case('valid_range_test', *mkv(D), label=f'valid_range_test({pat!r}) data and span + {D}', meta={'class': 'invariance'})
        equal_flags(ck, 'C17.joint-shift', f'{fn_key(ca)}:joint-shift', ca.label, run_case(ck, ca, allow_refused=True), cb.label, run_case(ck, cb, allow_refused=True), 'valid_range_test: joint shift')


# ---- locality ------------------------------------------------------------------------------------
def neighbourhoods():
    """test -> (builder(pattern) -> (args, kwargs, input names), affected(j, n) -> set of positions whose flag may depend on observation j)"""
    t = t10
    one = lambda j, n: {j}
    three = lambda j, n: {j - 1, j, j + 1}
    succ = lambda j, n: {j, j + 1}
    yield 'gross_range_test', lambda p: ([data_input('inp', p)], dict(fail_span=(Fr(0), Fr(6)), suspect_span=(Fr(2), Fr(4)))), one
    yield 'valid_range_test', lambda p: ([data_input('inp', p, carrier='ndarray')], dict(valid_span=(Fr(1), Fr(5)))), one
    yield 'spike_test', lambda p: ([data_input('inp', p)], dict(suspect_threshold=Fr(1), fail_threshold=Fr(2))), three
    yield 'spike_test', lambda p: ([data_input('inp', p)], dict(suspect_threshold=Fr(1), fail_threshold=Fr(2), method='differential')), three
    yield 'rate_of_change_test', lambda p: ([data_input('inp', p), time_input('tinp', t(len(p)))], dict(threshold=Fr(1))), succ
    yield 'density_inversion_test', lambda p: ([data_input('inp', p), data_input('zinp', 'p' * len(p), values=[Fr(i) for i in range(len(p))])],
                                               dict(suspect_threshold=Fr(-1), fail_threshold=Fr(-2))), three
    yield 'flat_line_test', lambda p: ([data_input('inp', p), time_input('tinp', t(len(p)))], dict(suspect_threshold=10, fail_threshold=20, tolerance=Fr(1))), \
        (lambda j, n: set(range(j, j + 3)))
    yield 'attenuated_signal_test', lambda p: ([data_input('inp', p), time_input('tinp', t(len(p)))],
                                               dict(suspect_threshold=Fr(2), fail_threshold=Fr(1), check_type='range', test_period=20)), \
        (lambda j, n: set(range(j, j + 2)))
    yield 'attenuated_signal_test', lambda p: ([data_input('inp', p), time_input('tinp', t(len(p)))],
                                               dict(suspect_threshold=Fr(2), fail_threshold=Fr(1), test_period=30, min_obs=2)), \
        (lambda j, n: set(range(j, j + 3)))
    # irregular sampling: the neighbourhood is defined by time (the trailing window (t - period, t]), not by a number of observations
    irr = [100, 110, 120, 300, 310, 320]
    def in_window(period):
        return lambda j, n: {q for q in range(n) if irr[q] - period < irr[j] <= irr[q]}
    yield 'attenuated_signal_test', lambda p: ([data_input('inp', p), time_input('tinp', irr[:len(p)])],
                                               dict(suspect_threshold=Fr(2), fail_threshold=Fr(1), check_type='range', test_period=20)), in_window(20)
    yield 'attenuated_signal_test', lambda p: ([data_input('inp', p), time_input('tinp', irr[:len(p)])],
                                               dict(suspect_threshold=Fr(2), fail_threshold=Fr(1), test_period=30, min_obs=2)), in_window(30)
    yield 'attenuated_signal_test', lambda p: ([data_input('inp', p), time_input('tinp', irr[:len(p)])],
                                               dict(suspect_threshold=Fr(2), fail_threshold=Fr(1), test_period=30, min_period=20)), in_window(30)
    yield 'climatology_test', lambda p: ([], dict(config=[dict(tspan=(_ts(0), _ts(10 ** 6)), vspan=(Fr(2), Fr(4)))], inp=data_input('inp', p),
                                                  tinp=time_input('tinp', t(len(p))), zinp=data_input('zinp', 'p' * len(p), values=[Fr(1)] * len(p)))), one


def _ts(s):
    from ..models_pd import TS
    return TS(s)


def locality(ck):
    ns = [4, 5] if ck.tier != 'thorough' else [3, 4, 5, 6]
    for test, build, affected in neighbourhoods():
        for n in ns:
            base_pats = [p for p in patterns(n) if p.count('m') <= (1 if ck.tier != 'thorough' else 2)]
            cache = {}

            def run(pat):
                if pat not in cache:
                    args, kw = build(pat)
                    c = Case(test, args, kw, label=f'{test}({pat!r}; {sorted(k for k in kw if k not in ("inp", "tinp", "zinp", "config"))})', meta={'class': 'locality'})
                    cache[pat] = (c, run_case(ck, c, allow_refused=True))
                return cache[pat]
            for pat in base_pats:
                c, o = run(pat)
                if o.kind != 'return' or not isinstance(o.value, Vec):
                    continue
                # 1. value dependence: the flag at p mentions x_j only if p is in the neighbourhood of j
                for p, e in enumerate(o.value.els()):
                    atoms = {a[2] for a in X.data_atoms(e.d) if a[1] == 'inp'}
                    bad = sorted(j for j in atoms if p not in affected(j, n))
                    ck.ob('C17.locality', f'{c.label} @ {p}', not bad, key=f'{fn_key(c)}:stencil',
                          what=f'{c.label}: the flag at position {p} depends on observation(s) {bad} outside its neighbourhood')
                # 2. presence dependence: making observation j missing changes flags only inside the neighbourhood of j
                for j in range(n):
                    if pat[j] != 'p':
                        continue
                    pat2 = pat[:j] + 'm' + pat[j + 1:]
                    c2, o2 = run(pat2)
                    outside = {p for p in range(n) if p not in affected(j, n)}
                    equal_flags(ck, 'C17.locality', f'{fn_key(c)}:presence', c.label, o, c2.label, o2,
                                f'{test}: observation {j} made missing', only=outside)
    # position tests: lon/lat
    for rmax, affected in ((None, lambda j, n: {j}), (Fr(5), lambda j, n: {j, j + 1})):
        for n in (3, 4):
            for plon in [p for p in patterns(n) if p.count('m') <= 1]:
                kw = {} if rmax is None else dict(range_max=rmax)
                c = Case('location_test', [data_input('lon', plon), data_input('lat', 'p' * n)], kw, label=f'location_test(lon:{plon!r}; range_max={rmax})', meta={'class': 'locality'})
                o = run_case(ck, c, allow_refused=True)
                if o.kind != 'return':
                    continue
                for p, e in enumerate(o.value.els()):
                    atoms = {a[2] for a in X.data_atoms(e.d)}
                    bad = sorted(j for j in atoms if p not in affected(j, n))
                    ck.ob('C17.locality', f'{c.label} @ {p}', not bad, key='ioos_qc.qartod.location_test:stencil',
                          what=f'{c.label}: the flag at {p} depends on position(s) {bad} outside its neighbourhood')
            c = Case('speed_test', [data_input('lon', 'p' * n), data_input('lat', 'p' * n), time_input('tinp', t10(n))],
                     dict(suspect_threshold=Fr(1), fail_threshold=Fr(2)), label=f'speed_test(n={n})', meta={'class': 'locality'})
            o = run_case(ck, c, allow_refused=True)
            if o.kind == 'return':
                for p, e in enumerate(o.value.els()):
                    atoms = {a[2] for a in X.data_atoms(e.d)}
                    bad = sorted(j for j in atoms if p not in {j, j + 1})
                    ck.ob('C17.locality', f'{c.label} @ {p}', not bad, key='ioos_qc.argo.speed_test:stencil',
                          what=f'{c.label}: the flag at {p} depends on position(s) {bad}')


def run(ck):
    ck.explanation = (
        'Decided on the flag expressions derived by abstract interpretation: (1) replacing every value x by x+d (d symbolic), by -x, every '
        'timestamp by t+D, or data and spans together by +D leaves every flag expression equivalent on all order cells (quantities are '
        'identified by exact rational identity testing, so d must cancel); spike flags reverse with the series; (2) the data atoms occurring '
        'in the flag of position p lie inside the neighbourhood table of the property, and making one observation missing leaves every flag '
        'outside its neighbourhood unchanged. Universal over values; lengths 3..5 (6 thorough). Float rounding is outside the claim (the '
        'property restricts to dyadic values).')
    value_transforms(ck)
    integer_carriers(ck)
    time_transforms(ck)
    joint_shift(ck)
    locality(ck)
    ck.floor('C17.value-shift', 40)
    ck.floor('C17.negation', 30)
    ck.floor('C17.time-shift', 30)
    ck.floor('C17.locality', 200)
