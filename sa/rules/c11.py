from .. import cases
from .common import run_tables


def run(ck):
    run_tables(ck, 'C11.flat_line', cases.flat_line)
