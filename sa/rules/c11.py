from .. import cases
from .common import run_carrier_sweep, run_tables


def run(ck):
    run_tables(ck, 'C11.flat_line', cases.flat_line)
    run_tables(ck, 'C11.flat_line', cases.flat_line_fractional)
    run_carrier_sweep(ck, 'C11.flat_line', cases.flat_line, n_max=4)
