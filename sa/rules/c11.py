from .. import cases
from .common import run_carrier_sweep, run_tables


def run(ck):
    run_tables(ck, 'C11.flat_line', cases.flat_line)
    run_tables(ck, 'C11.flat_line', cases.flat_line_fractional)
    run_carrier_sweep(ck, 'C11.flat_line', cases.flat_line, n_max=4)
    # steps that are not whole seconds, with the instants in every container that can carry them (epoch numbers with a fraction included)
    run_carrier_sweep(ck, 'C11.flat_line', cases.flat_line_fractional, data=False, n_max=6, per_class=3)
