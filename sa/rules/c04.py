"""C04 — aggregation reports, per point, the worst flag any test produced."""
import collections
import itertools

from .. import expr as X
from ..cells import flags_of
from ..interp import Instance
from ..vec import El, Vec

PREC = [9, 2, 1, 3, 4]            # MISSING < UNKNOWN < GOOD < SUSPECT < FAIL  (from the property statement)
from fractions import Fraction as _Fr
VALUES = [1, 2, 3, 4, 9, 7, 'masked']   # 7 = a value that is not a flag
# further non-flag values that collide with a flag code under integer truncation / 8-bit wrap-around
ODD = [_Fr(7, 2), _Fr(9, 2), 260, 265, 0, -1, _Fr(19, 2)]


def mkvec(vals, kind='ma'):
    cells = [El(X.ANY, True) if v == 'masked' else El(X.num(v), False) for v in vals]
    ints = all(v == 'masked' or (isinstance(v, int) and 0 <= v < 256) for v in vals)
    return Vec.fresh(cells, kind=kind, dtype='u1' if ints else 'f8', owner='flags')


def expected(columns):
    """columns: list over vectors of the value at one position"""
    best = None
    for v in columns:
        if v in PREC and (best is None or PREC.index(v) > PREC.index(best)):
            best = v
    return 9 if best is None else best


def concrete(vec):
    out = []
    for e in vec.els():
        fl = flags_of(X.eval_values(e.d, {}))
        out.append((sorted(map(str, fl)), e.m))
    return out


def run(ck):
    ck.explanation = (
        'Decided: qartod_compare interpreted abstractly on every combination of k<=3 vectors over {1,2,3,4,9, a non-flag value, masked} '
        '(exhaustive per position, plus two-point vectors for position independence) equals max-by-precedence MISSING<UNKNOWN<GOOD<SUSPECT<FAIL '
        'ignoring masked and non-flag entries, MISSING when nothing remains, result unmasked; hence commutative / idempotent / '
        'duplication-insensitive on that domain. aggregate() and PandasStore.compute_aggregate pass *all* collected results and append '
        'exactly one roll-up. Not decided: k>3 beyond the symmetric structure of the table.')
    r = ck.runner
    qc = r.function('ioos_qc.qartod', 'qartod_compare')
    kmax = 3
    for k in range(1, kmax + 1):
        for combo in itertools.product(VALUES, repeat=k):
            vecs = [mkvec([v]) for v in combo]
            out = r.run(qc, [vecs])
            ck.count(1, distinct=('cmp', combo))
            label = f'qartod_compare({list(combo)})'
            if out.kind == 'raise':
                ck.violate('C04.table', f'qartod_compare:raises:{out.exc.tname}', f'{label} raises {out.exc.tname}{out.exc.args}')
                continue
            got = concrete(out.value)
            want = expected(combo)
            ok = len(got) == 1 and got[0] == ([str(want)], False)
            ck.ob('C04.table', label, ok, key=f'qartod_compare:table:want={want}',
                  what=f'{label} gives {got}, the property gives {want} (unmasked)')
    # non-flag values that would turn into flag codes if the inputs were cast to small integers
    for odd in ODD:
        for other in (1, 4, 9, 'masked', odd):
            for combo in ((odd, other), (other, odd), (odd,)):
                vecs = [mkvec([v]) for v in combo]
                out = r.run(qc, [vecs])
                label = f'qartod_compare({[str(v) for v in combo]})'
                ck.count(1, distinct=('cmp-odd', str(combo)))
                if out.kind == 'raise':
                    ck.violate('C04.table', f'qartod_compare:raises:{out.exc.tname}', f'{label} raises {out.exc.tname}{out.exc.args}')
                    continue
                want = expected(combo)
                got = concrete(out.value)
                ck.ob('C04.table', label, got == [([str(want)], False)], key='qartod_compare:non-flag-value-counted',
                      what=f'{label} gives {got}, the property gives {want}: values that are not flags must be ignored')
    # many vectors ("any number of"): the worst flag sits first, last, in the middle, at a multiple of 8 / 16, or nowhere
    for k in (5, 8, 9, 16, 17, 24, 33):
        for worst_at in sorted({0, k - 1, k // 2, 7, 8, 15, 16} & set(range(k))):
            for base, worst in ((1, 4), (9, 2), ('masked', 3), (2, 1)):
                combo = [base] * k
                combo[worst_at] = worst
                vecs = [mkvec([v]) for v in combo]
                out = r.run(qc, [vecs])
                label = f'qartod_compare({k} vectors, all {base} except {worst} at #{worst_at})'
                ck.count(1, distinct=('cmp-many', k, worst_at, str(base)))
                if out.kind == 'raise':
                    ck.violate('C04.table', f'qartod_compare:raises:{out.exc.tname}', f'{label} raises {out.exc.tname}{out.exc.args}')
                    continue
                want = expected(combo)
                got = concrete(out.value)
                ck.ob('C04.table', label, got == [([str(want)], False)], key='qartod_compare:many-vectors',
                      what=f'{label} gives {got}, the property gives {want}')
    # position independence / several points / input untouched
    for cols in itertools.islice(itertools.product(itertools.product(VALUES, repeat=2), repeat=2), 0, None, 7):
        # cols = (vector1 values, vector2 values), two positions each
        vecs = [mkvec(list(c)) for c in cols]
        before = [list(v.back.cells) for v in vecs]
        out = r.run(qc, [vecs])
        label = f'qartod_compare({[list(c) for c in cols]})'
        if out.kind == 'raise':
            ck.violate('C04.table', f'qartod_compare:raises:{out.exc.tname}', f'{label} raises {out.exc.tname}')
            continue
        got = concrete(out.value)
        want = [expected([c[i] for c in cols]) for i in range(2)]
        ok = got == [([str(w)], False) for w in want]
        ck.ob('C04.positions', label, ok, key='qartod_compare:positions', what=f'{label} gives {got}, expected {want}')
        ck.ob('C04.pure', label, [list(v.back.cells) for v in vecs] == before and not [e for e in out.events if e['kind'] == 'mutation'],
              key='qartod_compare:mutates-input', what=f'{label} modifies its input vectors')
    # aggregate(): all results of its argument
    agg = r.function('ioos_qc.qartod', 'aggregate')
    R = collections.namedtuple('R', 'results')
    CR0 = r.interp.module('ioos_qc.results').globals['CollectedResult']
    for combo in itertools.product([1, 3, 4, 9, 'masked'], repeat=3):
        # plain records, CollectedResults with distinct labels, and CollectedResults that all carry the same stream / package / test label
        # (two passes over one stream): every vector counts, whatever its label
        for kind in ('records', 'collected', 'collected-same-label'):
            if kind == 'records':
                items = [R(mkvec([v])) for v in combo]
            else:
                items = [r.interp.instantiate(CR0, [], dict(stream_id='s' if kind.endswith('label') else f's{i}', package='qartod', test='t', function=None,
                                                            results=mkvec([v])), None) for i, v in enumerate(combo)]
            out = r.run(agg, [items])
            label = f'aggregate({list(combo)} as {kind})'
            ok = out.kind == 'return' and concrete(out.value) == [([str(expected(combo))], False)]
            ck.ob('C04.aggregate', label, ok, key=f'aggregate:all-results:{kind}', what=f'{label} does not equal the roll-up of all results')

    # PandasStore.compute_aggregate: all collected results, exactly one appended roll-up
    stores = r.interp.module('ioos_qc.stores')
    PS = stores.globals['PandasStore']
    CR = r.interp.module('ioos_qc.results').globals['CollectedResult']
    # results of every package count alike (the roll-up is over *all* collected results, whichever module produced them)
    for combo, pkgs in itertools.product(itertools.product([1, 3, 4], repeat=3),
                                         (('qartod', 'qartod', 'qartod'), ('qartod', 'axds', 'argo'), ('axds', 'qartod', 'qartod'), ('axds', 'argo', 'axds'), ('plain-ndarray',) * 3)):
        inst = Instance(PS)
        crs = []
        # (some tests hand back plain ndarrays - flat_line, attenuated_signal, pressure_increasing; bare CallResults carry them as they are)
        plain = pkgs[0] == 'plain-ndarray'
        if plain:
            pkgs = ('qartod', 'qartod', 'argo')
        for i, v in enumerate(combo):
            cr = r.interp.instantiate(CR, [], dict(stream_id=f's{i}', package=pkgs[i], test=f't{i}', function=None,
                                                   results=mkvec([v], kind='nd' if plain and i != 1 else 'ma')), None)
            crs.append(cr)
        inst.attrs['collected_results'] = list(crs)
        meth = r.interp.getattr(inst, 'compute_aggregate', None)
        out = r.run(meth, [])
        label = f'compute_aggregate({list(combo)} from packages {list(pkgs)})'
        cl = inst.attrs['collected_results']
        ok = out.kind == 'return' and len(cl) == len(crs) + 1 and all(a is b for a, b in zip(cl, crs))
        if ok:
            ok = concrete(cl[-1].attrs['results']) == [([str(expected(combo))], False)]
        ck.ob('C04.store', label, ok, key='PandasStore.compute_aggregate', what=f'{label}: the roll-up is not the aggregate of all collected results appended once')
    # a single collected result, partly not evaluated (masked): the roll-up is MISSING there, never masked
    for combo in (('masked', 1), (3, 'masked'), ('masked', 'masked'), (4, 1)):
        inst = Instance(PS)
        cr = r.interp.instantiate(CR, [], dict(stream_id='s0', package='qartod', test='t0', function=None, results=mkvec(list(combo))), None)
        inst.attrs['collected_results'] = [cr]
        out = r.run(r.interp.getattr(inst, 'compute_aggregate', None), [])
        cl = inst.attrs['collected_results']
        want = [([str(expected([v]))], False) for v in combo]
        ok = out.kind == 'return' and len(cl) == 2 and cl[0] is cr and concrete(cl[-1].attrs['results']) == want
        ck.ob('C04.store', f'compute_aggregate(single result {list(combo)})', ok, key='PandasStore.compute_aggregate:single-result',
              what=f'compute_aggregate with one collected result {list(combo)}: roll-up {concrete(cl[-1].attrs["results"]) if len(cl) == 2 else "missing"}, expected {want}')
    run_level_rollup(ck)
    ck.floor('C04.table', 300)
    ck.floor('C04.store', 20)


def run_level_rollup(ck):
    """The roll-up of a whole run, as a user gets it (stream -> PandasStore -> compute_aggregate): at every row the worst flag among the tests
    that *evaluated* that row (the rows of each context's window), MISSING where no test did - "ignoring not-evaluated entries"."""
    from ..interp import AbsRaise
    from ..streams_h import Table, make_config_source, run_frontend, test_menu
    from .c05 import t
    r, it = ck.runner, ck.runner.interp
    PS = it.module('ioos_qc.stores').globals['PandasStore']
    conc = {'a': [1, 5, 30, 3, 9], 'b': [2, 2, 2, 2, 50], 'lat': [1, 2, 3, 4, 5], 'lon': [6, 7, 8, 9, 10]}
    menu = test_menu()
    setups = {
        'two-windows-leaving-a-row-out': [dict(window=(t(0), t(2)), tests={'a': ['gross', 'spike'], 'b': ['gross']}),
                                          dict(window=(t(3), t(4)), tests={'a': ['gross'], 'b': ['flat']})],
        'one-window': [dict(window=(t(1), t(4)), tests={'a': ['gross', 'spike', 'roc']})],
        'whole-record': [dict(window=(None, None), tests={'a': ['gross', 'spike'], 'b': ['gross']})],
    }
    for name, contexts in setups.items():
        for fe in ('numpy', 'pandas'):
            table = Table(5, streams=('a', 'b'), concrete=conc)
            run0 = run_frontend(r, fe, table, make_config_source(contexts))
            label = f'{fe}[{name}] PandasStore.compute_aggregate'
            ck.count(1, distinct=label)
            if run0.error is not None:
                ck.violate('C04.run', f'{fe}:stream-raises', f'{label}: the stream raises {run0.error.exc}')
                continue
            # what each test reported, row by row (from the stream's own ContextResults)
            rows = [[] for _ in range(table.n)]
            for (sid, pkg, test, mask, flags, cr) in run0.results:
                idx = [i for i, m in enumerate(mask) if m == 'true']
                vals = concrete(flags)
                for pos, i in enumerate(idx):
                    fl, masked = vals[pos]
                    if masked is False and len(fl) == 1:
                        rows[i].append(int(fl[0]))
            want = [([str(expected(col))], False) for col in rows]
            try:
                ps = it.instantiate(PS, [list(run0.context_results)], {}, None)
                it.call(it.getattr(ps, 'compute_aggregate', None), [], {}, None)
            except AbsRaise as e:
                ck.violate('C04.run', f'{fe}:compute_aggregate-raises-{e.exc.tname}', f'{label}: raises {e.exc.tname}{e.exc.args}')
                continue
            roll = ps.attrs['collected_results'][-1]
            got = concrete(roll.attrs['results'])
            ck.ob('C04.run', label, got == want, key='PandasStore.compute_aggregate:run-level-rollup',
                  what=f'{label}: roll-up {got}; the worst flag among the tests that evaluated each row (MISSING where none did) is {want}')
