from .. import cases
from .common import run_tables


def run(ck):
    run_tables(ck, 'C09.spike', cases.spike)
