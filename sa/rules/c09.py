from .. import cases
from .common import run_carrier_sweep, run_tables


def run(ck):
    run_tables(ck, 'C09.spike', cases.spike)
    run_carrier_sweep(ck, 'C09.spike', cases.spike, time=False, n_max=4)
