"""C01 — every QC test is a total, pure map from a series to one valid flag per point."""
from .. import cases, expr as X
from ..cells import flags_of
from ..qc import FLAGSET, fn_key, run_case
from ..vec import Vec

TESTS = list(cases.ALL) + ['pressure_increasing_test']


def leaves(e, acc):
    if isinstance(e, tuple) and e and e[0] == 'ite':
        leaves(e[2], acc)
        leaves(e[3], acc)
    else:
        acc.add(e)
    return acc


def snapshot_inputs(case):
    snap = []
    for name, v in list(enumerate(case.args)) + list(case.kwargs.items()):
        if isinstance(v, Vec):
            snap.append((name, v, list(v.back.cells)))
        elif isinstance(v, list):
            snap.append((name, v, list(v)))
    return snap


def check_case(ck, case, spec):
    test = case.test
    key = fn_key(case)
    snap = snapshot_inputs(case)
    out = run_case(ck, case, allow_refused=True)
    if spec is not None and spec.rejects:
        return
    if out.kind == 'refused':
        # symbolic interpretation refused: the same obligations on exact representative data
        from ..qc import concrete_envs, concretised
        ck.rule_counts['concretised-fallback'] = ck.rule_counts.get('concretised-fallback', 0) + 1
        for env in concrete_envs([case], ck.rng, 4):
            c2 = concretised(case, env)
            snap2 = snapshot_inputs(c2)
            o2 = run_case(ck, c2)
            check_outcome(ck, c2, spec, snap2, o2)
        return
    check_outcome(ck, case, spec, snap, out)


def check_outcome(ck, case, spec, snap, out):
    test = case.test
    key = fn_key(case)
    cls = case.meta.get('class', '')
    if out.kind == 'raise':
        site = ''
        if out.node is not None:
            from ..repo import unparse
            site = f' at `{unparse(out.node, 70)}`'
        ck.violate('C01.total', f'{key}:n={case.n}:{out.exc.tname}:{cls if case.n > 2 else ""}',
                   f'{case.label}: raises {out.exc.tname}{out.exc.args}{site} on valid input (length {case.n})',
                   dict(case=case.label))
        return
    ck.hold('C01.total', case.label)
    v = out.value
    if not isinstance(v, Vec):
        ck.violate('C01.shape', f'{key}:result-type', f'{case.label}: returns {type(v).__name__}')
        return
    ck.ob('C01.shape', case.label, len(v) == case.n, key=f'{key}:length',
          what=f'{case.label}: {len(v)} flags for {case.n} inputs')
    bad_vals, masked = set(), False
    for e in v.els():
        if e.m is not False:
            masked = True
        for leaf in leaves(e.d, set()):
            fl = flags_of([leaf])
            if not fl <= FLAGSET:
                bad_vals |= fl
    ck.ob('C01.alphabet', case.label, not bad_vals, key=f'{key}:values:{sorted(map(str, bad_vals))}',
          what=f'{case.label}: flag values outside {{1,2,3,4,9}}: {sorted(map(str, bad_vals))}')
    ck.ob('C01.unmasked', case.label, not masked, key=f'{key}:masked-result',
          what=f'{case.label}: a returned flag is hidden behind a mask')
    # purity: no store into caller-owned memory, no mutation of caller-owned containers, inputs unchanged
    muts = [ev for ev in out.events if ev['kind'] == 'mutation']
    for ev in muts:
        ck.violate('C01.pure', f"{key}:mutates:{ev['owner']}:{ev['what']}",
                   f"{case.label}: {ev['what']} on caller-owned / shared object `{ev['owner']}`")
    changed = [str(name) for name, obj, before in snap
               if (list(obj.back.cells) if isinstance(obj, Vec) else list(obj)) != before]
    ck.ob('C01.pure', case.label, not changed and not muts, key=f'{key}:input-changed:{changed}',
          what=f'{case.label}: input {changed} differs after the call')
    # history independence: no writes to module / class state, no ambient reads that reach the result
    for ev in out.events:
        if ev['kind'] in ('global-write', 'class-attr-write'):
            ck.violate('C01.stateless', f"{key}:{ev['kind']}:{ev.get('name')}",
                       f"{case.label}: writes shared state {ev.get('name')}")
        if ev['kind'] == 'env-read':
            ck.violate('C01.stateless', f'{key}:env-read', f"{case.label}: reads the {ev.get('what')}")
        if ev['kind'] == 'clock-read':
            stack = ev['stack'][-1] if ev['stack'] else ''
            if not stack.endswith('ClimatologyConfig.add'):
                ck.violate('C01.stateless', f'{key}:clock-read:{stack}', f'{case.label}: reads the clock in {stack}')
    ck.hold('C01.stateless', case.label)


def run(ck):
    ck.explanation = (
        'Decided by abstract interpretation of each test function over series of length 0..N with symbolic values and every '
        'placement of missing markers: no exception on valid parameters, one flag per element, every reachable flag value in '
        '{1,2,3,4,9}, no mask on the result, no store into caller-owned arrays / lists / config objects, no write to module or '
        'class state, no clock / random read that can reach the result (the single audited clock read, in ClimatologyConfig.add, '
        'is a discarded getattr probe). Not decided: totality for lengths above the bound with exotic parameter values; numeric equality '
        'of repeated runs beyond statelessness.')
    for name in cases.ALL:
        for case, spec in cases.ALL[name](ck.tier):
            check_case(ck, case, spec)
    # the same obligations (purity above all) when the caller hands over arrays it owns: float ndarray, Series, masked array, and the
    # time axis as an array / index - containers a test could wrap without copying
    import inspect
    for name, gen in cases.ALL.items():
        params = inspect.signature(gen).parameters
        sweeps = [('carrier', c) for c in ('ndarray', 'series', 'masked_nan', 'list_nan')] if 'carrier' in params else []
        sweeps += [('tcarrier', c) for c in ('series', 'dtindex', 'epoch_array', 'dt64_s', 'series_tz', 'dtindex_tz', 'epoch_series')] if 'tcarrier' in params else []
        for param, value in sweeps:
            seen = {}
            for case, spec in gen('quick', **{param: value}):
                cls = (case.meta.get('class'), case.n)
                if case.n > 3 or case.n < 2 or seen.get(cls, 0) >= 2:
                    continue
                seen[cls] = seen.get(cls, 0) + 1
                case.label = f'{case.label} [{param}={value}]'
                check_case(ck, case, spec)
    # "any valid parameters": the same numbers as numpy scalars (np.int64 from an array or attribute, np.float32, np.float64) are valid
    from ..qc import numpy_scalar_params
    for name, gen in cases.ALL.items():
        for kind in ('int64', 'float32', 'float64'):
            seen = {}
            for case, spec in gen('quick'):
                cls = case.meta.get('class')
                if case.n != 3 or seen.get(cls, 0) >= 1 or (spec is not None and spec.rejects):
                    continue
                seen[cls] = 1
                case.kwargs = numpy_scalar_params(case.kwargs, kind)
                case.label = f'{case.label} [parameters as np.{kind}]'
                check_case(ck, case, spec)
    for case, spec in cases.spike(ck.tier, min_n=0):
        if case.n == 0:
            check_case(ck, case, spec)
    from ..qc import Case
    from ..scen import data_input, time_input
    from fractions import Fraction as Fr
    for pat in ('', 'p', 'm', 'pm'):
        for kw in (dict(suspect_threshold=Fr(1), fail_threshold=Fr(2)), dict(suspect_threshold=Fr(1), fail_threshold=Fr(2), method='differential')):
            c = Case('spike_test', [data_input('inp', pat)], kw, n=len(pat), pat={'inp': pat}, meta={'class': 'short'})
            check_case(ck, c, None)
    for case, _ in cases.pressure(ck.tier):
        check_case(ck, case, None)
    # pressure profiles with a gap (NaN is a value every float array can hold)
    from ..vec import El
    for vals in ((None,), (1, None), (None, 1), (1, None, 3), (None, None), (1, 2, None), (3, None, 1, None)):
        cells = [El(X.NAN if v is None else X.num(v), False) for v in vals]
        c = Case('pressure_increasing_test', [Vec.fresh(cells, kind='nd', dtype='f8', owner='inp')], {}, n=len(vals),
                 pat={'inp': ''.join('m' if v is None else 'p' for v in vals)}, meta={'class': 'profile-with-gap'},
                 label=f'pressure_increasing_test({list(vals)})')
        check_case(ck, c, None)
    # integer-typed pressure arrays (counts of decibars, as they come out of many files), up- and downcasts
    for vals in ((1, 2, 3), (3, 2, 1), (40, 30, 20, 10), (1, 1), (2, 1), (5,), (1, 3, 2)):
        cells = [El(X.num(v), False) for v in vals]
        c = Case('pressure_increasing_test', [Vec.fresh(cells, kind='nd', dtype='i8', owner='inp')], {}, n=len(vals), pat={'inp': 'p' * len(vals)},
                 meta={'class': 'integer-profile'}, label=f'pressure_increasing_test(int64 array {list(vals)})')
        check_case(ck, c, None)
        c = Case('pressure_increasing_test', [list(vals)], {}, n=len(vals), pat={'inp': 'p' * len(vals)},
                 meta={'class': 'integer-profile'}, label=f'pressure_increasing_test(list of ints {list(vals)})')
        check_case(ck, c, None)
    # the families whose tables start at one length only: the empty, one- and two-point series
    short_pats = ('', 'p', 'm', 'pp', 'pm', 'mp')
    for pat in short_pats:
        for kw in (dict(fail_span=(Fr(0), Fr(3))), dict(fail_span=(Fr(3), Fr(0)), suspect_span=[Fr(1), Fr(2)])):
            for carrier in ('list_none', 'ndarray'):
                c = Case('gross_range_test', [data_input('inp', pat, carrier)], dict(kw), n=len(pat), pat={'inp': pat}, meta={'class': 'short'},
                         label=f'gross_range_test(inp:{pat!r} [{carrier}]; {sorted(kw)})')
                check_case(ck, c, None)
        for kw in (dict(valid_span=(Fr(1), Fr(3))), dict(valid_span=(None, Fr(3)), start_inclusive=False, end_inclusive=True), dict(valid_span=(None, None))):
            c = Case('valid_range_test', [data_input('inp', pat, 'ndarray')], dict(kw), n=len(pat), pat={'inp': pat}, meta={'class': 'short'},
                     label=f'valid_range_test(inp:{pat!r}; {kw})')
            check_case(ck, c, None)
        from ..models_pd import TS
        mem = cases.clim_members()
        for name in ('none', 'abs', 'abs-zf', 'month-z', 'mixed'):
            cfg = []
            for m in mem[name]:
                d = dict(m)
                if d.get('period') is None:
                    d['tspan'] = (TS(d['tspan'][0]), TS(d['tspan'][1]))
                cfg.append({k: (tuple(Fr(a) if not isinstance(a, TS) else a for a in v) if isinstance(v, tuple) else v) for k, v in d.items()})
            n = len(pat)
            for zp in sorted({'p' * n, pat}):
                c = Case('climatology_test', [], dict(config=cfg, inp=data_input('inp', pat), tinp=time_input('tinp', list(cases.CLIM_T[1:1 + n]), 'dt64'),
                                                     zinp=data_input('zinp', zp, values=[Fr(15)] * n)),
                         n=n, pat={'inp': pat, 'zinp': zp}, meta={'class': 'short', 't': list(cases.CLIM_T[1:1 + n])},
                         label=f'climatology_test(members={name}; inp:{pat!r} zinp:{zp!r})')
                check_case(ck, c, None)
    # attenuated signal: the empty series on every path
    from ..scen import time_input
    for kw in (dict(), dict(check_type='range'), dict(test_period=20), dict(test_period=20, check_type='range')):
        c = Case('attenuated_signal_test', [data_input('inp', ''), time_input('tinp', [])],
                 dict(suspect_threshold=Fr(2), fail_threshold=Fr(1), **kw), n=0, pat={'inp': ''}, meta={'class': 'empty', 't': []})
        check_case(ck, c, None)

