"""C20 — generated configs evaluate their limit expressions correctly and statelessly."""
import itertools
from fractions import Fraction as Fr

from .. import expr as X
from ..cells import same_function
from ..interp import AbsRaise, Instance
from ..vec import El, Sc, Vec

STATS = ('min', 'max', 'mean', 'std')
OPS = '+-*/'


def stat(name):
    return Sc(('x', 'stat', name))


# ---- reference evaluation: ordinary arithmetic on a token list (independent precedence-climbing parser) ------
class Ref:
    def __init__(self, toks):
        self.toks = toks
        self.i = 0

    def peek(self):
        return self.toks[self.i] if self.i < len(self.toks) else None

    def take(self):
        t = self.peek()
        self.i += 1
        return t

    def expr(self):
        v = self.term()
        while self.peek() in ('+', '-'):
            op = self.take()
            r = self.term()
            v = X.add(v, r) if op == '+' else X.sub(v, r)
        return v

    def term(self):
        v = self.factor()
        while self.peek() in ('*', '/'):
            op = self.take()
            r = self.factor()
            if op == '*':
                v = X.mul(v, r)
            else:
                if X.is_num(r) and r[1] == 0:
                    raise ZeroDivisionError
                v = X.div(v, r)
        return v

    def factor(self):
        t = self.take()
        if t == '-':
            return X.neg(self.factor())
        if t == '+':
            return self.factor()
        if t == '(':
            v = self.expr()
            if self.take() != ')':
                raise SyntaxError('expected )')
            return v
        if t in STATS:
            return ('x', 'stat', t)
        if t is None or t in OPS or t == ')':
            raise SyntaxError(f'unexpected {t!r}')
        try:
            return X.num(Fr(t))
        except ValueError:
            raise SyntaxError(f'bad token {t!r}')


def reference(tokens):
    p = Ref(tokens)
    v = p.expr()
    if p.peek() is not None:
        raise SyntaxError('trailing tokens')
    return v


def expressions(thorough):
    """token lists covering precedence, associativity, unary minus, parentheses, every operator pair"""
    A, B, C, D = '2', 'mean', '3.5', 'std'
    out = [[A], [B], ['-', B], ['(', A, ')'], ['-', '(', B, ')'], ['-', '-', A]]
    for o1 in OPS:
        out.append([A, o1, B])
        out.append([B, o1, A])
        out.append(['-', A, o1, B])
        out.append([A, o1, '-', B])
        for o2 in OPS:
            out.append([A, o1, B, o2, C])
            out.append([B, o1, C, o2, A])
            out.append(['(', A, o1, B, ')', o2, C])
            out.append([A, o1, '(', B, o2, C, ')'])
            out.append(['-', '(', A, o1, B, ')', o2, '-', C])
            if thorough:
                for o3 in OPS:
                    out.append([A, o1, B, o2, C, o3, D])
                    out.append([A, o1, '(', B, o2, C, ')', o3, D])
    out += [['max', '-', 'min', '-', A, '-', C], ['max', '/', 'min', '/', A, '/', C], ['mean', '-', A, '*', 'std'], ['mean', '+', A, '*', 'std'],
            ['(', '(', 'mean', ')', ')'], ['(', 'max', '-', 'min', ')', '/', '(', A, '+', C, ')'], ['min', '-', '0.5'], ['1e1', '*', 'mean'],
            ['-', 'std', '*', '-', A], [A, '-', '-', B], [A, '*', '(', '-', '(', B, '+', C, ')', ')']]
    return out


def run(ck):
    ck.explanation = (
        'Decided by abstract interpretation of fx_parser.BNF / push actions / evaluate_stack / eval_fx with a model of the pyparsing combinators '
        '(sa/models_pp.py): every expression of a systematic family (all operator pairs and triples, both parenthesisations, unary minus in every operand '
        'position, left-associative chains) evaluates, with *symbolic* statistics, to an expression identical (exact rational identity test) to ordinary '
        'arithmetic computed by an independent precedence-climbing evaluator; interleaving failed parses and invalid identifiers does not change any later '
        'result (the module-level exprStack is only ever read from its tail); QcVariableConfig._validate_fx and the constructor accept exactly the token '
        'strings over numbers / min max mean std / + - * / / ( ); the span / spike / flat-line / rate-of-change / location sections of create_config are wired '
        'suspect_min->suspect_span[0] etc. and _get_stats maps min/max/mean/std to nanmin/nanmax/nanmean/nanstd of the subset. Not decided: pyparsing itself '
        '(modelled), the spline interpolation and dataset subsetting numerics of create_config.')
    r = ck.runner
    it = r.interp
    fx = it.module('ioos_qc.config_creator.fx_parser')
    eval_fx = fx.globals['eval_fx']
    stats = {k: stat(k) for k in STATS}

    def evaluate(text):
        it.live = X.TRUE
        n0 = len(it.events)
        try:
            v = it.call(eval_fx, [text, stats], {}, None)
        except AbsRaise as e:
            return ('raise', e.exc.tname)
        # a raise under a condition on the statistics (e.g. `if not value: raise`): the expression has no value for those statistics
        cond = [e for e in it.events[n0:] if e['kind'] == 'raise' and e['guard'] not in (X.TRUE, X.FALSE)]
        if cond:
            return ('raise', f"{cond[0]['exc']} when {X.show(cond[0]['guard'])}")
        if isinstance(v, Sc):
            return ('ok', v.d)
        if isinstance(v, (int, Fr, float)):
            return ('ok', X.num(v))
        return ('other', v)

    exprs = expressions(ck.tier == 'thorough')
    standalone = {}
    for toks in exprs:
        for sep in (' ', ''):
            text = sep.join(toks)
            if sep == '' and any(a in '+-' and b in '+-' for a, b in zip(toks, toks[1:])):
                continue    # '--' / '+-' glued together are not the property's token syntax
            try:
                want = ('ok', reference(toks))
            except ZeroDivisionError:
                want = ('raise', 'ZeroDivisionError')
            got = evaluate(text)
            ck.count(1, distinct=text)
            ok = got[0] == want[0] and (got[0] != 'ok' or got[1] == want[1] or same_function(got[1], want[1], ck.rng))
            ck.ob('C20.arith', f'eval_fx({text!r})', ok, key=f'eval_fx:arithmetic:{classify(toks)}',
                  what=f'eval_fx({text!r}) = {show(got)}, ordinary arithmetic gives {show(want)}')
            standalone[text] = got
            if len(ck.samples) < 4:
                ck.sample(dict(expression=text, value=show(got)))
    # history independence: failed parses and invalid identifiers in between
    junk = ['2 +', '( 2 * 3', 'foo + 1', '2 ** 3', 'mean mean', ') (', '', '3 / ( 1 - 1 )', 'max - ']
    texts = [t for t in standalone if standalone[t][0] == 'ok'][:40]
    for k, text in enumerate(texts):
        j = junk[k % len(junk)]
        evaluate(j)
        evaluate(junk[(k + 3) % len(junk)])
        again = evaluate(text)
        ok = again[0] == 'ok' and (again[1] == standalone[text][1] or same_function(again[1], standalone[text][1], ck.rng))
        ck.ob('C20.stateless', f'eval_fx({text!r}) after junk {j!r}', ok, key='eval_fx:history-dependent',
              what=f'eval_fx({text!r}) = {show(again)} after a failed evaluation of {j!r}, but {show(standalone[text])} on a fresh start')
    # the same expression with other statistics: the same dict object updated in place, and a fresh dict
    def rename(e):
        if isinstance(e, tuple):
            if len(e) == 3 and e[0] == 'x' and e[1] == 'stat':
                return ('x', 'stat2', e[2])
            return tuple(rename(a) for a in e)
        return e
    for text in texts[:25]:
        first = evaluate(text)
        saved = dict(stats)
        for k in STATS:
            stats[k] = Sc(('x', 'stat2', k))
        second = evaluate(text)
        stats.clear()
        stats.update(saved)
        fresh = {k: Sc(('x', 'stat2', k)) for k in STATS}
        it.live = X.TRUE
        try:
            v = it.call(eval_fx, [text, fresh], {}, None)
            third = ('ok', v.d if isinstance(v, Sc) else X.num(v))
        except AbsRaise as e:
            third = ('raise', e.exc.tname)
        want = rename(first[1]) if first[0] == 'ok' else None
        for nm, got in (('updated in place', second), ('a fresh dict', third)):
            ok = first[0] == 'ok' and got[0] == 'ok' and (got[1] == want or same_function(got[1], want, ck.rng))
            ck.ob('C20.stateless', f'eval_fx({text!r}) with other statistics ({nm})', ok, key='eval_fx:remembers-earlier-statistics',
                  what=f'eval_fx({text!r}) evaluated again with different statistics ({nm}) gives {show(got)}; with those statistics it is {X.show(want) if want else "?"}')
    for j in junk:
        got = evaluate(j)
        ck.ob('C20.reject', f'eval_fx({j!r})', got[0] == 'raise', key='eval_fx:accepts-malformed',
              what=f'eval_fx({j!r}) returns {show(got)} instead of raising')

    validator_rules(ck)
    wiring_rules(ck)
    subset_rules(ck)
    knot_rules(ck)
    ck.floor('C20.arith', 150)
    ck.floor('C20.validate', 100)


def classify(toks):
    ops = [t for t in toks if t in OPS]
    return ''.join(ops[:3]) + ('()' if '(' in toks else '')


def show(r):
    if r[0] == 'ok':
        return X.show(r[1])
    return f'{r[0]} {r[1]}'


def validator_rules(ck):
    it = ck.runner.interp
    cc = it.module('ioos_qc.config_creator.config_creator')
    QVC = cc.globals['QcVariableConfig']
    validate = QVC.lookup('_validate_fx')
    inst = Instance(QVC)
    inst.dict_data = {}
    good = ['2', '3.5', '-1', '1e3', 'min', 'max', 'mean', 'std', '+', '-', '*', '/', '(', ')']
    bad = ['foo', 'sin', '^', 'mean2', 'MEAN', 'Min', '**', 'min,', 'x', '2x', '%', '[', 'stdev', 'median', 'mean+1', '']
    cases = [[g] for g in good] + [[b] for b in bad]
    for a, b in itertools.product(good[:6] + bad[:6], repeat=2):
        cases.append([a, b])
    cases += [['mean', '-', '2', '*', 'std'], ['(', 'max', '-', 'min', ')', '/', '2'], ['mean', '-', '2', '*', 'stdev'], ['mean', '^', '2'],
              ['2', 'foo', '3'], ['(', 'mean', ')', 'x']]
    for toks in cases:
        text = ' '.join(toks)
        want_ok = all(t in good for t in toks)
        try:
            it.call(validate, [inst, text, 'some_test'], {}, None)
            got_ok, exc = True, None
        except AbsRaise as e:
            got_ok, exc = False, e.exc.tname
        ck.count(1, distinct=('validate', text))
        ok = (got_ok == want_ok) and (got_ok or exc == 'ValueError')
        ck.ob('C20.validate', f'_validate_fx({text!r})', ok, key=f'_validate_fx:{"rejects-valid" if want_ok else "accepts-invalid" if got_ok else "wrong-exception"}',
              what=f'_validate_fx({text!r}): {"accepted" if got_ok else "rejected with " + str(exc)}, the property says {"accept" if want_ok else "reject with ValueError"}')
    # through the constructor
    def cfg(spec):
        return {'variable': 'temp', 'bbox': [0, 0, 1, 1], 'start_time': '2020-01-01', 'end_time': '2020-02-01',
                'tests': {'gross_range_test': {'suspect_min': spec, 'suspect_max': 'max', 'fail_min': 'min - 1', 'fail_max': 'max + 1'},
                          'location_test': {'bbox': [0, 0, 1, 1]}}}
    for spec, want_ok in (('mean - 2 * std', True), ('min', True), ('mean - 2 * sigma', False), ('mean ^ 2', False), ('( mean )', True)):
        try:
            inst2 = it.instantiate(QVC, [cfg(spec)], {}, None)
            got_ok = True
            if want_ok:
                ck.ob('C20.validate', f'QcVariableConfig(...) holds its configuration', getattr(inst2, 'dict_data', None) == cfg(spec),
                      key='QcVariableConfig:constructor-drops-config', what='a validated QcVariableConfig does not contain the configuration it was built from')
        except AbsRaise as e:
            got_ok = False
        ck.ob('C20.validate', f'QcVariableConfig(suspect_min={spec!r})', got_ok == want_ok, key='QcVariableConfig:constructor-validation',
              what=f'QcVariableConfig with suspect_min={spec!r} is {"accepted" if got_ok else "rejected"}')
    # the validator (writer of configs) and the evaluator (reader) must agree on what a number is: a token the validator accepts as a number
    # is a limit expression of its own and must evaluate to that number
    fx = it.module('ioos_qc.config_creator.fx_parser')
    eval_fx = fx.globals['eval_fx']
    stats = {k: stat(k) for k in STATS}
    for tok, value in (('2', 2), ('3.5', Fr(7, 2)), ('-1', -1), ('1e3', 1000), ('1E-2', Fr(1, 100)), ('5.', 5), ('+2', 2), ('.5', Fr(1, 2)), ('1_0', 10), ('inf', None), ('nan', None),
                       ('0x10', None), ('1,5', None), ('2e', None)):
        try:
            it.call(validate, [inst, tok, 'some_test'], {}, None)
            accepted = True
        except AbsRaise:
            accepted = False
        it.live = X.TRUE
        try:
            v = it.call(eval_fx, [tok, stats], {}, None)
            ev = v.d if isinstance(v, Sc) else (X.num(v) if isinstance(v, (int, Fr)) else v)
        except AbsRaise as e:
            ev = f'raises {e.exc.tname}'
        ck.count(1, distinct=('agree', tok))
        ok = (not accepted) or (value is not None and ev == X.num(value))
        ck.ob('C20.validate', f'number token {tok!r}: validator vs eval_fx', ok, key=f'number-token:{tok}:accepted-but-not-evaluated',
              what=f'the specification {tok!r} is accepted by QcVariableConfig as a number, but eval_fx({tok!r}) gives {ev if isinstance(ev, str) else X.show(ev) if isinstance(ev, tuple) else ev}')
    # every limit expression of every test section is validated, not only the four span keys
    def cfg2(test, key, spec):
        tests = {
            'gross_range_test': {'suspect_min': 'min', 'suspect_max': 'max', 'fail_min': 'min - 1', 'fail_max': 'max + 1'},
            'spike_test': {'suspect_threshold': 'std', 'fail_threshold': '2 * std'},
            'flat_line_test': {'suspect_threshold': '3000', 'fail_threshold': '6000', 'tolerance': 'std / 10'},
            'rate_of_change_test': {'threshold': '( max - min ) / 100'},
            'location_test': {'bbox': [0, 0, 1, 1]},
        }
        tests[test] = dict(tests[test], **{key: spec})
        return {'variable': 'temp', 'bbox': [0, 0, 1, 1], 'start_time': '2020-01-01', 'end_time': '2020-02-01', 'tests': tests}
    places = [('gross_range_test', 'suspect_max'), ('gross_range_test', 'fail_min'), ('gross_range_test', 'fail_max'), ('spike_test', 'suspect_threshold'),
              ('spike_test', 'fail_threshold'), ('flat_line_test', 'suspect_threshold'), ('flat_line_test', 'tolerance'), ('rate_of_change_test', 'threshold')]
    for (test, key), (spec, want_ok) in itertools.product(places, (('mean + 2 * std', True), ('3 * kurtosis', False), ('std ^ 2', False), ('exp ( 9 )', False), ('2*std', False))):
        try:
            it.instantiate(QVC, [cfg2(test, key, spec)], {}, None)
            got_ok, exc = True, None
        except AbsRaise as e:
            got_ok, exc = False, e.exc.tname
        ck.count(1, distinct=('constructor', test, key, spec))
        ck.ob('C20.validate', f'QcVariableConfig({test}.{key}={spec!r})', got_ok == want_ok and (got_ok or exc == 'ValueError'),
              key=f'QcVariableConfig:constructor-validation:{test}.{key}',
              what=f'QcVariableConfig with {test}.{key}={spec!r} is {"accepted" if got_ok else "rejected with " + str(exc)}, the property says {"accept" if want_ok else "reject with ValueError"}')


def wiring_rules(ck):
    it = ck.runner.interp
    cc = it.module('ioos_qc.config_creator.config_creator')
    QCC = cc.globals['QcConfigCreator']
    inst = Instance(QCC)
    inst.attrs['config'] = {}
    inst.attrs['datasets'] = {}
    values = [Fr(1), Fr(2), Fr(3), Fr(6)]
    subset = Vec.fresh([El(X.num(v), False) for v in values] + [El(X.NAN, False)], kind='nd', dtype='f8')
    seen = []

    def subset_hook(interp, fv, args, kwargs, node):
        seen.append((args[1:], kwargs))
        return subset
    it.hooks['QcConfigCreator._get_subset'] = subset_hook
    try:
        vc = {'variable': 'temp', 'bbox': [0, 0, 1, 1], 'start_time': '2020-01-01', 'end_time': '2020-02-01', 'tests': {
            'gross_range_test': {'suspect_min': 'min + 1', 'suspect_max': 'max - 1', 'fail_min': 'min - mean', 'fail_max': 'max * 2'},
            'spike_test': {'suspect_threshold': 'std', 'fail_threshold': '2 * std'},
            'flat_line_test': {'suspect_threshold': '3000', 'fail_threshold': '6000', 'tolerance': 'std / 10'},
            'rate_of_change_test': {'threshold': '( max - min ) / 100'},
            'location_test': {'bbox': [-10, -20, 10, 20]},
        }}
        try:
            res = it.call(it.getattr(inst, 'create_config', None), [vc], {}, None)
        except AbsRaise as e:
            ck.violate('C20.wiring', f'create_config:raises-{e.exc.tname}', f'create_config raises {e.exc.tname}{e.exc.args}')
            return
        okargs = False
        if seen:
            a, k = seen[0]
            a = list(a) + [k.get(n) for n in ('var', 'bbox', 'time_slice')][len(a):]
            okargs = (a[0] == 'temp' and a[1] == [0, 0, 1, 1] and isinstance(a[2], slice) and getattr(a[2].start, 't', None) is not None
                      and a[2].start.t < a[2].stop.t)
        ck.ob('C20.wiring', '_get_stats -> _get_subset(variable, bbox, slice(start, end))', okargs, key='create_config:_get_subset-arguments',
              what=f'_get_stats calls _get_subset with {seen[:1]}, expected (variable name, bbox, slice(start_time, end_time))')
        mn, mx, mean = X.num(1), X.num(6), X.num(3)
        std = X.red('std', [X.num(v) for v in values])
        want = {
            'gross_range_test': {'suspect_span': [X.num(2), X.num(5)], 'fail_span': [X.num(-2), X.num(12)]},
            'spike_test': {'suspect_threshold': std, 'fail_threshold': X.scale(std, 2)},
            'flat_line_test': {'suspect_threshold': X.num(3000), 'fail_threshold': X.num(6000), 'tolerance': X.scale(std, Fr(1, 10))},
            'rate_of_change_test': {'threshold': X.num(Fr(5, 100))},
            'location_test': {'bbox': [-10, -20, 10, 20]},
        }
        got = None
        try:
            got = res['temp']['qartod']
        except (KeyError, TypeError):
            pass
        ck.ob('C20.wiring', 'create_config: {variable: {qartod: sections}}', isinstance(got, dict) and set(got) == set(want), key='create_config:layout',
              what=f'create_config returns {res!r:.200}')
        if not isinstance(got, dict):
            return
        for test, sect in want.items():
            for key, w in sect.items():
                g = got.get(test, {}).get(key) if isinstance(got.get(test), dict) else None
                ok = norm(g) == norm(w)
                ck.ob('C20.wiring', f'create_config {test}.{key}', ok, key=f'create_config:{test}.{key}',
                      what=f'create_config: {test}.{key} = {norm(g)}, expected {norm(w)} (expressions evaluated on min=1 max=6 mean=3 std=std(1,2,3,6))')
    finally:
        it.hooks.pop('QcConfigCreator._get_subset', None)


class GridDS:
    """a gridded climatology: 1-D lat / lon coordinates (in the dataset's own order) - what _get_subset reads to build its cell selectors"""
    abs_kind = 'xr.Dataset'

    def __init__(self, lats, lons):
        self.lats, self.lons = lats, lons

    def coord(self, name, kind='nd'):
        vals = self.lats if name == 'lat' else self.lons
        return Vec.fresh([El(X.num(v), False) for v in vals], kind=kind, dtype='f8')

    def abs_getitem(self, interp, key, node):
        if key in ('lat', 'lon'):
            return self.coord(key)
        if key in getattr(self, 'variables', {}):
            return GridVar(self, self.variables[key])
        from ..repo import AnalysisError
        raise AnalysisError(f'climatology dataset: variable {key!r} read outside the modelled subset path', node)

    def abs_getattr(self, interp, name, node):
        if name in ('lat', 'lon'):
            return self.coord(name)
        if name in ('indexes', 'coords', 'variables'):
            return {'lat': self.coord('lat', 'index' if name == 'indexes' else 'nd'), 'lon': self.coord('lon', 'index' if name == 'indexes' else 'nd')}
        from ..repo import AnalysisError
        raise AnalysisError(f'climatology dataset: attribute {name!r} outside the modelled subset path', node)


class GridVar:
    """a data variable of the climatology, (time, lat, lon) or (time, depth, lat, lon): subscripting it records which cells were asked for"""
    def __init__(self, ds, has_depth):
        self.ds, self.has_depth = ds, has_depth

    def abs_getitem(self, interp, key, node):
        from ..repo import AnalysisError
        want = 4 if self.has_depth else 3
        if not isinstance(key, tuple) or len(key) != want or key[0] != slice(None):
            raise AbsRaise(__import__('sa.interp', fromlist=['ExcVal']).ExcVal('IndexError', (f'too many / too few indices for a {want}-dimensional variable: {key!r}',)), node) \
                if isinstance(key, tuple) and len(key) != want else AnalysisError(f'climatology variable: subscript {key!r} not modelled', node)
        depth = key[1] if self.has_depth else None
        if depth is not None and not isinstance(depth, int):
            raise AnalysisError('climatology variable: depth selector is not an integer position', node)
        return SelectedCells(self.ds, depth, key[-2], key[-1])


class SelectedCells:
    def __init__(self, ds, depth, lat_sel, lon_sel):
        self.ds, self.depth, self.lat_sel, self.lon_sel = ds, depth, lat_sel, lon_sel


def positions(sel, n, node=None):
    """a cell selector along one axis (boolean mask, integer positions, slice) -> list of positions"""
    from ..repo import AnalysisError
    if isinstance(sel, slice):
        return list(range(*sel.indices(n)))
    if isinstance(sel, Vec):
        if sel.dtype == 'b1':
            if len(sel) != n:
                raise AbsRaise(__import__('sa.interp', fromlist=['ExcVal']).ExcVal('IndexError', ('boolean index did not match',)), node)
            out = []
            for i, e in enumerate(sel.els()):
                if e.d == X.TRUE:
                    out.append(i)
                elif e.d != X.FALSE:
                    raise AnalysisError('cell selector with an undecided element')
            return out
        return [int(e.d[1]) % n for e in sel.els()]
    if isinstance(sel, (list, tuple)):
        return [int(i) % n for i in sel]
    raise AnalysisError(f'cell selector of type {type(sel).__name__} not modelled')


def subset_rules(ck):
    """create_config on a climatology that is constant in time: the statistics are those of the grid cells inside the requested box
    (edges included), whatever the order in which the file stores its coordinates.  The cubic-spline interpolation in time is replaced by
    its value on constant data (the constant); the cell selection - _get_subset's own masks / indexers - is interpreted."""
    it = ck.runner.interp
    cc = it.module('ioos_qc.config_creator.config_creator')
    QCC = cc.globals['QcConfigCreator']
    LATS, LONS = [10, 20, 30, 40], [100, 110, 120]
    value = lambda la, lo: Fr(1 + LATS.index(la) * 3 + LONS.index(lo))
    orders = [('ascending', LATS, LONS), ('lat descending', LATS[::-1], LONS), ('lon descending', LATS, LONS[::-1]), ('lat unsorted', [30, 10, 40, 20], LONS)]
    boxes = [[105, 15, 120, 30], [100, 10, 120, 40], [110, 20, 110, 20], [101, 11, 119, 39], [100, 30, 110, 40]]
    positive = value
    scenarios = [(o, b, positive, '') for o, b in itertools.product(orders, boxes)]
    # a quantity that takes both signs (anomalies, velocities, temperatures in deg C): the cells inside the box may sum to zero, or all be zero
    signed = lambda la, lo: positive(la, lo) - Fr(13, 2)
    zero_in_box = lambda la, lo: Fr(0) if 15 <= la <= 35 else positive(la, lo)
    scenarios += [(orders[0], [100, 15, 120, 35], signed, '; values summing to zero inside the box'),
                  (orders[0], [100, 15, 120, 35], zero_in_box, '; all values inside the box are 0')]
    for (oname, lats, lons), bbox, value, vname in scenarios:
        ds = GridDS(lats, lons)
        captured = []

        def subset_hook(interp, fv, args, kwargs, node, lats=lats, lons=lons, value=value):
            names = ['self', 'var', 'time_slice', 'depth', 'lat_mask', 'lon_mask']
            a = dict(zip(names, args))
            a.update(kwargs)
            li, lj = positions(a['lat_mask'], len(lats), node), positions(a['lon_mask'], len(lons), node)
            captured.append((li, lj))
            cells = [value(lats[i], lons[j]) for i in li for j in lj]
            if not cells:
                return 0          # what the function returns when nothing finite is inside the box
            return Vec.fresh([El(X.num(v), False) for v in cells], kind='nd', dtype='f8')
        inst = Instance(QCC)
        inst.attrs['config'] = {}
        inst.attrs['datasets'] = {}
        saved = dict(it.hooks)
        it.hooks['QcConfigCreator.var2dataset'] = lambda interp, fv, args, kwargs, node, ds=ds: ('clim', ds)
        it.hooks['QcConfigCreator.__get_daily_interp_subset'] = subset_hook
        label = f'create_config(bbox={bbox}) on a constant climatology, coordinates {oname}{vname}'
        vc = {'variable': 'temp', 'bbox': list(bbox), 'start_time': '2020-01-01', 'end_time': '2020-02-01', 'tests': {
            'gross_range_test': {'suspect_min': 'min', 'suspect_max': 'max', 'fail_min': 'mean', 'fail_max': 'std'}}}
        try:
            res = it.call(it.getattr(inst, 'create_config', None), [vc], {}, None)
        except AbsRaise as e:
            ck.violate('C20.subset', f'create_config:subset:raises-{e.exc.tname}', f'{label}: raises {e.exc.tname}{e.exc.args}')
            continue
        finally:
            it.hooks.clear()
            it.hooks.update(saved)
        ck.count(1, distinct=('subset', oname, tuple(bbox)))
        inside = [value(la, lo) for la in LATS for lo in LONS if bbox[1] <= la <= bbox[3] and bbox[0] <= lo <= bbox[2]]
        mean = sum(inside) / len(inside)
        want = [min(inside), max(inside), mean, sum((v - mean) ** 2 for v in inside) / len(inside)]
        try:
            sect = res['temp']['qartod']['gross_range_test']
            got = [to_fr(x) for x in sect['suspect_span'] + sect['fail_span']]
        except (KeyError, TypeError, ValueError) as e:
            got = f'unreadable result ({e})'
        ck.ob('C20.subset', label, got == want, key=f'create_config:subset:{oname}{":zero-sum" if vname else ""}',
              what=f'{label}: [min, max, mean, variance] of the selected cells = {show_list(got)}, of the cells inside the box = {show_list(want)} '
                   f'(selected positions {captured[-1:] if captured else "none"})')
    # one level deeper: the dataset is found through the creator's own configuration, the variable is subscripted by __get_daily_interp_subset itself
    # (time, lat, lon for a 2-D field; time, depth level 0, lat, lon for a 3-D one), and only the interpolation in time is replaced
    from ..interp import ExcVal
    for dims in ('2d', '3d'):
        for (oname, lats, lons), bbox in itertools.product(orders[:2], [boxes[0], boxes[3], [0, 0, 1, 1]]):
            ds = GridDS(lats, lons)
            ds.variables = {'TEMP_IN_FILE': dims == '3d'}
            cellvalue = (lambda la, lo, depth: positive(la, lo) + (100 * depth if depth else 0))

            def interp_hook(interp, fv, args, kwargs, node, lats=lats, lons=lons):
                a = dict(zip(['self', 'var', 'time_slice'], args))
                a.update(kwargs)
                sel = a['var']
                if not isinstance(sel, SelectedCells):
                    from ..repo import AnalysisError
                    raise AnalysisError('__daily_cubic_interp called with something that is not a cell selection of the climatology variable', node)
                li, lj = positions(sel.lat_sel, len(lats), node), positions(sel.lon_sel, len(lons), node)
                cells = [cellvalue(lats[i], lons[j], sel.depth) for i in li for j in lj]
                if not cells:
                    raise AbsRaise(ExcVal('ValueError', ('CubicSpline require y to the finite.',)), node)     # what the function raises for an empty / all-NaN selection
                return Vec.fresh([El(X.num(v), False) for v in cells], kind='nd', dtype='f8')
            inst = Instance(QCC)
            cfg = {'clim': {'variables': {'temp': 'TEMP_IN_FILE'}, 'file_path': 'clim.nc'}}
            if dims == '3d':
                cfg['clim']['3d'] = True
            inst.attrs['config'] = cfg
            inst.attrs['datasets'] = {'clim': ds}
            saved = dict(it.hooks)
            it.hooks['QcConfigCreator.__daily_cubic_interp'] = interp_hook
            label = f'create_config(bbox={bbox}) on a constant {dims} climatology found through the creator configuration, coordinates {oname}'
            vc = {'variable': 'temp', 'bbox': list(bbox), 'start_time': '2020-01-01', 'end_time': '2020-02-01', 'tests': {
                'gross_range_test': {'suspect_min': 'min', 'suspect_max': 'max', 'fail_min': 'mean', 'fail_max': 'std'}}}
            inside = [positive(la, lo) for la in LATS for lo in LONS if bbox[1] <= la <= bbox[3] and bbox[0] <= lo <= bbox[2]]
            try:
                res = it.call(it.getattr(inst, 'create_config', None), [vc], {}, None)
            except AbsRaise as e:
                if inside:
                    ck.violate('C20.subset', f'create_config:dataset-path:{dims}:raises-{e.exc.tname}', f'{label}: raises {e.exc.tname}{e.exc.args}')
                else:
                    ck.hold('C20.subset', label + ' (no cell inside the box: nothing is prescribed)')
                continue
            finally:
                it.hooks.clear()
                it.hooks.update(saved)
            ck.count(1, distinct=('dataset-path', dims, oname, tuple(bbox)))
            if not inside:
                continue
            mean = sum(inside) / len(inside)
            want = [min(inside), max(inside), mean, sum((v - mean) ** 2 for v in inside) / len(inside)]
            try:
                sect = res['temp']['qartod']['gross_range_test']
                got = [to_fr(x) for x in sect['suspect_span'] + sect['fail_span']]
            except (KeyError, TypeError, ValueError) as e:
                got = f'unreadable result ({e})'
            ck.ob('C20.subset', label, got == want, key=f'create_config:dataset-path:{dims}:{oname}',
                  what=f'{label}: [min, max, mean, variance] = {show_list(got)}, of the cells inside the box (depth level 0) = {show_list(want)}')
    ck.floor('C20.subset', 15)


def to_fr(v):
    d = v.d if isinstance(v, Sc) else X.num(v)
    return X.eval_num(d, {'__identity__': True})


def show_list(v):
    return [str(x) for x in v] if isinstance(v, list) else v


def norm(v):
    if isinstance(v, list):
        return [norm(x) for x in v]
    if isinstance(v, Sc):
        return X.show(v.d)
    if isinstance(v, tuple):
        return X.show(v)
    if isinstance(v, (int, Fr)):
        return X.show(X.num(v))
    return repr(v)


# ---- the time axis of the climatology: knots of the periodic spline ---------------------------------------------------------------
class _Probe(Exception):
    """ends the interpretation of __daily_cubic_interp at the point the rule wanted to see"""


class Field3D:
    """Stand-in for the (time, y, x) data of a climatology variable: only its first axis matters here. rows = labels of the time slices."""
    def __init__(self, rows, flat=False):
        self.rows, self.flat = list(rows), flat

    def abs_getitem(self, interp, key, node):
        from ..repo import AnalysisError
        if isinstance(key, tuple) and key and isinstance(key[0], slice) and all(k == slice(None) for k in key[1:]):
            return Field3D(self.rows[key[0]])
        if isinstance(key, NanMask):
            return Field3D(self.rows, flat=True)          # y[~isnan(y)]: the finite cells, flattened (the field has no NaN here)
        raise AnalysisError(f'3-D field stand-in: subscript {key!r} not modelled', node)

    def abs_getattr(self, interp, name, node):
        from ..models import PyCallable
        from ..repo import AnalysisError
        if name == 'shape':
            return (len(self.rows) * 4,) if self.flat else (len(self.rows), 2, 2)
        if name == 'size':
            return len(self.rows) * 4
        if name == 'reshape':
            def reshape(it, a, k, n):
                if len(a) == 2 and a[0] == len(self.rows) and a[1] == -1:
                    return Field3D(self.rows)
                raise AnalysisError(f'3-D field stand-in: reshape{tuple(a)} of {len(self.rows)} time slices not modelled', n)
            return PyCallable(reshape, 'reshape')
        raise AnalysisError(f'3-D field stand-in: attribute {name!r} not modelled', node)

    def abs_binop(self, interp, op, a, b, node):
        from ..repo import AnalysisError
        if isinstance(a, Field3D) and isinstance(b, Field3D) and len(a.rows) == len(b.rows) and op in ('Add', 'Sub'):
            return Field3D([('mix', x, y) for x, y in zip(a.rows, b.rows)])
        if isinstance(a, Field3D) and isinstance(b, (int, Fr)) and op in ('Div', 'Mult'):
            return Field3D(a.rows)
        raise AnalysisError(f'3-D field stand-in: operator {op} not modelled', node)

    def abs_ext_call(self, interp, path, args, kw, node):
        if path in ('numpy.concatenate', 'numpy.vstack') and isinstance(args[0], (list, tuple)) and all(isinstance(x, Field3D) for x in args[0]):
            return Field3D([r for x in args[0] for r in x.rows])
        if path == 'numpy.isnan' and args[0] is self:
            return NanMask()
        if path == 'numpy.extract' and len(args) == 2 and isinstance(args[0], NanMask) and args[1] is self:
            return Field3D(self.rows, flat=True)          # np.extract(~isnan(y), y) = y[~isnan(y)]
        if path == 'numpy.shape' and args[0] is self:
            return self.abs_getattr(interp, 'shape', node)
        if path == 'numpy.size' and args == [self] or path == 'numpy.size' and tuple(args) == (self,):
            return self.abs_getattr(interp, 'size', node)
        if path == 'numpy.ndim' and args[0] is self:
            return 1 if self.flat else 3
        if not path.startswith('numpy.'):
            return NotImplemented
        from ..repo import AnalysisError
        raise AnalysisError(f'3-D field stand-in: library call {path} not modelled', node)


class NanMask:
    def abs_unaryop(self, interp, op, node):
        return self

    def abs_ext_call(self, interp, path, args, kw, node):
        if path == 'numpy.logical_not' and len(args) == 1:
            return self
        if path == 'numpy.extract' and len(args) == 2 and isinstance(args[1], Field3D):
            return NotImplemented
        from ..repo import AnalysisError
        raise AnalysisError(f'NaN-mask stand-in: library call {path} not modelled', node)


class DoyArray:
    """Stand-in for the DataArray `time.dt.dayofyear`: the day numbers, with the accessors an xarray DataArray has"""
    def __init__(self, doys):
        self.doys = list(doys)

    def vec(self):
        return Vec.fresh([El(X.num(d), False) for d in self.doys], kind='nd', dtype='i8')

    def abs_contains(self, item):
        from ..repo import AnalysisError
        if isinstance(item, bool) or not isinstance(item, (int, Fr)):
            raise AnalysisError('day-of-year stand-in: membership of a non-integer not modelled')
        return any(d == item for d in self.doys)

    def abs_iter(self):
        return list(self.doys)

    def abs_len(self):
        return len(self.doys)

    def abs_getattr(self, interp, name, node):
        from ..models import PyCallable
        from ..repo import AnalysisError
        if name in ('values', 'data'):
            return self.vec()
        if name == 'to_numpy':
            return PyCallable(lambda it, a, k, n: self.vec(), 'to_numpy')
        if name == 'size':
            return len(self.doys)
        if name == 'shape':
            return (len(self.doys),)
        if name == 'ndim':
            return 1
        raise AnalysisError(f'day-of-year stand-in: attribute {name!r} not modelled', node)

    def abs_binop(self, interp, op, a, b, node):
        from ..repo import AnalysisError
        raise AnalysisError(f'day-of-year stand-in: operator {op} on the DataArray not modelled', node)

    def abs_ext_call(self, interp, path, args, kw, node):
        # numpy functions convert the DataArray to its values (np.asarray): answer with the plain array in its place
        from ..interp import ExtRef
        def sub(v):
            if v is self:
                return self.vec()
            if isinstance(v, (list, tuple)):
                return type(v)(sub(x) for x in v)
            return v
        if not path.startswith('numpy.'):
            from ..repo import AnalysisError
            raise AnalysisError(f'day-of-year stand-in: library call {path} not modelled', node)
        return interp.models.call(interp, ExtRef(path), [sub(a) for a in args], {k: sub(v) for k, v in kw.items()}, node)


class DayStamp:
    """a calendar day (year, day of year): what _get_stats hands over as the ends of the requested date range"""
    def __init__(self, year, doy):
        self.year, self.doy = year, doy

    def ordinal(self):
        import datetime
        return (datetime.date(self.year, 1, 1) + datetime.timedelta(days=self.doy - 1)).toordinal()

    def abs_binop(self, interp, op, a, b, node):
        from ..repo import AnalysisError
        if op == 'Sub' and isinstance(a, DayStamp) and isinstance(b, DayStamp):
            return DayDelta(a.ordinal() - b.ordinal())
        raise AnalysisError('date stand-in: operator not modelled', node)

    def abs_getattr(self, interp, name, node):
        from ..repo import AnalysisError
        if name == 'year':
            return self.year
        if name in ('dayofyear', 'day_of_year'):
            return self.doy
        raise AnalysisError(f'date stand-in: attribute {name!r} not modelled', node)

    def abs_ext_call(self, interp, path, args, kw, node):
        if path == 'pandas.Timestamp' and args and args[0] is self:
            return self
        return NotImplemented


class DayDelta:
    def __init__(self, days):
        self.days = days

    def abs_getattr(self, interp, name, node):
        from ..repo import AnalysisError
        if name == 'days':
            return self.days
        raise AnalysisError(f'timedelta stand-in: attribute {name!r} not modelled', node)


class ClimVar:
    def __init__(self, doys):
        self.doys = list(doys)

    def abs_getattr(self, interp, name, node):
        from ..repo import AnalysisError
        if name == 'time':
            return ClimTime(self.doys)
        if name == 'data':
            return Field3D([('t', i) for i in range(len(self.doys))])
        raise AnalysisError(f'climatology variable stand-in: attribute {name!r} not modelled', node)


class ClimTime:
    def __init__(self, doys, dt=False):
        self.doys, self.is_dt = doys, dt

    def abs_getattr(self, interp, name, node):
        from ..repo import AnalysisError
        if name == 'dt' and not self.is_dt:
            return ClimTime(self.doys, True)
        if name in ('dayofyear', 'day_of_year') and self.is_dt:
            return DoyArray(self.doys)
        raise AnalysisError(f'time coordinate stand-in: attribute {name!r} not modelled', node)


def knot_rules(ck):
    """__daily_cubic_interp builds the knots of a periodic cubic spline from the day-of-year of the climatology's time stamps and evaluates it on the
    days of the requested range.  scipy accepts only strictly increasing knots with one row of data each, and raises otherwise - an error that
    __get_daily_interp_subset reads as "no data in the box".  For a climatology that is constant in time the value of the spline is that constant
    whatever the knots are, *provided the spline can be built and is evaluated on at least one day*: those two conditions are decided here,
    for time axes stamped mid-month, on the first of the month (day 1 present), ending on day 366, daily through a leap year (both), and a single stamp,
    and for date ranges inside a year, across new year (leap and common start year) and one day long."""
    from ..models import PyCallable
    from ..repo import AnalysisError, unparse
    it = ck.runner.interp
    cc = it.module('ioos_qc.config_creator.config_creator')
    QCC = cc.globals['QcConfigCreator']
    try:
        fn = QCC.lookup('_QcConfigCreator__daily_cubic_interp')
    except KeyError:
        raise AnalysisError('anchor QcConfigCreator.__daily_cubic_interp not found')
    mid = [15, 46, 74, 105, 135, 166, 196, 227, 258, 288, 319, 349]
    first = [1, 32, 60, 91, 121, 152, 182, 213, 244, 274, 305, 335]
    axes = {'stamped mid-month': mid, 'stamped on the first of the month': first, 'ending on day 366': mid[:-1] + [366],
            'seasonal from 1 January': [1, 91, 182, 274], 'a single stamp': [180], 'two stamps': [100, 300]}
    both = {'daily through a leap year (days 1 and 366 present)': list(range(1, 367)), 'stamps on day 1 and day 366': [1, 183, 366]}
    ranges = {'January': (DayStamp(2020, 1), DayStamp(2020, 32)), 'across new year, common year first': (DayStamp(2019, 349), DayStamp(2020, 15)),
              'across new year, leap year first': (DayStamp(2020, 350), DayStamp(2021, 15)), 'one day': (DayStamp(2021, 152), DayStamp(2021, 153)),
              'whole common year': (DayStamp(2021, 1), DayStamp(2021, 365))}
    for aname, doys in list(axes.items()) + list(both.items()):
        for rname, (d0, d1) in ranges.items():
            if aname in both and rname != 'January':
                continue
            label = f'__daily_cubic_interp(time axis {aname}; range {rname})'
            seen = {}

            def spline_ctor(interp, args, kw, node, seen=seen):
                x, y = args[0], args[1]
                seen['x'] = [int(e.d[1]) for e in x.els()] if isinstance(x, Vec) else list(x)
                seen['rows'] = len(y.rows) if isinstance(y, Field3D) else None
                seen['bc'] = kw.get('bc_type')

                def evaluate(it2, a, k, n):
                    def as_int(v):
                        if isinstance(v, Sc):
                            if not v.concrete():
                                raise AnalysisError('spline evaluated on a day that is not concrete', n)
                            v = v.value()
                        return int(v)
                    seen['days'] = [as_int(v) for v in it2.iterate(a[0], n)]
                    raise _Probe()
                return PyCallable(evaluate, 'spline')
            saved = it.models.ext_call.get('scipy.interpolate.CubicSpline')
            it.models.ext_call['scipy.interpolate.CubicSpline'] = spline_ctor
            inst = Instance(QCC)
            outcome = None
            try:
                it.call_function(fn, [inst, ClimVar(doys), slice(d0, d1)], {}, None)
                outcome = 'returned without evaluating the spline'
            except _Probe:
                outcome = 'ok'
            except AbsRaise as e:
                outcome = f'raises {e.exc.tname}{e.exc.args}'
            finally:
                if saved is None:
                    it.models.ext_call.pop('scipy.interpolate.CubicSpline', None)
                else:
                    it.models.ext_call['scipy.interpolate.CubicSpline'] = saved
            ck.count(1, distinct=('knots', aname, rname))
            key_axis = 'days-1-and-366' if aname in both else 'time-axis'
            if outcome != 'ok':
                ck.violate('C20.knots', f'__daily_cubic_interp:{key_axis}:{outcome.split("(")[0]}', f'{label}: {outcome}')
                continue
            x = seen['x']
            increasing = all(a < b for a, b in zip(x, x[1:]))
            ck.ob('C20.knots', label + ' knots', increasing and seen['rows'] == len(x), key=f'__daily_cubic_interp:{key_axis}:knots-not-strictly-increasing',
                  what=f'{label}: the spline is built on the knots {x[:4]}...{x[-3:]} with {seen["rows"]} rows of data: scipy requires strictly increasing knots with one row each '
                       'and raises ValueError otherwise, which the caller takes for "no data in the bounding box" (the box is widened, the statistics are not those of the box)')
            days = seen.get('days', [])
            ck.ob('C20.knots', label + ' days', bool(days) and all(1 <= d <= 366 for d in days), key=f'__daily_cubic_interp:{key_axis}:no-day-evaluated',
                  what=f'{label}: the spline is evaluated on the days {days[:5]}{"..." if len(days) > 5 else ""}: an empty or out-of-calendar list gives no statistics')
