from .. import cases
from .common import run_carrier_sweep, run_tables


def run(ck):
    run_tables(ck, 'C12.attenuated', cases.attenuated)
    run_carrier_sweep(ck, 'C12.attenuated', cases.attenuated)
