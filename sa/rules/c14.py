from .. import cases
from .common import run_carrier_sweep, run_tables


def run(ck):
    run_tables(ck, 'C14.location', cases.location)
    run_carrier_sweep(ck, 'C14.location', cases.location, time=False)
