"""C18 — a test that cannot run drops out without disturbing the rest of the run."""
from fractions import Fraction as Fr

from .. import expr as X
from ..models_pd import TS
from ..streams_h import Table, make_config_source, run_frontend
from .c05 import StreamOutcome, t
from .c17 import equal_flags

FAULTS = {
    # name -> (stream id it is attached to or None for "same stream", raw entry)
    'unknown-module': ('a', ('nomod', 'some_test', {'x': 1})),
    'unknown-test': ('a', ('qartod', 'no_such_test', {'x': 1})),
    'rejected-parameters': ('b', ('qartod', 'gross_range_test', {'fail_span': [Fr(2), Fr(8)], 'suspect_span': [Fr(0), Fr(10)]})),
    'missing-required-parameter': ('b', ('qartod', 'rate_of_change_test', {})),
    'malformed-parameter': ('a', ('qartod', 'location_test', {'bbox': [Fr(0), Fr(1)]})),
    'unknown-method-name': ('b', ('qartod', 'spike_test', {'suspect_threshold': Fr(1), 'fail_threshold': Fr(2), 'method': 'bogus'})),
    'absent-stream-id': ('ghost', ('qartod', 'gross_range_test', {'fail_span': [Fr(0), Fr(10)]})),
    'raises-on-data': ('b', ('qartod', 'attenuated_signal_test', {'suspect_threshold': Fr(2), 'fail_threshold': Fr(1), 'check_type': 'nonsense'})),
    'needs-depth': ('a', ('qartod', 'density_inversion_test', {'suspect_threshold': Fr(-1)})),     # only a fault on a table without z
    'aggregate-listed-as-test': ('a', ('qartod', 'aggregate', {})),      # documented spelling; aggregate() cannot run as a stream test
    'name-of-a-non-test-attribute': ('a', ('qartod', 'np', {'x': 1})),
    'name-of-an-imported-helper': ('b', ('qartod', 'mapdates', {'dates': [1]})),
    # a list-valued configuration whose *later* member is malformed (three numbers for a span): nothing of it may survive, however often it is read
    'climatology-with-a-rejected-later-member': ('a', ('qartod', 'climatology_test', {'config': [
        {'tspan': [TS(0), TS(10 ** 7)], 'vspan': [Fr(2), Fr(4)]}, {'tspan': [TS(0), TS(10 ** 7)], 'vspan': [Fr(1), Fr(2), Fr(3)]}]})),
    'unknown-dotted-module': ('a', ('qartod.extras', 'some_test', {'x': 1})),
    'unknown-nested-module': ('b', ('vendor.checks', 'some_test', {'x': 1})),
}


# "it raises while evaluating the data": whatever the exception.  The test function of these entries is replaced (interpreter hook) by one
# that raises the named exception when called, so the rule does not depend on finding an input that provokes each type.
RAISING = ['AttributeError', 'RuntimeError', 'KeyError', 'IndexError', 'ZeroDivisionError', 'OverflowError', 'NotImplementedError', 'OSError',
           'StopIteration', 'AssertionError', 'TypeError', 'ValueError']
for _exc in RAISING:
    FAULTS[f'raises-{_exc}'] = ('a', ('qartod', 'density_inversion_test', {'suspect_threshold': Fr(-1)}))


def raising_hook(exc):
    from ..interp import AbsRaise, ExcVal

    def hook(interp, fv, args, kwargs, node):
        raise AbsRaise(ExcVal(exc, ('raised by the QC function',)), node)
    return {'ioos_qc.qartod.density_inversion_test': hook}


def healthy(tname=None):
    if tname == 'no-axes':
        # a record without any axis column: only the tests that need the values alone are healthy there
        return {'a': ['gross', 'spike'], 'b': ['valid']}
    return {'a': ['gross', 'spike', 'roc'], 'b': ['flat', 'valid']}


# two failing entries of different kinds in one config (each must drop out on its own; neither may shield or expose the other)
PAIRS = [('unknown-test', 'raises-on-data'), ('rejected-parameters', 'absent-stream-id'), ('unknown-module', 'missing-required-parameter'),
         ('raises-KeyError', 'unknown-test'), ('absent-stream-id', 'raises-ValueError')]


def insert(tests, sid, entry, where):
    out = {k: list(v) for k, v in tests.items()}
    lst = out.setdefault(sid, [])
    if where == 'first':
        lst.insert(0, entry)
    elif where == 'middle':
        lst.insert(len(lst) // 2 if lst else 0, entry)
    else:
        lst.append(entry)
    if where == 'first' and sid not in tests:
        # a stream that exists only because of the faulty entry, listed before the healthy ones
        out = {sid: out.pop(sid), **out}
    return out


def result_map(run):
    return {(r[0], r[1], r[2], r[3]): r for r in run.results}


def run(ck):
    ck.explanation = (
        'Decided by abstract interpretation of Config / Call.run / the stream front ends: a healthy config (five tests on two streams, a second context) is '
        'run alone and with one failing entry of every kind (unknown module, unknown test, parameters the function rejects, a missing required parameter, a '
        'malformed parameter, an unknown method name, a stream id absent from the data, a test that raises while evaluating, a test whose depth input the '
        'stream does not supply, a test that needs the time axis of a record that has none, and pairs of two different failing entries) inserted first / in the middle / last in a stream, in another stream and in the second context, on every front end: the run completes, '
        'the failing entry contributes no result, and every other (stream, test, rows) result is an equivalent flag expression to the healthy run.')
    thorough = ck.tier == 'thorough'
    frontends = ['numpy', 'netcdf', 'pandas', 'xarray']
    tables = {'all-axes': Table(5, missing={'a': {2}}), 'time-only': Table(5, missing={'a': {2}}, with_axes=('time',)),
              'no-axes': Table(5, missing={'a': {2}}, with_axes=())}
    FAULTS['needs-time'] = ('a', ('qartod', 'rate_of_change_test', {'threshold': Fr(1)}))          # only a fault on a table without a time axis
    for tname, table in tables.items():
        base_contexts = [dict(window=(None, None), tests=healthy(tname))]
        for fe in frontends:
            if tname == 'no-axes' and fe == 'xarray':
                continue        # a Dataset variable always has its dimension coordinate
            base = run_frontend(ck.runner, fe, table, make_config_source(base_contexts))
            if base.error is not None:
                ck.violate('C18.base', f'{fe}:healthy-run-raises', f'{fe}[{tname}]: the healthy config raises {base.error.exc}')
                continue
            base_map = result_map(base)
            base_collected = collected(ck, base) if tname == 'all-axes' else None     # (without axes collect_results itself fails: C06's known finding)
            if isinstance(base_collected, str):
                base_collected = None
            for fname, (sid, entry) in FAULTS.items():
                if fname == 'needs-depth' and 'z' in table.axes:
                    continue
                if fname == 'needs-time' and 'time' in table.axes:
                    continue
                if tname == 'no-axes' and (fname.startswith('raises-') and fname not in ('raises-on-data', 'raises-KeyError') or 'module' in fname):
                    continue
                if fname.startswith('raises-') and fname != 'raises-on-data' and not thorough and (fe not in ('numpy', 'pandas') or tname != 'all-axes'):
                    continue
                places = ['first', 'middle', 'last'] if thorough else ['first', 'last']
                if fname.startswith('raises-') and fname != 'raises-on-data' and not thorough:
                    places = ['middle']
                for where in places:
                    contexts = [dict(window=(None, None), tests=insert(healthy(tname), sid, entry, where))]
                    check_run(ck, fe, tname, fname, where, table, contexts, base_map, entry, sid, base_collected)
                # the failing entry in a second context
                if 'time' in table.axes:
                    contexts = [dict(window=(None, None), tests=healthy(tname)), dict(window=(t(1), t(4)), tests={sid: [entry]})]
                    check_run(ck, fe, tname, fname, 'second-context', table, contexts, base_map, entry, sid, base_collected)
                    intrinsic = fname in ('unknown-module', 'unknown-test', 'rejected-parameters', 'missing-required-parameter', 'malformed-parameter', 'unknown-method-name',
                                          'raises-on-data', 'unknown-dotted-module', 'unknown-nested-module', 'name-of-a-non-test-attribute')      # faulty on any stream
                    if fname.startswith('climatology-') or (thorough and intrinsic):
                        # the same failing entry read in two contexts (and for two streams): it fails the second time as it did the first
                        contexts = [dict(window=(None, None), tests=insert(healthy(tname), sid, entry, 'last')),
                                    dict(window=(t(1), t(4)), tests={sid: [entry], 'b': [entry] if sid != 'b' else ['valid']})]
                        check_run(ck, fe, tname, fname, 'both-contexts', table, contexts, base_map, entry, sid, None, also=[('b', entry)] if sid != 'b' else ())
            if tname == 'all-axes' and (thorough or fe in ('numpy', 'pandas')):
                for f1, f2 in PAIRS:
                    (s1, e1), (s2, e2) = FAULTS[f1], FAULTS[f2]
                    for w1, w2 in ((('first', 'last'),) if not thorough else (('first', 'last'), ('last', 'first'), ('middle', 'middle'))):
                        contexts = [dict(window=(None, None), tests=insert(insert(healthy(tname), s1, e1, w1), s2, e2, w2))]
                        check_run(ck, fe, tname, f'{f1}+{f2}', f'{w1}/{w2}', table, contexts, base_map, e1, s1, base_collected, also=[(s2, e2)])
    # stream ids that are not strings (YAML reads the keys 0, 7 as integers; DataFrame columns / dict keys may be integers too)
    ren = {'a': 0, 'b': 7, 'ghost': 99}
    itable = Table(5, streams=(0, 7), missing={0: {2}})
    def renamed(tests):
        return {ren.get(k, k): v for k, v in tests.items()}
    for fe in ('numpy', 'pandas'):
        base = run_frontend(ck.runner, fe, itable, make_config_source([dict(window=(None, None), tests=renamed(healthy()))]))
        if base.error is not None:
            ck.violate('C18.base', f'{fe}:integer-stream-ids:healthy-run-raises', f'{fe}[integer stream ids]: the healthy config raises {base.error.exc}')
            continue
        base_map = result_map(base)
        for fname in ('unknown-test', 'rejected-parameters', 'missing-required-parameter', 'absent-stream-id', 'raises-on-data', 'raises-KeyError'):
            sid, entry = FAULTS[fname]
            contexts = [dict(window=(None, None), tests=renamed(insert(healthy(), sid, entry, 'last')))]
            check_run(ck, fe, 'integer-stream-ids', fname, 'last', itable, contexts, base_map, entry, ren.get(sid, sid), None)
    xarray_detached_variable(ck)
    ck.floor('C18.survivors', 200)


def check_run(ck, fe, tname, fname, where, table, contexts, base_map, entry, sid, base_collected=None, also=()):
    label = f'{fe}[{tname}] fault={fname} at {where}'
    hooks = ck.runner.interp.hooks
    saved = dict(hooks)
    for part in fname.split('+'):
        if part.startswith('raises-') and part != 'raises-on-data':
            hooks.update(raising_hook(part.split('-', 1)[1]))
    try:
        run = run_frontend(ck.runner, fe, table, make_config_source(contexts))
    finally:
        hooks.clear()
        hooks.update(saved)
    ck.count(1, distinct=(fe, tname, fname, where))
    if run.error is not None:
        from ..repo import unparse
        site = unparse(run.error.node, 70) if run.error.node is not None else '?'
        ck.violate('C18.completes', f'{fe}:{fname}:raises-{run.error.exc.tname}',
                   f'{label}: the run does not complete: {run.error.exc.tname}{run.error.exc.args} at `{site}`')
        return
    ck.hold('C18.completes', label)
    got = result_map(run)
    for sid, entry in [(sid, entry), *also]:
        mod, test, _ = entry
        # the failing entry contributes nothing (healthy entries with the same name on the same stream are in the base map)
        faulty = [k for k in got if k[0] == sid and k[1] == mod and k[2] == test and k not in base_map]
        ck.ob('C18.dropped', label, not faulty, key=f'{fe}:{fname}:result-from-failing-test',
              what=f'{label}: the failing entry {sid}:{mod}.{test} produced a result {faulty}')
    missing = [k for k in base_map if k not in got]
    ck.ob('C18.survivors', label, not missing, key=f'{fe}:{fname}:healthy-result-lost',
          what=f'{label}: healthy results disappeared: {[k[:3] for k in missing]}')
    for k, r in base_map.items():
        if k in got:
            equal_flags(ck, 'C18.survivors', f'{fe}:{fname}:healthy-result-changed', f'healthy {k[0]}:{k[2]}', StreamOutcome(r[4]),
                        f'{label} {k[0]}:{k[2]}', StreamOutcome(got[k][4]), label)
    # the collected form (what a user finally reads): same results, same data / axis arrays as for the healthy run
    if base_collected is not None and fe in ('numpy', 'pandas'):
        col = collected(ck, run)
        if isinstance(col, str):
            ck.violate('C18.completes', f'{fe}:{fname}:collect-{col}', f'{label}: collect_results on the run {col}')
            return
        for key, b in base_collected.items():
            g = col.get(key)
            if g is None:
                ck.violate('C18.survivors', f'{fe}:{fname}:collected-result-lost', f'{label}: the collected result {key} of the healthy run is missing')
                continue
            for fld in ('results', 'data', 'tinp', 'zinp', 'lat', 'lon'):
                ck.ob('C18.survivors', f'{label} collected {key}.{fld}', sig(g.attrs.get(fld)) == sig(b.attrs.get(fld)), key=f'{fe}:{fname}:collected-{fld}-changed',
                      what=f'{label}: collected {key}.{fld} is {sig(g.attrs.get(fld))}, with the healthy config alone it is {sig(b.attrs.get(fld))}')


def sig(v):
    from ..vec import Vec
    if isinstance(v, Vec):
        return [('--' if e.m is True else '') + X.show(e.d) for e in v.els()]
    return repr(v)


def collected(ck, run):
    """collect_results(how='list') on the ContextResults of a run -> {(stream, package, test): CollectedResult} or a failure text"""
    from ..interp import AbsRaise
    it = ck.runner.interp
    collect = it.module('ioos_qc.results').globals['collect_results']
    try:
        res = it.call(collect, [list(run.context_results)], dict(how='list'), None)
    except AbsRaise as e:
        return f'raises-{e.exc.tname}'
    return {(cr.attrs['stream_id'], cr.attrs['package'], cr.attrs['test']): cr for cr in res}


def xarray_detached_variable(ck):
    """XarrayStream: a variable on its own dimension (no time / depth / position associated) listed after a variable that has them.
    Tests that need time cannot run on it and must drop out; its other tests must get no foreign axis."""
    from ..streams_h import expected_direct
    from .c05 import compare_run
    for n_c in (3, 5):
        table = Table(5, streams=('a',), missing={'a': {2}})
        table.extra_vars = {'c': n_c}
        for order in (('a', 'c'), ('c', 'a')):
            tests = {'a': ['gross', 'roc', 'flat'], 'c': ['gross', 'spike', 'flat', 'roc']}
            contexts = [dict(window=(None, None), tests={k: tests[k] for k in order})]
            run = run_frontend(ck.runner, 'xarray', table, make_config_source(contexts))
            expected = expected_direct(ck.runner, table, contexts)
            label = f'xarray[detached variable of length {n_c}; order {order}]'
            if run.error is not None:
                ck.violate('C18.completes', f'xarray:detached-variable:raises-{run.error.exc.tname}', f'{label}: raises {run.error.exc}')
                continue
            got = {(r[0], r[2]) for r in run.results}
            want = {(sid, test) for (ci, sid, mod, test), (rows, d) in expected.items() if d is not None and d.kind == 'return'}
            optional = set()
            if n_c == 5:
                # same length as the time axis: the stream then borrows the axis ("the user asked for it"); the property neither demands nor
                # forbids that, so the time-dependent tests of the detached variable may be present or absent
                optional = {('c', 'flat_line_test'), ('c', 'rate_of_change_test')}
            ck.ob('C18.dropped', label, want <= got <= want | optional, key='xarray:detached-variable:result-set',
                  what=f'{label}: results {sorted(got)}, expected {sorted(want)} (a test whose time input is not available must drop out)')
            for r in run.results:
                if r[0] == 'c' and n_c != 5:
                    cr = r[5]
                    tin = cr.attrs.get('tinp')
                    ck.ob('C18.survivors', f'{label} c:{r[2]} tinp', len(tin) == 0, key='xarray:detached-variable:foreign-axis',
                          what=f'{label}: the result for c:{r[2]} carries a time axis of another variable ({len(tin)} entries)')
