from .. import cases
from .common import run_carrier_sweep, run_tables


def run(ck):
    run_tables(ck, 'C10.rate_of_change', cases.rate_of_change)
    run_tables(ck, 'C10.speed', cases.speed)
    run_carrier_sweep(ck, 'C10.rate_of_change', cases.rate_of_change)
    run_carrier_sweep(ck, 'C10.speed', cases.speed)
