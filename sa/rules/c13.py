from .. import cases, qc
from ..qc import expect_raise, result_vec, run_case
from ..cells import flags_of
from .. import expr as X
from ..specs import pressure_expected
from .common import run_carrier_sweep, run_tables


def run(ck):
    run_tables(ck, 'C13.density', cases.density)
    run_carrier_sweep(ck, 'C13.density', cases.density, time=False)
    for case, _ in cases.pressure(ck.tier):
        out = run_case(ck, case)
        if not expect_raise(ck, 'C13.pressure.total', case, out, None, ''):
            continue
        vec = result_vec(ck, 'C13.pressure', case, out)
        if vec is None:
            continue
        from ..specs import pressure_allowed
        want = pressure_allowed(case.meta['values'])
        got = [flags_of(X.eval_values(e.d, {})) for e in vec.els()]
        ok = len(got) == len(want) and all(len(g) == 1 and g <= w for g, w in zip(got, want))
        ck.ob('C13.pressure.table', case.label, ok,
              key=f'ioos_qc.argo.pressure_increasing_test:profile',
              what=f'{case.label}: flags {got}, the property gives {want}')
