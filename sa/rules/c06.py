"""C06 — collected results put every context's flags back on the right input rows."""
import itertools

from .. import expr as X
from ..interp import AbsRaise
from ..streams_h import Table, expected_direct, make_config_source, run_frontend
from ..vec import Vec
from .c05 import StreamOutcome, t
from .c17 import equal_flags


def layouts(thorough):
    lite = {'a': ['gross', 'spike'], 'b': ['flat']}
    out = [
        ('two-contexts', [dict(window=(t(0), t(2)), tests=lite), dict(window=(t(2), t(5)), tests={'a': ['gross', 'roc'], 'b': ['flat']})]),
        ('gap-between', [dict(window=(t(0), t(2)), tests=lite), dict(window=(t(3), t(5)), tests=lite)]),
        ('single-partial', [dict(window=(t(1), t(4)), tests=lite)]),
        ('covering-and-empty', [dict(window=(None, None), tests=lite), dict(window=(t(2), t(2)), tests=lite)]),
        ('empty-then-covering', [dict(window=(t(2), t(2)), tests=lite), dict(window=(t(0), t(9)), tests=lite)]),
        ('two-half-open', [dict(window=(None, t(2)), tests=lite), dict(window=(t(2), None), tests={'a': ['gross', 'roc'], 'b': ['flat']})]),
        ('three-contexts', [dict(window=(None, t(1)), tests=lite), dict(window=(t(1), t(4)), tests=lite), dict(window=(t(4), None), tests=lite)]),
        # the same window listed in non-adjacent positions (a config assembled from several sources): every listing counts
        ('same-window-around-another', [dict(window=(t(0), t(2)), tests={'a': ['gross']}), dict(window=(t(2), t(5)), tests={'a': ['gross', 'spike']}),
                                        dict(window=(t(0), t(2)), tests={'a': ['spike'], 'b': ['flat']})]),
        # stream b is configured only in a context whose window is empty: it still gets its (entirely uncovered) result
        ('empty-window-only-for-b', [dict(window=(t(0), t(3)), tests={'a': ['gross', 'spike']}), dict(window=(t(2), t(2)), tests={'b': ['flat']})]),
    ]
    return out


def orders(items, thorough):
    n = len(items)
    perms = [list(range(n)), list(reversed(range(n)))]
    if n > 2:
        perms.append(list(range(1, n)) + [0])
    if thorough and n <= 5:
        perms = [list(p) for p in itertools.permutations(range(n))]
    seen = []
    for p in perms:
        if p not in seen:
            seen.append(p)
            yield [items[i] for i in p], p


def show_els(v):
    # what sits under a mask is not part of the outcome
    return ['--' if e.m is True else X.show(e.d) for e in v.els()] if isinstance(v, Vec) else repr(v)


def run(ck):
    ck.explanation = (
        'Decided by abstract interpretation of collect_results_list / collect_results_dict on the ContextResults that the (interpreted) '
        'NumpyStream and PandasStream yield for disjoint window layouts (two / three contexts, a gap, a single partial window, all-covering plus empty), '
        'in several yield orders: exactly one result per (stream id, module, test); one entry per input row; a covered row carries an expression '
        'equivalent to the direct call of the test on its window rows; an uncovered row is masked (list form) / UNKNOWN (dict form); both forms agree on '
        'covered rows; collected data / time / depth / position equal the source on covered rows; the outcome does not depend on the yield order. '
        'Tables with and without auxiliary axis columns.')
    thorough = ck.tier == 'thorough'
    r = ck.runner
    it = r.interp
    results_mod = it.module('ioos_qc.results')
    collect = results_mod.globals['collect_results']
    from fractions import Fraction as Fr
    tables = [('all-axes', Table(5, missing={'a': {2}})), ('time-only', Table(5, missing={'a': {2}}, with_axes=('time',))),
              ('unsorted-times', Table(5, missing={'a': {2}}, time_order=[2, 0, 4, 1, 3])),
              # instants off the whole second, time given to NumpyStream as epoch seconds (floats); windows that end between two stamps
              ('sub-second-epoch', Table(5, missing={'a': {2}}, time_offset=Fr(3, 4), time_carrier='epoch_float')),
              # two stream ids that are equal once made CF-safe (the stores' column labels would clash; the collected results must not)
              ('cf-clashing-ids', Table(5, streams=('w temp', 'w_temp'), missing={'w temp': {2}, 'w_temp': {0}}))]
    half = Fr(1, 2)
    lite = {'a': ['gross', 'spike'], 'b': ['valid']}
    frac_layouts = [('sub-second-edges', [dict(window=(t(0), t(2, half)), tests=lite), dict(window=(t(2, half), t(5)), tests=lite)]),
                    ('sub-second-gap', [dict(window=(t(0, half), t(1, half)), tests=lite), dict(window=(t(3, half), t(4, half)), tests=lite)])]
    clash_tests = {'w temp': ['gross', 'spike'], 'w_temp': ['gross', 'valid']}
    clash_layouts = [('two-contexts', [dict(window=(t(0), t(2)), tests=clash_tests), dict(window=(t(2), t(5)), tests=clash_tests)]),
                     ('single-partial', [dict(window=(t(1), t(4)), tests=clash_tests)])]
    for tname, table in tables:
        for lname, contexts in (frac_layouts if tname == 'sub-second-epoch' else clash_layouts if tname == 'cf-clashing-ids' else layouts(thorough)):
            if tname == 'unsorted-times':
                # flat_line_test derives its window from the median time step, which is meaningless for unsorted rows
                contexts = [dict(c, tests={sid: ['valid' if k == 'flat' else k for k in keys] for sid, keys in c['tests'].items()}) for c in contexts]
            src = make_config_source(contexts)
            expected = expected_direct(r, table, contexts)
            for fe in ('numpy', 'pandas'):
                if tname == 'sub-second-epoch' and fe != 'numpy':
                    continue
                run0 = run_frontend(r, fe, table, src)
                label0 = f'{fe}[{lname}; {tname}]'
                if run0.error is not None:
                    ck.violate('C06.collect', f'{fe}:stream-raises', f'{label0}: the stream itself raises {run0.error.exc}')
                    continue
                outcomes = {}
                for crs, perm in orders(run0.context_results, thorough):
                    for how in ('list', 'dict'):
                        label = f'{label0} order={perm} how={how}'
                        ck.count(1, distinct=(fe, lname, tname, tuple(perm), how))
                        it.events = []
                        try:
                            res = it.call(collect, [list(crs)], dict(how=how), None)
                        except AbsRaise as e:
                            from ..repo import unparse
                            site = unparse(e.node, 70) if e.node is not None else '?'
                            # findings are identified by the failing input (table class) and the kind of failure, not by the text of the
                            # statement that raises: a refactoring of collect_results_list must not turn the same defect into a new one
                            msg = ' '.join(str(a) for a in e.exc.args)
                            kind = ('scatter-of-an-empty-axis-array' if 'cannot assign 0 input values' in msg else
                                    'scatter-into-an-empty-axis-array' if 'size of axis is 0' in msg else site)
                            ck.violate('C06.collect', f'collect_results_{how}:raises-{e.exc.tname}:{kind}:table={tname}',
                                       f'{label}: raises {e.exc.tname}{e.exc.args} at `{site}`')
                            continue
                        check_collected(ck, label, how, res, table, contexts, expected, tname)
                        outcomes[(tuple(perm), how)] = res
                # order independence
                for how in ('list', 'dict'):
                    base = None
                    for (perm, h), res in outcomes.items():
                        if h != how:
                            continue
                        sig = signature(how, res)
                        if base is None:
                            base = (perm, sig)
                        else:
                            ck.ob('C06.order', f'{label0} how={how} order={list(perm)}', sig == base[1], key=f'collect_results_{how}:order-dependent',
                                  what=f'{label0} how={how}: the collected outcome for yield order {list(perm)} differs from order {list(base[0])}')
    synthetic_identity(ck, collect)
    synthetic_failed_context(ck, collect)
    # (bare CallResult items - QcConfig.run's shortcut - are not part of the property's statement: not demanded here)
    # a DataFrame whose row labels are a permutation of the positions: rows must land by label
    permuted = Table(5, missing={'a': {2}}, index_labels=[3, 1, 4, 0, 2])
    for lname, contexts in layouts(thorough)[:3]:
        src = make_config_source(contexts)
        expected = expected_direct(r, permuted, contexts)
        run0 = run_frontend(r, 'pandas', permuted, src)
        label0 = f'pandas[{lname}; permuted-index]'
        if run0.error is not None:
            ck.violate('C06.collect', 'pandas:permuted-index:stream-raises', f'{label0}: the stream raises {run0.error.exc}')
            continue
        for how in ('list', 'dict'):
            try:
                res = it.call(collect, [list(run0.context_results)], dict(how=how), None)
            except AbsRaise as e:
                ck.violate('C06.collect', f'collect_results_{how}:permuted-index:raises-{e.exc.tname}', f'{label0} how={how}: raises {e.exc}')
                continue
            check_collected(ck, f'{label0} how={how}', how, res, permuted, contexts, expected, 'permuted-index')
    ck.floor('C06.rows', 100)


def signature(how, res):
    out = []
    if how == 'list':
        for cr in res:
            a = cr.attrs
            out.append((a['stream_id'], a['package'], a['test'], tuple(show_els(a['results'])),
                        tuple(tuple(show_els(a[f])) if isinstance(a[f], Vec) else repr(a[f]) for f in ('data', 'tinp', 'zinp', 'lat', 'lon'))))
        return sorted(out, key=repr)
    for sid, mods in res.items():
        for mod, tests in mods.items():
            for test, v in tests.items():
                out.append((sid, mod, test, tuple(show_els(v))))
    return sorted(out, key=repr)


def check_collected(ck, label, how, res, table, contexts, expected, tname):
    # expected per (stream, module, test): row -> (ctx index, position in that context's result)
    want = {}
    for (ci, sid, mod, test), (rows, direct) in expected.items():
        if direct is None or direct.kind == 'raise':
            continue
        d = want.setdefault((sid, mod, test), {})
        for k, row in enumerate(rows):
            d[row] = (ci, k, direct)
        want[(sid, mod, test)] = d
    got = {}
    if how == 'list':
        keys = [(cr.attrs['stream_id'], cr.attrs['package'], cr.attrs['test']) for cr in res]
        ck.ob('C06.identity', label, len(keys) == len(set(keys)), key='collect_results_list:duplicate-results',
              what=f'{label}: more than one CollectedResult for the same (stream, module, test): {keys}')
        for cr in res:
            got[(cr.attrs['stream_id'], cr.attrs['package'], cr.attrs['test'])] = cr
    else:
        for sid, mods in res.items():
            for mod, tests in mods.items():
                for test, v in tests.items():
                    got[(sid, mod, test)] = v
    ck.ob('C06.identity', label, set(got) == set(want), key=f'collect_results_{how}:result-set',
          what=f'{label}: collected {sorted(got)} but the run produced {sorted(want)}')
    for key, rowsmap in want.items():
        if key not in got:
            continue
        vec = got[key].attrs['results'] if how == 'list' else got[key]
        if not isinstance(vec, Vec) or len(vec) != table.n:
            ck.violate('C06.rows', f'collect_results_{how}:length', f'{label} {key}: result has {len(vec) if isinstance(vec, Vec) else "?"} entries for {table.n} rows')
            continue
        for row in range(table.n):
            e = vec.el(row)
            if row in rowsmap:
                ci, k, direct = rowsmap[row]
                # masked exactly when the context's own flag is (a test that returns masked flags is C01's business, not the collector's)
                ok = e.m == direct.value.el(k).m if how == 'list' else True
                ck.ob('C06.rows', f'{label} {key} row {row}', ok, key=f'collect_results_{how}:covered-row-masked', what=f'{label} {key}: covered row {row} is masked')
                ok = ok and e.m is False
                if ok:
                    from ..cells import TableResult, compare_pair
                    res_t = TableResult()
                    compare_pair(direct.value.el(k).d, e.d, lambda a, b: a == b, ck.rng, res_t, f'{label} {key} row {row}')
                    ck.evaluations += res_t.cells
                    ck.ob('C06.rows', f'{label} {key} row {row} flag', not res_t.mismatches, key=f'collect_results_{how}:wrong-flag-on-row',
                          what=f'{label} {key}: row {row} carries {X.show(e.d)[:120]}, the context produced {X.show(direct.value.el(k).d)[:120]}')
            elif how == 'list':
                ck.ob('C06.rows', f'{label} {key} row {row}', e.m is True, key='collect_results_list:uncovered-row-not-masked',
                      what=f'{label} {key}: uncovered row {row} is not masked ({X.show(e.d)})')
            else:
                ck.ob('C06.rows', f'{label} {key} row {row}', e.m is False and e.d == X.num(2), key='collect_results_dict:uncovered-row-not-UNKNOWN',
                      what=f'{label} {key}: uncovered row {row} is {show_els(vec)[row]}, expected UNKNOWN (2)')
        if how == 'list':
            cr = got[key]
            for fld, col in (('data', key[0]), ('tinp', 'time'), ('zinp', 'z'), ('lat', 'lat'), ('lon', 'lon')):
                if col != key[0] and col not in table.axes:
                    continue
                v = cr.attrs.get(fld)
                src = table.cells(col)
                bad = []
                if not isinstance(v, Vec) or len(v) != table.n:
                    bad = ['shape']
                else:
                    for row in rowsmap:
                        if v.el(row).m is not False or v.el(row).d != src[row].d:
                            bad.append(row)
                ck.ob('C06.axes', f'{label} {key} .{fld}', not bad, key=f'collect_results_list:{fld}-not-source',
                      what=f'{label} {key}: collected .{fld} differs from the source on covered rows {bad}: {show_els(v) if isinstance(v, Vec) else v}')


def synthetic_identity(ck, collect):
    """results that differ only in stream id, only in module, or only in test name must stay separate"""
    from ..vec import El
    it = ck.runner.interp
    rm = it.module('ioos_qc.results').globals
    CallResult, ContextResult = rm['CallResult'], rm['ContextResult']

    def vec(vals, dtype='u1', kind='ma'):
        return Vec.fresh([El(X.num(v), False) for v in vals], kind=kind, dtype=dtype)

    def ctx(stream, triples, mask):
        crs = [it.instantiate(CallResult, [], dict(package=p, test=tname, function=None, results=vec(flags)), None) for p, tname, flags in triples]
        rows = [i for i, m in enumerate(mask) if m]
        # every array carries its row number (and the stream in the data), so that a value in the wrong place or a missing scatter shows
        base = 100 if stream == 's1' else 200
        return it.instantiate(ContextResult, [], dict(
            stream_id=stream, results=crs, subset_indexes=Vec.fresh([El(X.TRUE if m else X.FALSE, False) for m in mask], kind='nd', dtype='b1'),
            data=vec([base + i for i in rows], 'f8', 'nd'), tinp=vec([10 + i for i in rows], 'f8', 'nd'), zinp=vec([20 + i for i in rows], 'f8', 'nd'),
            lat=vec([30 + i for i in rows], 'f8', 'nd'), lon=vec([40 + i for i in rows], 'f8', 'nd')), None)
    mask1, mask2 = [True, True, False], [False, False, True]
    scen = [
        ctx('s1', [('qartod', 't', [1, 3]), ('argo', 't', [4, 4]), ('qartod', 'u', [9, 9])], mask1),
        ctx('s2', [('qartod', 't', [3, 1])], mask1),
        ctx('s1', [('qartod', 't', [4]), ('argo', 't', [1])], mask2),
    ]
    want = {('s1', 'qartod', 't'): ['1', '3', '4'], ('s1', 'argo', 't'): ['4', '4', '1'], ('s1', 'qartod', 'u'): ['9', '9', None],
            ('s2', 'qartod', 't'): ['3', '1', None]}
    for how in ('list', 'dict'):
        for order in ([0, 1, 2], [2, 1, 0], [1, 2, 0]):
            label = f'synthetic identity how={how} order={order}'
            try:
                res = it.call(collect, [[scen[i] for i in order]], dict(how=how), None)
            except AbsRaise as e:
                ck.violate('C06.identity', f'collect_results_{how}:synthetic-raises', f'{label}: raises {e.exc}')
                continue
            got = {}
            if how == 'list':
                for cr in res:
                    got[(cr.attrs['stream_id'], cr.attrs['package'], cr.attrs['test'])] = cr.attrs['results']
            else:
                for sid, mods in res.items():
                    for mod, tests in mods.items():
                        for tname, v in tests.items():
                            got[(sid, mod, tname)] = v
            ok = set(got) == set(want)
            if ok:
                for k, w in want.items():
                    els = got[k].els()
                    for i, x in enumerate(w):
                        if x is None:
                            ok = ok and ((els[i].m is True) if how == 'list' else (els[i].d == X.num(2) and els[i].m is False))
                        else:
                            ok = ok and els[i].m is False and X.show(els[i].d) == x
            ck.ob('C06.identity', label, ok, key=f'collect_results_{how}:identity-stream-module-test',
                  what=f'{label}: results that differ only in stream id / module / test name are merged or misplaced: {sorted(got)}')
            if how == 'list' and ok:
                # every collected result - also those that shared a ContextResult with other tests - carries the source arrays on covered rows
                for cr in res:
                    k = (cr.attrs['stream_id'], cr.attrs['package'], cr.attrs['test'])
                    covered = [i for i, x in enumerate(want[k]) if x is not None]
                    base = 100 if k[0] == 's1' else 200
                    for fld, off in (('data', base), ('tinp', 10), ('zinp', 20), ('lat', 30), ('lon', 40)):
                        v = cr.attrs.get(fld)
                        gotv = [None if (not isinstance(v, Vec) or i >= len(v) or v.el(i).m is True) else X.show(v.el(i).d) for i in covered]
                        wantv = [str(off + i) for i in covered]
                        ck.ob('C06.axes', f'{label} {k}.{fld}', gotv == wantv, key=f'collect_results_list:{fld}-not-source:several-tests-per-context',
                              what=f'{label}: collected {k}.{fld} is {gotv} on the covered rows {covered}, the source has {wantv} '
                                   '(ContextResults holding several test results)')


def synthetic_failed_context(ck, collect):
    """a ContextResult without results (its test could not run) must not touch the results collected for other streams"""
    from ..vec import El
    it = ck.runner.interp
    rm = it.module('ioos_qc.results').globals
    CallResult, ContextResult = rm['CallResult'], rm['ContextResult']

    def vec(vals, dtype='f8', kind='nd'):
        return Vec.fresh([El(X.num(v), False) for v in vals], kind=kind, dtype=dtype)

    def ctx(stream, triples, mask, data):
        crs = [it.instantiate(CallResult, [], dict(package=p, test=tname, function=None, results=vec(flags, 'u1', 'ma')), None) for p, tname, flags in triples]
        n = sum(mask)
        return it.instantiate(ContextResult, [], dict(
            stream_id=stream, results=crs, subset_indexes=Vec.fresh([El(X.TRUE if m else X.FALSE, False) for m in mask], kind='nd', dtype='b1'),
            data=vec(data), tinp=vec(list(range(n))), zinp=vec([1] * n), lat=vec([2] * n), lon=vec([3] * n)), None)
    m1, m2 = [True, True, False, False], [False, False, True, True]
    scen = [
        ctx('temp', [('qartod', 't', [1, 3])], m1, [10, 11]),
        ctx('salt', [], m1, [90, 91]),                       # salt's test failed in the first window
        ctx('temp', [('qartod', 't', [4, 1])], m2, [12, 13]),
        ctx('salt', [], m2, [92, 93]),
    ]
    for order in ([0, 1, 2, 3], [0, 2, 1, 3], [1, 0, 3, 2], [0, 1, 3, 2]):
        label = f'failed-context scenario order={order}'
        try:
            res = it.call(collect, [[scen[i] for i in order]], dict(how='list'), None)
        except AbsRaise as e:
            ck.violate('C06.identity', 'collect_results_list:failed-context-raises', f'{label}: raises {e.exc}')
            continue
        ok = len(res) == 1 and res[0].attrs['stream_id'] == 'temp'
        if ok:
            cr = res[0]
            ok = show_els(cr.attrs['results']) == ['1', '3', '4', '1'] and show_els(cr.attrs['data']) == ['10', '11', '12', '13']
        ck.ob('C06.identity', label, ok, key='collect_results_list:failed-context-disturbs-other-stream',
              what=f'{label}: a ContextResult without results changed what was collected for another stream: '
                   f'{[(c.attrs["stream_id"], show_els(c.attrs["results"]), show_els(c.attrs["data"])) for c in res]}')
