"""C16 — stricter thresholds never produce a better flag."""
from fractions import Fraction as Fr

from .. import cases, expr as X
from ..cells import TableResult, compare_pair
from ..qc import Case, FLAGNAME, fn_key, patterns, run_case
from ..scen import data_input, time_input
from ..vec import Vec

SEV = {1: 0, 3: 1, 4: 2}
NAN = float('nan')


def relation(loose, strict):
    """severity never decreases; the UNKNOWN / MISSING sets coincide"""
    if len(loose) != 1 or len(strict) != 1:
        # an unknown comparison on data under a mask: only definite answers are compared
        return True
    a, b = next(iter(loose)), next(iter(strict))
    if a in (2, 9) or b in (2, 9):
        return a == b
    if a not in SEV or b not in SEV:
        return False
    return SEV[b] >= SEV[a]


def fr(d):
    if d.get('_ints'):
        # whole numbers handed over as Python ints (an integer-typed span), not as exact rationals standing for floats
        return {k: v for k, v in d.items() if k != '_ints'}
    return {k: (Fr(v) if isinstance(v, int) and not isinstance(v, bool) else (tuple(a if a is None or a != a else Fr(a) for a in v) if isinstance(v, tuple) else v)) for k, v in d.items()}


def pairs():
    """(test, builder(pattern(s)) -> args, [(loose kwargs, strict kwargs)], lengths, n_inputs)"""
    t10 = lambda n: [100 + 10 * i for i in range(n)]
    yield ('gross_range_test', lambda p: [data_input('inp', p)], [
        (dict(fail_span=(0, 6)), dict(fail_span=(1, 5))),
        (dict(fail_span=(0, 6)), dict(fail_span=(0, 6), suspect_span=(2, 4))),
        (dict(fail_span=(0, 6), suspect_span=(1, 5)), dict(fail_span=(0, 6), suspect_span=(2, 4))),
        (dict(fail_span=(0, 6), suspect_span=(1, 5)), dict(fail_span=(1, 5), suspect_span=(2, 4))),
        (dict(fail_span=(0, 6), suspect_span=(1, 5)), dict(fail_span=(1, 5), suspect_span=(1, 5))),
        (dict(fail_span=(0, 6), suspect_span=(2, 4)), dict(fail_span=(2, 4), suspect_span=(3, 3))),
        # a stricter fail span that no longer contains the suspect span: the function rejects it; if it did not, the flags must still not improve
        (dict(fail_span=(0, 10), suspect_span=(2, 8)), dict(fail_span=(3, 9), suspect_span=(2, 8))),
        (dict(fail_span=(0, 10), suspect_span=(2, 8)), dict(fail_span=(3, 7), suspect_span=(2, 8))),
    ], [1, 2], 1)
    yield ('valid_range_test', lambda p: [data_input('inp', p, carrier='ndarray')], [
        (dict(valid_span=(1, 5)), dict(valid_span=(2, 4))),
        (dict(valid_span=(None, 5)), dict(valid_span=(2, 5))),
        (dict(valid_span=(1, None)), dict(valid_span=(1, 3))),
        (dict(valid_span=(1, 5), end_inclusive=True), dict(valid_span=(1, 4), end_inclusive=True)),
    ], [1, 2], 1)
    # integer-typed data: a loose span whose bounds do not fit the storage type of the data (uint8: -1, 256, 300) is still a span of numbers
    yield ('valid_range_test', lambda p: [data_input('inp', p, carrier='ndarray_u1')], [
        (dict(valid_span=(-1, 256), _ints=True), dict(valid_span=(0, 255), _ints=True)),
        (dict(valid_span=(-1, 300), end_inclusive=True, _ints=True), dict(valid_span=(2, 200), end_inclusive=True, _ints=True)),
        (dict(valid_span=(0, 300), _ints=True), dict(valid_span=(0, 100), _ints=True)),
        (dict(valid_span=(-1, 256)), dict(valid_span=(0, 255))),
    ], [1, 2], 1)
    yield ('spike_test', lambda p: [data_input('inp', p)], [
        (dict(suspect_threshold=2, fail_threshold=4), dict(suspect_threshold=1, fail_threshold=3)),
        (dict(suspect_threshold=2, fail_threshold=4), dict(suspect_threshold=2, fail_threshold=2)),
        (dict(fail_threshold=3), dict(suspect_threshold=1, fail_threshold=3)),
        (dict(suspect_threshold=2), dict(suspect_threshold=2, fail_threshold=3)),
        (dict(suspect_threshold=2), dict(suspect_threshold=2, fail_threshold=1)),
        (dict(), dict(suspect_threshold=1)),
        (dict(suspect_threshold=1, fail_threshold=2), dict(suspect_threshold=0, fail_threshold=2)),
        (dict(suspect_threshold=2, fail_threshold=4, method='differential'), dict(suspect_threshold=1, fail_threshold=3, method='differential')),
        (dict(fail_threshold=3, method='differential'), dict(suspect_threshold=1, fail_threshold=3, method='differential')),
    ], [3, 4], 1)
    yield ('rate_of_change_test', lambda p: [data_input('inp', p), time_input('tinp', t10(len(p)))], [
        (dict(threshold=2), dict(threshold=1)), (dict(threshold=1), dict(threshold=0)),
    ], [2, 3], 1)
    yield ('flat_line_test', lambda p: [data_input('inp', p), time_input('tinp', t10(len(p)))], [
        (dict(suspect_threshold=20, fail_threshold=30, tolerance=1), dict(suspect_threshold=10, fail_threshold=30, tolerance=1)),
        (dict(suspect_threshold=20, fail_threshold=30, tolerance=1), dict(suspect_threshold=20, fail_threshold=20, tolerance=1)),
        (dict(suspect_threshold=20, fail_threshold=30, tolerance=1), dict(suspect_threshold=20, fail_threshold=30, tolerance=2)),
        (dict(suspect_threshold=25, fail_threshold=35, tolerance=1), dict(suspect_threshold=15, fail_threshold=25, tolerance=2)),
        (dict(suspect_threshold=20, fail_threshold=30, tolerance=1), dict(suspect_threshold=20, fail_threshold=10, tolerance=1)),
    ], [3, 4, 5], 1)
    yield ('attenuated_signal_test', lambda p: [data_input('inp', p), time_input('tinp', t10(len(p)))], [
        (dict(suspect_threshold=2, fail_threshold=1), dict(suspect_threshold=3, fail_threshold=1)),
        (dict(suspect_threshold=2, fail_threshold=1), dict(suspect_threshold=2, fail_threshold=2)),
        (dict(suspect_threshold=2, fail_threshold=1), dict(suspect_threshold=2, fail_threshold=3)),
        (dict(suspect_threshold=2, fail_threshold=1, check_type='range', test_period=20), dict(suspect_threshold=3, fail_threshold=2, check_type='range', test_period=20)),
        (dict(suspect_threshold=2, fail_threshold=1, test_period=30, min_obs=2), dict(suspect_threshold=3, fail_threshold=2, test_period=30, min_obs=2)),
    ], [2, 3, 4], 1)
    yield ('density_inversion_test', lambda p: [data_input('inp', p), data_input('zinp', 'p' * len(p), values=[Fr(i) for i in range(len(p))])], [
        (dict(suspect_threshold=-2, fail_threshold=-4), dict(suspect_threshold=-1, fail_threshold=-3)),
        (dict(fail_threshold=-3), dict(suspect_threshold=-1, fail_threshold=-3)),
        (dict(suspect_threshold=-1), dict(suspect_threshold=-1, fail_threshold=-1)),
        (dict(suspect_threshold=-2, fail_threshold=-4), dict(suspect_threshold=-2, fail_threshold=-1)),
        # "not smaller" crosses zero: a positive threshold (the density must grow by at least that much) is stricter than any negative one
        (dict(fail_threshold=-1), dict(fail_threshold=2)),
        (dict(suspect_threshold=-1, fail_threshold=-3), dict(suspect_threshold=3, fail_threshold=1)),
        (dict(suspect_threshold=-1), dict(suspect_threshold=0)),
        (dict(suspect_threshold=1, fail_threshold=-1), dict(suspect_threshold=2, fail_threshold=1)),
    ], [2, 3], 1)
    yield ('location_test', lambda p: [data_input('lon', p[0]), data_input('lat', p[1])], [
        (dict(bbox=(-10, -20, 10, 20)), dict(bbox=(-5, -10, 5, 10))),
        (dict(bbox=(-10, -20, 10, 20)), dict(bbox=(-10, -20, 10, 20), range_max=5)),
        (dict(bbox=(-10, -20, 10, 20), range_max=5), dict(bbox=(-10, -10, 5, 20), range_max=3)),
        (dict(), dict(range_max=0)),
    ], [1, 2], 2)
    yield ('speed_test', lambda p: [data_input('lon', p[0]), data_input('lat', p[1]), time_input('tinp', t10(len(p[0])))], [
        (dict(suspect_threshold=2, fail_threshold=4), dict(suspect_threshold=1, fail_threshold=3)),
        (dict(suspect_threshold=2, fail_threshold=4), dict(suspect_threshold=2, fail_threshold=2)),
        (dict(suspect_threshold=1, fail_threshold=4), dict(suspect_threshold=0, fail_threshold=4)),
        # a fail threshold tightened below the suspect threshold is still "not larger"
        (dict(suspect_threshold=2, fail_threshold=4), dict(suspect_threshold=2, fail_threshold=1)),
        (dict(suspect_threshold=2, fail_threshold=4), dict(suspect_threshold=0, fail_threshold=0)),
    ], [2, 3], 2)


def clim_pairs():
    from ..models_pd import TS
    base = dict(tspan=(TS(100), TS(200)), vspan=(2, 6), fspan=(0, 8))
    yield [dict(base)], [dict(base, vspan=(3, 5))]
    yield [dict(base)], [dict(base, fspan=(1, 7))]
    yield [dict(base)], [dict(base, vspan=(3, 5), fspan=(2, 6))]
    yield [dict(tspan=(TS(100), TS(200)), vspan=(2, 6))], [dict(base)]
    yield [dict(base, zspan=(10, 20))], [dict(base, zspan=(10, 20), vspan=(4, 4))]


def run(ck):
    ck.explanation = (
        'Decided: for every threshold-driven test and ordered pairs (loose, strict) of parameter sets, the two abstractly derived flag '
        'expressions are compared on every joint order cell of the quantities either run compares: severity GOOD<SUSPECT<FAIL never '
        'decreases and UNKNOWN / MISSING cells coincide; disagreeing cells are confirmed by an exact rational witness. Includes '
        '"adding a suspect threshold" and "threshold given as zero". Universal over data values; parameter pairs are representatives of '
        'each nesting the property names.')
    thorough = ck.tier == 'thorough'
    for test, build, kwpairs, ns, ninp in pairs():
        for loose, strict in kwpairs:
            for n in ns + ([ns[-1] + 1] if thorough else []):
                pats = patterns(n)
                if not thorough:
                    pats = [p for p in pats if p.count('m') <= 1]
                plist = pats if ninp == 1 else [(a, b) for a in pats for b in pats if thorough or (a.count('m') + b.count('m') <= 1)]
                for p in plist:
                    outs = []
                    try:
                        build(p)
                    except ValueError:
                        continue            # a carrier that cannot hold this pattern (integers have no missing value)
                    for kw in (loose, strict):
                        c = Case(test, build(p), fr(kw), n=n, pat={'inp': p} if ninp == 1 else {'lon': p[0], 'lat': p[1]},
                                 meta={'class': 'pair', 't': [100 + 10 * i for i in range(n)]})
                        outs.append((c, run_case(ck, c, allow_refused=True)))
                    compare_outcomes(ck, test, outs, f'{loose} -> {strict}')
                    # the stricter set read back as numpy scalars (np.int64 / np.float32: an xarray attribute, a DataFrame cell) is the same set
                    if n == ns[-1] and p == plist[0]:
                        from ..qc import numpy_scalar_params
                        for kind in ('int64', 'float32'):
                            c = Case(test, build(p), numpy_scalar_params(fr(strict), kind), n=n, pat={'inp': p} if ninp == 1 else {'lon': p[0], 'lat': p[1]},
                                     meta={'class': 'pair', 't': [100 + 10 * i for i in range(n)]})
                            c.label = f'{c.label} [parameters as np.{kind}]'
                            compare_outcomes(ck, test, [outs[0], (c, run_case(ck, c, allow_refused=True))], f'{loose} -> {strict} as np.{kind}')
    # climatology member spans
    feats = {}
    for lm, sm in clim_pairs():
        for ip in (['ppp', 'pmp'] if not thorough else patterns(3)):
            outs = []
            for ms in (lm, sm):
                cfg = [{k: (tuple(Fr(a) if isinstance(a, int) else a for a in v) if isinstance(v, tuple) else v) for k, v in m.items()} for m in ms]
                c = Case('climatology_test', [], dict(config=cfg, inp=data_input('inp', ip), tinp=time_input('tinp', [100, 150, 250]),
                                                     zinp=data_input('zinp', 'ppm', values=[Fr(15), Fr(30), Fr(15)])),
                         n=3, pat={'inp': ip}, meta={'class': 'pair'}, label=f'climatology_test(members={ms}; inp:{ip!r})')
                outs.append((c, run_case(ck, c, allow_refused=True)))
            compare_outcomes(ck, 'climatology_test', outs, f'{lm} -> {sm}')
    ck.floor('C16.monotone', 300)


def compare_outcomes(ck, test, outs, what):
    (ca, oa), (cb, ob) = outs
    key = fn_key(ca)
    if 'refused' in (oa.kind, ob.kind):
        from .c17 import equal_flags
        equal_flags(ck, 'C16.monotone', f'{key}:pair', ca.label, oa, cb.label, ob, f'{test}: {what}', relation=relation)
        return
    if oa.kind == 'raise' or ob.kind == 'raise':
        # a parameter set the function rejects yields no flags: nothing can have become better (whether it must be rejected is C03 / C09 ...'s matter)
        ck.hold('C16.monotone', f'{ca.label} => {cb.label} (rejected parameter set)')
        return
    va, vb = oa.value, ob.value
    if not isinstance(va, Vec) or not isinstance(vb, Vec) or len(va) != len(vb):
        ck.violate('C16.monotone', f'{key}:shape', f'{ca.label}: results not comparable')
        return
    res = TableResult()
    for p, (ea, eb) in enumerate(zip(va.els(), vb.els())):
        compare_pair(ea.d, eb.d, relation, ck.rng, res, f'{ca.label} @ {p}')
    ck.evaluations += res.cells
    ck.distinct.update(res.distinct)
    for m in res.mismatches:
        ck.violate('C16.monotone', f"{key}:loose={'/'.join(m['got'])}:strict={'/'.join(m['allowed'])}",
                   f"{test}: {what}: at {m['where']} cell {m['cell']} the loose parameters give {m['got']} but the stricter give {m['allowed']}"
                   + (f"; witness {m['witness']}" if m.get('witness') else ''), m)
    if not res.mismatches:
        ck.hold('C16.monotone', f'{ca.label} => {cb.label}')
    if len(ck.samples) < 4 and res.cells:
        ck.sample(dict(pair=what, test=test, cells=res.cells))
