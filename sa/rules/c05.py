"""C05 — running a config through any stream equals calling each test on its window rows."""
from fractions import Fraction as Fr
from .. import expr as X
from ..scen import Outcome
from ..streams_h import Table, expected_direct, make_config_source, run_frontend, test_menu, T0, STEP
from ..vec import Vec
from .c17 import equal_flags

FRONTENDS = ['numpy', 'numpy-single', 'netcdf', 'pandas', 'xarray', 'qcconfig']


def t(i, off=0):
    return T0 + STEP * i + off


def context_sets(thorough):
    full = {'a': ['gross', 'spike', 'roc', 'clim', 'loc', 'valid_incl'], 'b': ['flat', 'valid', 'dens', 'speed', 'press']}
    lite = {'a': ['gross', 'spike', 'roc'], 'b': ['flat']}
    sets = [
        ('no-window', [dict(window=(None, None), tests=full)]),
        ('closed-window', [dict(window=(t(1), t(3)), tests=full)]),
        ('window-between-stamps', [dict(window=(t(0, 5), t(3, 5)), tests=lite)]),
        ('starting-only', [dict(window=(t(2), None), tests=lite)]),
        ('ending-only', [dict(window=(None, t(2)), tests=lite)]),
        ('empty-window', [dict(window=(t(2), t(2)), tests={'a': ['gross', 'spike'], 'b': ['flat']})]),
        ('covering-window', [dict(window=(t(0), t(9)), tests=lite)]),
        ('two-contexts', [dict(window=(t(0), t(2)), tests=lite), dict(window=(t(2), t(5)), tests={'a': ['gross', 'roc'], 'b': ['flat', 'valid']})]),
        ('one-row-window', [dict(window=(t(4), None), tests=lite)]),
        # starting after ending: no instant satisfies starting <= t < ending (bounds are not a span to be sorted)
        ('reversed-window', [dict(window=(t(1), t(3)), tests={'a': ['gross'], 'b': ['valid']}), dict(window=(t(4), t(1)), tests={'a': ['gross', 'spike'], 'b': ['flat']})]),
        ('whole-record-then-window', [dict(window=(None, None), tests={'a': ['gross', 'spike'], 'b': ['valid']}),
                                      dict(window=(t(1), t(3)), tests={'a': ['gross', 'spike'], 'b': ['valid']})]),
    ]
    if thorough:
        sets += [
            ('three-contexts', [dict(window=(None, t(1)), tests=lite), dict(window=(t(1), t(4)), tests=lite), dict(window=(t(4), None), tests=lite)]),
            ('last-row-excluded', [dict(window=(t(0), t(4)), tests=full)]),
        ]
    return sets


class StreamOutcome:
    """adapter: a stream result presented like a direct-call outcome"""
    def __init__(self, value):
        self.kind = 'return'
        self.value = value
        self.exc = None
        self.node = None
        self.events = []


def compare_run(ck, frontend, setname, table, contexts, run, expected, single=None):
    label0 = f'{frontend}[{setname}; n={table.n}; axes={"/".join(table.axes)}' + (f'; index={table.index_labels}' if table.index_labels else '') + ']'
    if run.error is not None:
        exc = run.error.exc
        from ..repo import unparse
        site = f' at `{unparse(run.error.node, 80)}`' if run.error.node is not None else ''
        # keyed by front end, exception and the kind of table (not by the text of the raising statement)
        variant = setname.split('/', 1)[1] if '/' in setname else 'regular-table'
        ck.violate('C05.run', f'{frontend}:raises-{exc.tname}:{variant}',
                   f'{label0}: the front end raises {exc.tname}{exc.args}{site}', dict(set=setname))
        return
    used = set()
    tclass = 'duplicate-labels' if table.index_labels and len(set(table.index_labels)) < len(table.index_labels) else \
        ('labelled-index' if table.index_labels else 'table')
    if tclass == 'table' and (table.missing.get('time') or table.t != sorted(table.t)):
        tclass = 'non-monotonic-time'
    for (ci, sid, mod, test), (rows, direct) in expected.items():
        if single is not None and sid != single:
            continue
        want_mask = tuple('true' if i in rows else 'false' for i in range(table.n))
        cands = [(k, r) for k, r in enumerate(run.results) if r[0] == sid and r[1] == mod and r[2] == test and k not in used]
        label = f'{label0} {sid}:{mod}.{test} window={contexts[ci]["window"]}'
        droppable = direct is None or direct.kind == 'raise'
        match = [(k, r) for k, r in cands if r[3] == want_mask]
        if droppable:
            # the test cannot run on these rows when called directly: no result is expected either (C18)
            ck.ob('C05.rows', label, not match, key=f'{frontend}:{test}:result-for-unrunnable-test',
                  what=f'{label}: the stream reports a result although the direct call does not return')
            continue
        if not match:
            got_masks = sorted({r[3] for _, r in cands if r[3] is not None})
            kind = 'no-result'
            if got_masks:
                # which explanation fits one of the reported masks (results of the same test in other contexts are among them)
                cand_rows = [[i for i, v in enumerate(m) if v == 'true'] for m in got_masks]
                lo, hi = contexts[ci]['window']
                at_ending = [i for i in range(table.n) if hi is not None and table.t[i] == hi]
                everything = list(range(table.n))
                open_bound = (lo is None) != (hi is None)
                if open_bound and everything in cand_rows:
                    kind = 'window-ignored'
                elif at_ending and sorted(set(rows) | set(at_ending)) in cand_rows:
                    kind = 'row-at-ending-included'
                elif everything in cand_rows:
                    kind = 'window-ignored'
                else:
                    kind = 'other-rows'
            ck.violate('C05.rows', f'{frontend}:{tclass}:{window_class(contexts[ci]["window"])}:wrong-rows:{kind}',
                       f'{label}: expected a result on rows {rows}; the stream reports ' + (f'rows masks {got_masks}' if cands else 'no result for this test'),
                       dict(set=setname))
            if len(cands) == 1 and tclass == 'duplicate-labels':
                # the row mask is wrong (known finding), but the flags themselves can still be compared with the direct call
                k, r = cands[0]
                used.add(k)
                equal_flags(ck, 'C05.flags', f'{frontend}:{test}:flags-despite-wrong-mask', f'direct {test} on rows {rows}', direct, label,
                            StreamOutcome(r[4]), f'{frontend} vs direct call')
            continue
        k, r = match[0]
        used.add(k)
        ck.hold('C05.rows', label)
        equal_flags(ck, 'C05.flags', f'{frontend}:{test}', f'direct {test} on rows {rows}', direct, label, StreamOutcome(r[4]),
                    f'{frontend} vs direct call')
        # the auxiliary arrays handed back are the same rows
        cr = r[5]
        for fld, col in (('data', sid), ('tinp', 'time'), ('zinp', 'z'), ('lat', 'lat'), ('lon', 'lon')):
            v = cr.attrs.get(fld)
            if col != sid and col not in table.axes:
                continue
            want = [X.show(e.d) for e in table.cells(col, rows)]
            got = [X.show(e.d) for e in v.els()] if isinstance(v, Vec) else None
            ck.ob('C05.axes', f'{label} .{fld}', got == want, key=f'{frontend}:{fld}:not-window-rows',
                  what=f'{label}: ContextResult.{fld} is {got}, expected the window rows {want}')
    extra = [r for k, r in enumerate(run.results) if k not in used and (single is None or r[0] == single)
             and not any((sid, mod, tst) == (r[0], r[1], r[2]) and (d is None or d.kind == 'raise') for (ci, sid, mod, tst), (rows, d) in expected.items())]
    ck.ob('C05.extra', label0, not extra, key=f'{frontend}:{tclass}:unexpected-results',
          what=f'{label0}: results that no configured (context, stream, test) accounts for: {[(r[0], r[2], r[3]) for r in extra][:4]}')
    # what the stream reported stays what it reported: collecting the results (either form) does not rewrite the per-context flags
    if single is None and run.context_results and tclass == 'table':
        from ..interp import AbsRaise
        it = ck.runner.interp
        collect = it.module('ioos_qc.results').globals['collect_results']

        def sig(v):
            return [('--' if e.m is True else '') + X.show(e.d) for e in v.els()] if isinstance(v, Vec) else repr(v)
        before = [(r[0], r[2], r[3], sig(r[4])) for r in run.results]
        for how in ('dict', 'list'):
            try:
                it.call(collect, [list(run.context_results)], dict(how=how), None)
            except AbsRaise:
                pass       # whether collecting works at all is C06's business
            after = [(r[0], r[2], r[3], sig(r[4])) for r in run.results]
            changed = [(b[0], b[1]) for b, a in zip(before, after) if a != b]
            ck.ob('C05.flags', f'{label0} after collect_results(how={how!r})', not changed, key=f'{frontend}:collect-{how}-rewrites-context-results',
                  what=f'{label0}: collect_results(how={how!r}) changed the flags held by the ContextResults of {changed[:3]} (they no longer equal the direct call)')
            before = after


def window_class(w):
    lo, hi = w
    return ('both' if lo is not None and hi is not None else 'starting-only' if lo is not None else 'ending-only' if hi is not None else 'none')


def error_class(err):
    from ..repo import unparse
    return unparse(err.node, 50) if err.node is not None else '?'


def run(ck):
    ck.explanation = (
        'Decided by abstract interpretation of the five front ends (NumpyStream with dict and single-array input, NetcdfStream, PandasStream, '
        'XarrayStream, QcConfig.run) together with Config and Call.run on a symbolic data table: for every configured (context, stream, test) '
        'the reported flag expressions are equivalent to those of a direct call of the test function on the rows starting <= t < ending with the '
        'time / depth / lat / lon inputs restricted to the same rows; subset_indexes marks exactly those rows; the arrays handed back are those rows; '
        'no unexpected results. Windows: absent, closed, half-open on either side, empty, covering, between timestamps, several contexts; neighbour- and '
        'time-dependent tests included; tables with and without auxiliary axes and with a non-default row index. DataFrame / xarray containers are stubs '
        '(sa/models_xr.py); pandas / xarray selection semantics are trusted as modelled. Multi-dimensional variables are not covered.')
    thorough = ck.tier == 'thorough'
    tables = [Table(5, missing={'a': {2}})]
    if thorough:
        tables += [Table(6, missing={'b': {0, 5}}), Table(3)]
    for table in tables:
        for setname, contexts in context_sets(thorough):
            src = make_config_source(contexts)
            expected = expected_direct(ck.runner, table, contexts)
            for fe in ('numpy', 'netcdf', 'pandas', 'xarray'):
                run = run_frontend(ck.runner, fe, table, src)
                ck.count(1, distinct=(fe, setname, table.n))
                compare_run(ck, fe, setname, table, contexts, run, expected)
    # single-array NumpyStream and QcConfig.run (one stream, bare module mapping)
    table = Table(5, streams=('a',), missing={'a': {2}})
    menu = test_menu()
    for keys in (['gross', 'spike', 'roc'], ['flat', 'clim'], ['loc', 'speed', 'valid']):
        contexts = [dict(window=(None, None), tests={'_stream': keys})]
        mods = {}
        for k in keys:
            mod, test, kw, _ = menu[k]
            mods.setdefault(mod, {})[test] = dict(kw)
        t2 = Table(5, streams=('_stream',), missing={'_stream': {2}})
        expected = expected_direct(ck.runner, t2, contexts)
        run = run_frontend(ck.runner, 'numpy', t2, mods, single_stream='_stream')
        compare_run(ck, 'numpy-single', f'module-mapping {keys}', t2, contexts, run, expected)
        qrun = run_frontend(ck.runner, 'qcconfig', t2, mods, single_stream='_stream')
        compare_qcconfig(ck, qrun, t2, contexts, expected, keys)
    # a table without depth / position columns and one with a non-default row index
    bare = Table(5, missing={'a': {2}}, with_axes=('time',))
    contexts = [dict(window=(t(1), t(4)), tests={'a': ['gross', 'roc', 'clim', 'loc'], 'b': ['flat']})]
    src = make_config_source(contexts)
    expected = expected_direct(ck.runner, bare, contexts)
    for fe in ('numpy', 'netcdf', 'pandas', 'xarray'):
        compare_run(ck, fe, 'no-aux-axes', bare, contexts, run_frontend(ck.runner, fe, bare, src), expected)
    # some of the auxiliary columns only (a surface track without depth; a profile without positions): each test gets exactly the inputs that exist
    for axes, tests in ((('time', 'lat', 'lon'), {'a': ['gross', 'loc', 'speed', 'clim'], 'b': ['roc']}),
                        (('time', 'z'), {'a': ['dens', 'clim', 'loc'], 'b': ['flat']}),
                        (('lat', 'lon'), {'a': ['loc', 'gross', 'speed']}),
                        (('time', 'z', 'lat'), {'a': ['loc', 'dens', 'roc']})):
        part = Table(5, missing={'a': {2}}, with_axes=axes)
        for window in ((None, None), (t(1), t(4))):
            if window != (None, None) and 'time' not in axes:
                continue
            cs = [dict(window=window, tests=tests)]
            src = make_config_source(cs)
            expected = expected_direct(ck.runner, part, cs)
            for fe in ('numpy', 'netcdf', 'pandas', 'xarray'):
                compare_run(ck, fe, f'axes={"+".join(axes)}{"" if window == (None, None) else "/window"}', part, cs, run_frontend(ck.runner, fe, part, src), expected)
    # a bound written out as absent (`ending: null` in YAML, None in a mapping) is an open bound, like a bound left out
    full = Table(5, missing={'a': {2}})
    for name, window in (('starting-only', (t(2), None)), ('ending-only', (None, t(3))), ('both-null', (None, None))):
        cs = [dict(window=window, tests={'a': ['gross', 'spike'], 'b': ['roc']})]
        src = make_config_source(cs)
        for c in src['contexts']:
            w = c.setdefault('window', {})
            for k in ('starting', 'ending'):
                w.setdefault(k, None)
        expected = expected_direct(ck.runner, full, cs)
        for fe in ('numpy', 'netcdf', 'pandas', 'xarray'):
            compare_run(ck, fe, f'explicit-null-bound/{name}', full, cs, run_frontend(ck.runner, fe, full, src), expected)
    # rows without a position (both coordinates missing) or without a depth: the tests see exactly those gaps (nothing is carried forward)
    gaps = Table(5, missing={'a': {2}, 'lat': {1, 3}, 'lon': {3}, 'z': {2}})
    for window in ((None, None), (t(1), t(5))):
        cs = [dict(window=window, tests={'a': ['loc', 'speed', 'gross', 'clim'], 'b': ['dens']})]
        src = make_config_source(cs)
        expected = expected_direct(ck.runner, gaps, cs)
        for fe in ('numpy', 'netcdf', 'pandas', 'xarray'):
            compare_run(ck, fe, f'gaps-in-the-axes{"" if window == (None, None) else "/window"}', gaps, cs, run_frontend(ck.runner, fe, gaps, src), expected)
    # a column that is an axis *and* a tested stream (range-check the depths themselves, next to tests that use them as zinp)
    shared = Table(5, missing={'a': {2}})
    shared.axis_streams = True
    for window in ((None, None), (t(1), t(4))):
        cs = [dict(window=window, tests={'z': ['gross', 'press'], 'a': ['gross', 'dens', 'clim'], 'lat': ['valid']})]
        src = make_config_source(cs)
        expected = expected_direct(ck.runner, shared, cs)
        for fe in ('netcdf', 'pandas', 'xarray'):
            compare_run(ck, fe, f'axis-column-also-a-stream{"" if window == (None, None) else "/window"}', shared, cs, run_frontend(ck.runner, fe, shared, src), expected)
    # no time axis at all: windows cannot be applied (the streams warn and skip the subset), time-dependent tests drop out
    notime = Table(5, missing={'a': {2}}, with_axes=())
    for cs in ([dict(window=(None, None), tests={'a': ['gross', 'spike', 'roc'], 'b': ['valid']})],):
        src = make_config_source(cs)
        expected = expected_direct(ck.runner, notime, cs)
        for fe in ('numpy', 'netcdf', 'pandas', 'xarray'):
            compare_run(ck, fe, 'no-time-axis', notime, cs, run_frontend(ck.runner, fe, notime, src), expected)
    labelled = Table(5, missing={'a': {2}}, index_labels=[10, 11, 12, 13, 14])
    for setname, contexts in context_sets(False)[:2]:
        src = make_config_source(contexts)
        expected = expected_direct(ck.runner, labelled, contexts)
        compare_run(ck, 'pandas', setname + '/labelled-index', labelled, contexts, run_frontend(ck.runner, 'pandas', labelled, src), expected)
    # rows that are not in chronological order (windows are predicates on the time of each row, not slices)
    shuffled = Table(5, missing={'a': {2}}, time_order=[2, 0, 4, 1, 3])
    lite = {'a': ['gross', 'spike'], 'b': ['valid']}
    for setname, contexts in (('closed-window', [dict(window=(t(1), t(4)), tests=lite)]), ('starting-only', [dict(window=(t(2), None), tests=lite)]),
                              ('two-contexts', [dict(window=(t(0), t(2)), tests=lite), dict(window=(t(2), t(5)), tests=lite)])):
        src = make_config_source(contexts)
        expected = expected_direct(ck.runner, shuffled, contexts)
        for fe in ('numpy', 'netcdf', 'pandas', 'xarray'):
            compare_run(ck, fe, setname + '/unsorted-times', shuffled, contexts, run_frontend(ck.runner, fe, shuffled, src), expected)
    # a row without a timestamp (NaT): it belongs to no window, whichever bounds the window has
    nat = Table(5, missing={'a': {2}, 'time': {3}})
    lite2 = {'a': ['gross', 'spike'], 'b': ['valid']}
    for setname, contexts in (('closed-window', [dict(window=(t(1), t(5)), tests=lite2)]), ('starting-only', [dict(window=(t(1), None), tests=lite2)]),
                              ('ending-only', [dict(window=(None, t(4)), tests=lite2)])):
        src = make_config_source(contexts)
        expected = expected_direct(ck.runner, nat, contexts)
        for fe in ('numpy', 'netcdf', 'pandas', 'xarray'):
            compare_run(ck, fe, setname + '/row-without-timestamp', nat, contexts, run_frontend(ck.runner, fe, nat, src), expected)
    # instants and window edges that are not on whole seconds; for NumpyStream also with the time axis given as epoch seconds (floats)
    for carrier, fes in (('dt64', ('numpy', 'netcdf', 'pandas')), ('epoch_float', ('numpy',))):
        frac = Table(5, missing={'a': {2}}, time_offset=Fr(3, 4), time_carrier=carrier)
        for setname, contexts in (('edges-between-stamps', [dict(window=(t(1, Fr(1, 2)), t(3, Fr(1, 2))), tests=lite2)]),
                                  ('two-contexts', [dict(window=(t(0), t(2, Fr(1, 2))), tests=lite2), dict(window=(t(2, Fr(1, 2)), t(5)), tests=lite2)])):
            src = make_config_source(contexts)
            expected = expected_direct(ck.runner, frac, contexts)
            for fe in fes:
                compare_run(ck, fe, f'{setname}/sub-second/{carrier}', frac, contexts, run_frontend(ck.runner, fe, frac, src), expected)
    # stream ids that become equal once made CF-safe ('t.1' and 't_1'): still two streams, each tested on its own column
    clash = Table(5, streams=('t.1', 't_1'), missing={'t.1': {2}, 't_1': {0}})
    contexts = [dict(window=(None, None), tests={'t.1': ['gross', 'spike'], 't_1': ['gross', 'valid']})]
    src = make_config_source(contexts)
    expected = expected_direct(ck.runner, clash, contexts)
    for fe in ('numpy', 'pandas', 'netcdf', 'xarray'):
        compare_run(ck, fe, 'names-equal-after-cf-renaming', clash, contexts, run_frontend(ck.runner, fe, clash, src), expected)
    # the same context (equal window) listed twice, not adjacently: all of its calls must still run
    table = tables[0]
    contexts = [dict(window=(t(0), t(2)), tests={'a': ['gross']}), dict(window=(t(2), t(5)), tests={'a': ['gross', 'spike']}),
                dict(window=(t(0), t(2)), tests={'b': ['flat', 'valid']})]
    src = make_config_source(contexts)
    expected = expected_direct(ck.runner, table, contexts)
    for fe in ('numpy', 'netcdf', 'pandas', 'xarray'):
        compare_run(ck, fe, 'same-window-non-adjacent', table, contexts, run_frontend(ck.runner, fe, table, src), expected)
    # a frame with repeated row labels (two frames concatenated without ignore_index)
    dup = Table(5, missing={'a': {2}}, index_labels=[0, 1, 2, 0, 1])
    for setname, contexts in context_sets(False)[1:3]:
        src = make_config_source(contexts)
        expected = expected_direct(ck.runner, dup, contexts)
        compare_run(ck, 'pandas', setname + '/duplicate-labels', dup, contexts, run_frontend(ck.runner, 'pandas', dup, src), expected)
    ck.floor('C05.rows', 100)
    ck.floor('C05.flags', 100)


def compare_qcconfig(ck, qrun, table, contexts, expected, keys):
    label0 = f'QcConfig.run[{keys}]'
    if qrun.error is not None:
        ck.violate('C05.run', f'qcconfig:raises-{qrun.error.exc.tname}', f'{label0}: raises {qrun.error.exc.tname}{qrun.error.exc.args}')
        return
    res = getattr(qrun, 'dict_result', None)
    for (ci, sid, mod, test), (rows, direct) in expected.items():
        label = f'{label0} {mod}.{test}'
        try:
            got = res[mod][test]
        except (KeyError, TypeError):
            got = None
        if direct is None or direct.kind == 'raise':
            ck.ob('C05.rows', label, got is None, key=f'qcconfig:{test}:result-for-unrunnable-test', what=f'{label}: unexpected result')
            continue
        if got is None:
            ck.violate('C05.rows', f'qcconfig:{test}:missing', f'{label}: no result in the returned dict')
            continue
        ck.hold('C05.rows', label)
        equal_flags(ck, 'C05.flags', f'qcconfig:{test}', f'direct {test}', direct, label, StreamOutcome(got), 'QcConfig.run vs direct call')
