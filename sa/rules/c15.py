"""C15 — flags do not depend on how the same series and times are represented."""
from fractions import Fraction as Fr

from .. import expr as X
from ..qc import Case, fn_key, run_case
from ..scen import data_input, time_input
from ..vec import El, Sc, Vec
from .c17 import equal_flags, t10

DATA_CARRIERS = ['list_none', 'list_nan', 'tuple_nan', 'ndarray', 'series', 'masked_nan', 'masked']
TIME_CARRIERS = ['dt64', 'dt64_s', 'epoch_list', 'epoch_array', 'series', 'series_tz', 'dtindex', 'dtindex_tz', 'pydatetime', 'dtindex_s', 'dtindex_ms', 'series_s', 'series_us', 'epoch_series', 'epoch_index', 'timestamp_list', 'epoch_series_u', 'epoch_index_u', 'epoch_array_u']


DIAGONAL = [('series', 'series'), ('series', 'dtindex'), ('series', 'series_tz'), ('ndarray', 'dtindex'), ('ndarray', 'epoch_array'),
            ('tuple_nan', 'epoch_list'), ('list_nan', 'pydatetime'), ('series', 'epoch_series')]


def mixed_tests():
    """tests with two data axes: the two axes in *different* containers"""
    z = lambda n: [Fr(i) for i in range(n)]
    yield 'location_test', lambda d1, d2, p: ([data_input('lon', p, d1), data_input('lat', p[::-1], d2)], dict(bbox=[Fr(-10), Fr(-20), Fr(10), Fr(20)], range_max=Fr(5)))
    yield 'density_inversion_test', lambda d1, d2, p: ([data_input('inp', p, d1), data_input('zinp', p[::-1], d2, values=z(len(p)))], dict(suspect_threshold=Fr(-1), fail_threshold=Fr(-2)))
    yield 'speed_test', lambda d1, d2, p: ([data_input('lon', p, d1), data_input('lat', p, d2), time_input('tinp', t10(len(p)), 'dt64')], dict(suspect_threshold=Fr(1), fail_threshold=Fr(2)))


def tests():
    """name -> builder(data_carrier, time_carrier, pattern) -> (args, kwargs); uses_time"""
    z = lambda n: [Fr(i) for i in range(n)]
    yield 'gross_range_test', False, lambda dc, tc, p: ([data_input('inp', p, dc)], dict(fail_span=(Fr(0), Fr(6)), suspect_span=[Fr(2), Fr(4)]))
    yield 'gross_range_test', False, lambda dc, tc, p: ([data_input('inp', p, dc)], dict(fail_span=[Fr(6), Fr(0)], suspect_span=(Fr(4), Fr(2))))
    yield 'location_test', False, lambda dc, tc, p: ([data_input('lon', p, dc), data_input('lat', p[::-1], dc)], dict(bbox=[Fr(-10), Fr(-20), Fr(10), Fr(20)], range_max=Fr(5)))
    yield 'spike_test', False, lambda dc, tc, p: ([data_input('inp', p, dc)], dict(suspect_threshold=Fr(1), fail_threshold=Fr(2)))
    yield 'spike_test', False, lambda dc, tc, p: ([data_input('inp', p, dc)], dict(suspect_threshold=Fr(1), fail_threshold=Fr(2), method='differential'))
    yield 'rate_of_change_test', True, lambda dc, tc, p: ([data_input('inp', p, dc), time_input('tinp', t10(len(p)), tc)], dict(threshold=Fr(1)))
    yield 'flat_line_test', True, lambda dc, tc, p: ([data_input('inp', p, dc), time_input('tinp', t10(len(p)), tc)], dict(suspect_threshold=10, fail_threshold=20, tolerance=Fr(1)))
    yield 'attenuated_signal_test', True, lambda dc, tc, p: ([data_input('inp', p, dc), time_input('tinp', t10(len(p)), tc)], dict(suspect_threshold=Fr(2), fail_threshold=Fr(1)))
    yield 'attenuated_signal_test', True, lambda dc, tc, p: ([data_input('inp', p, dc), time_input('tinp', t10(len(p)), tc)],
                                                              dict(suspect_threshold=Fr(2), fail_threshold=Fr(1), test_period=20, check_type='range', min_period=10))
    yield 'density_inversion_test', False, lambda dc, tc, p: ([data_input('inp', p, dc), data_input('zinp', p[::-1], dc, values=z(len(p)))], dict(suspect_threshold=Fr(-1), fail_threshold=Fr(-2)))
    yield 'speed_test', True, lambda dc, tc, p: ([data_input('lon', p, dc), data_input('lat', p, dc), time_input('tinp', t10(len(p)), tc)], dict(suspect_threshold=Fr(1), fail_threshold=Fr(2)))
    from ..models_pd import TS

    def clim(dc, tc, p):
        cfg = [dict(tspan=[TS(100), TS(120)], vspan=(Fr(2), Fr(4)), fspan=[Fr(1), Fr(5)], zspan=(Fr(0), Fr(2)))]
        return [], dict(config=cfg, inp=data_input('inp', p, dc), tinp=time_input('tinp', t10(len(p)), tc), zinp=data_input('zinp', p[::-1], dc, values=z(len(p))))
    yield 'climatology_test', True, clim
    yield 'valid_range_test', False, lambda dc, tc, p: ([data_input('inp', p, dc)], dict(valid_span=(Fr(1), Fr(5))))
    yield 'valid_range_test', False, lambda dc, tc, p: ([data_input('inp', p, dc)], dict(valid_span=[Fr(1), None], dtype=_float_dtype()))


def _float_dtype():
    from ..interp import ExtRef
    return ExtRef('numpy.float64')


def run(ck):
    ck.explanation = (
        'Decided by abstract interpretation of each test under every supported carrier of the same logical series: data as list with None, '
        'list / tuple with NaN, float ndarray, pandas Series, numpy masked array; times as datetime64[ns], datetime64[s], epoch-second list / '
        'array, pandas Series (naive / UTC), DatetimeIndex (naive / UTC), Python datetimes; spans as list or tuple. The flag expressions must be '
        'equivalent to those of the reference carrier (list with None, datetime64[ns]) on every order cell. The carrier objects are modelled '
        '(attribute sets, dtype ladders, mask handling: DESIGN §3); that numpy / pandas / dask really convert them as modelled is trusted, not decided. '
        'dask arrays are not modelled.')
    pats = ['pmpp', 'ppmp'] if ck.tier != 'thorough' else ['pmpp', 'ppmp', 'mppp', 'pppm', 'pppp', 'pm', 'p']
    for test, uses_time, build in tests():
        for p in pats:
            def run_one(dc, tc):
                args, kw = build(dc, tc, p)
                c = Case(test, args, kw, n=len(p), pat={}, meta={'class': f'{dc}/{tc}'},
                         label=f'{test}({p!r}; {sorted(k for k in kw if k not in ("inp", "tinp", "zinp", "config"))}; data={dc}, time={tc})')
                return c, run_case(ck, c, allow_refused=True)
            base_dc = 'ndarray' if False else 'list_none'
            cb, ob = run_one(base_dc, 'dt64')
            if ob.kind == 'raise':
                # reference itself fails (e.g. valid_range_test on a list): compare against the ndarray carrier instead
                cb, ob = run_one('ndarray', 'dt64')
            for dc in DATA_CARRIERS:
                if dc == base_dc:
                    continue
                cx, ox = run_one(dc, 'dt64')
                compare(ck, 'C15.data', test, dc, cb, ob, cx, ox)
            # an infinite entry ('i'): every float carrier can hold it; it must be treated alike whatever the container
            if p == pats[0]:
                pinf = p.replace('m', 'i', 1)
                p_keep, p = p, pinf
                try:
                    ci0, oi0 = run_one('ndarray', 'dt64')
                    for dc in ('list_none', 'tuple_nan', 'series', 'masked_nan'):
                        cx, ox = run_one(dc, 'dt64')
                        compare(ck, 'C15.data', test, dc + '+inf', ci0, oi0, cx, ox)
                finally:
                    p = p_keep
            # parameter spans: lists and tuples are interchangeable, in either order of the two bounds where the test accepts both orders
            if p == pats[0]:
                args0, kw0 = build('ndarray', 'dt64', p)
                for rev in (False, True):
                    if rev and test not in ('gross_range_test', 'climatology_test'):
                        continue
                    outs = []
                    for to in (list, tuple):
                        args, kw = build('ndarray', 'dt64', p)
                        kw2 = {k: respell(v, to, rev) for k, v in kw.items()}
                        if kw2 == kw and not rev and outs:
                            continue
                        c = Case(test, args, kw2, n=len(p), pat={}, meta={'class': f'spans-{to.__name__}'},
                                 label=f'{test}({p!r}; spans as {to.__name__}{" (descending)" if rev else ""}: { {k: show_kw(v) for k, v in kw2.items() if k not in ("inp", "tinp", "zinp")} })')
                        outs.append((c, run_case(ck, c, allow_refused=True)))
                    if len(outs) == 2:
                        compare(ck, 'C15.spans', test, 'span-tuple' + ('-descending' if rev else ''), outs[0][0], outs[0][1], outs[1][0], outs[1][1])
            # integer-typed arrays (no missing values possible): the data must be converted to float before any arithmetic
            pi = 'p' * len(p)
            ci, oi = run_one('ndarray_int', 'dt64') if False else (None, None)
            args, kw = build('ndarray_int', 'dt64', pi)
            ci = Case(test, args, kw, n=len(pi), pat={}, meta={'class': 'ndarray_int'}, label=f'{test}({pi!r}; data=ndarray_int)')
            oi = run_case(ck, ci, allow_refused=True)
            if oi.kind == 'refused':
                from ..qc import concrete_envs, concretised
                oi = run_case(ck, concretised(ci, next(concrete_envs([ci], ck.rng, 1))))
            ints = [e for e in oi.events if e['kind'] == 'int-arith']
            from ..repo import unparse
            ck.ob('C15.data', ci.label, not ints, key=f'{fn_key(ci)}:integer-array:arithmetic-in-integer-dtype',
                  what=f'{ci.label}: arithmetic on the data is carried out in the integer dtype of the input ('
                       f'{unparse(ints[0]["node"], 70) if ints and ints[0].get("node") is not None else ""}): results depend on the width / signedness of the carrier '
                       '(wrap-around) instead of on the values')
            # float32 arrays ("a NumPy array of any real dtype"): the data must be widened to float64 before it is added, differenced or
            # compared - otherwise the flags depend on the rounding of the narrow type (a bound such as 35.7 is not a float32 number)
            args, kw = build('ndarray_f4', 'dt64', p)
            cf = Case(test, args, kw, n=len(p), pat={}, meta={'class': 'ndarray_f4'}, label=f'{test}({p!r}; data=float32 ndarray)')
            of = run_case(ck, cf, allow_refused=True)
            if of.kind == 'refused':
                from ..qc import concrete_envs, concretised
                of = run_case(ck, concretised(cf, next(concrete_envs([cf], ck.rng, 1))))
            nar = [e for e in of.events if e['kind'] == 'narrow-float-arith']
            ck.ob('C15.data', cf.label, not nar, key=f'{fn_key(cf)}:float32-array:arithmetic-in-narrow-float',
                  what=f'{cf.label}: the data is used in its float32 width ('
                       f'{unparse(nar[0]["node"], 70) if nar and nar[0].get("node") is not None else ""}): sums, differences and comparisons round differently '
                       'from the float64 path every other carrier takes')
            if uses_time:
                for tc in TIME_CARRIERS[1:]:
                    try:
                        cx, ox = run_one('list_none', tc)
                    except ValueError:
                        continue          # a carrier that cannot hold these instants
                    compare(ck, 'C15.time', test, tc, cb, ob, cx, ox)
                # both axes in containers of the same family at once (a DataFrame's columns, an array with an index): what one
                # conversion leaves behind (an index, a read-only view, a dtype) meets the other
                if p == pats[0]:
                    for dc, tc in DIAGONAL:
                        cx, ox = run_one(dc, tc)
                        compare(ck, 'C15.time', test, f'{dc}+{tc}', cb, ob, cx, ox)
    # time-valued valid_range_test: the instants in every container, the bounds in other units / spellings than the data, an open side
    from ..models_pd import TS
    tt = [100, 110, 120, 130]
    spans = {
        'bounds datetime64[s] / [ns]': (Sc(X.num(105), 'M8', 's'), Sc(X.num(125), 'M8', 'ns')),
        'bounds datetime64[m] / Timestamp': (Sc(X.num(60), 'M8', 'm'), TS(125)),
        'upper side open (None)': (Sc(X.num(105), 'M8', 's'), None),
        'lower side open (NaT)': (Sc(X.NAN, 'M8', 'ns'), Sc(X.num(120), 'M8', 's')),
    }
    for sname, span in spans.items():
        def run_v(tc):
            c = Case('valid_range_test', [time_input('inp', tt, tc)], dict(valid_span=span), n=len(tt), pat={}, meta={'class': f'time-valued/{tc}'},
                     label=f'valid_range_test(instants {tt} s; {sname}; inp as {tc})')
            return c, run_case(ck, c, allow_refused=True)
        cb, ob = run_v('dt64')
        for tc in ('dt64_s', 'series', 'series_tz', 'dtindex', 'dt64_scalar_list', 'dt64_scalar_tuple', 'timestamp_list', 'pydatetime', 'series_s'):
            try:
                cx, ox = run_v(tc)
            except ValueError:
                continue
            compare(ck, 'C15.time', 'valid_range_test', f'{tc}:time-valued:{sname}', cb, ob, cx, ox)
    for test, build in mixed_tests():
        p = pats[0]

        def run_m(d1, d2):
            args, kw = build(d1, d2, p)
            c = Case(test, args, kw, n=len(p), pat={}, meta={'class': f'{d1}+{d2}'}, label=f'{test}({p!r}; first axis={d1}, second axis={d2})')
            return c, run_case(ck, c, allow_refused=True)
        cb, ob = run_m('list_none', 'list_none')
        for d1, d2 in (('list_nan', 'ndarray'), ('ndarray', 'series'), ('series', 'list_none'), ('tuple_nan', 'series'), ('ndarray', 'list_nan')):
            cx, ox = run_m(d1, d2)
            compare(ck, 'C15.data', test, f'{d1}+{d2}', cb, ob, cx, ox)
    # irregular sampling on whole minutes, so that coarse datetime64 units can carry the same instants
    tmin = [0, 60, 180, 240, 360, 420]
    coarse = {
        'flat_line_test': dict(suspect_threshold=120, fail_threshold=240, tolerance=Fr(1)),
        'attenuated_signal_test': dict(suspect_threshold=Fr(2), fail_threshold=Fr(1), test_period=180, check_type='range', min_period=90),
        'rate_of_change_test': dict(threshold=Fr(1, 60)),
    }
    for test, kw in coarse.items():
        for n in (5, 6) if ck.tier == 'thorough' else (5,):
            def run_t(tc):
                c = Case(test, [data_input('inp', 'p' * n, 'ndarray'), time_input('tinp', tmin[:n], tc)], dict(kw), n=n, pat={}, meta={'class': f'minutes/{tc}'},
                         label=f'{test}({"p" * n!r}; times {tmin[:n]} s; time={tc})')
                return c, run_case(ck, c, allow_refused=True)
            cb, ob = run_t('dt64')
            for tc in ['dt64_m'] + TIME_CARRIERS[1:]:
                try:
                    cx, ox = run_t(tc)
                except ValueError:
                    continue
                compare(ck, 'C15.time', test, tc + ':irregular-minutes', cb, ob, cx, ox)
    # sampling that is not on whole seconds: epoch numbers with a fractional part are the same instants as their datetime spellings
    tsub = [Fr(100), Fr(203, 2), Fr(103), Fr(209, 2), Fr(106), Fr(215, 2)]
    fine = {
        'rate_of_change_test': dict(threshold=Fr(1)),
        'attenuated_signal_test': dict(suspect_threshold=Fr(2), fail_threshold=Fr(1), test_period=3, check_type='range', min_period=3),
        'flat_line_test': dict(suspect_threshold=3, fail_threshold=6, tolerance=Fr(1)),
    }
    for test, kw in fine.items():
        n = 5

        def run_f(tc):
            c = Case(test, [data_input('inp', 'p' * n, 'ndarray'), time_input('tinp', tsub[:n], tc)], dict(kw), n=n, pat={}, meta={'class': f'subsecond/{tc}'},
                     label=f'{test}({"p" * n!r}; times {[str(x) for x in tsub[:n]]} s; time={tc})')
            return c, run_case(ck, c, allow_refused=True)
        cb, ob = run_f('dt64')
        for tc in ('epoch_list', 'epoch_array', 'epoch_series', 'series', 'dtindex', 'dtindex_tz', 'pydatetime'):
            cx, ox = run_f(tc)
            compare(ck, 'C15.time', test, tc + ':sub-second', cb, ob, cx, ox)
    # pressure_increasing_test: present values only (the test documents no missing handling) + None vs NaN
    from ..cases import El as _El
    for vals in ([0, 1, 2], [2, 1, 0], [0, 2, 1, 3]):
        outs = {}
        for dc in ('list', 'tuple', 'ndarray', 'series'):
            if dc == 'list':
                inp = [Fr(v) for v in vals]
            elif dc == 'tuple':
                inp = tuple(Fr(v) for v in vals)
            else:
                inp = Vec.fresh([El(X.num(v), False) for v in vals], kind='nd' if dc == 'ndarray' else 'series', dtype='f8', owner='inp')
            c = Case('pressure_increasing_test', [inp], {}, label=f'pressure_increasing_test({vals}; data={dc})', meta={'class': dc})
            outs[dc] = (c, run_case(ck, c))
        cb, ob = outs['ndarray']
        for dc, (cx, ox) in outs.items():
            if dc != 'ndarray':
                compare(ck, 'C15.data', 'pressure_increasing_test', dc, cb, ob, cx, ox)
    c = Case('pressure_increasing_test', [Vec.fresh([El(('x', 'inp', i), False) for i in range(3)], kind='nd', dtype='i8', owner='inp')], {},
             label='pressure_increasing_test(data=ndarray_int)', meta={'class': 'ndarray_int'})
    o = run_case(ck, c)
    ints = [e for e in o.events if e['kind'] == 'int-arith']
    ck.ob('C15.data', c.label, not ints, key='ioos_qc.argo.pressure_increasing_test:integer-array:arithmetic-in-integer-dtype',
          what='pressure_increasing_test: np.diff runs in the integer dtype of the input (an unsigned array wraps around: uint8 [5, 3] looks increasing)')
    outs = []
    for miss in (None, float('nan')):
        c = Case('pressure_increasing_test', [[Fr(1), miss, Fr(3)]], {}, label=f'pressure_increasing_test([1, {miss}, 3])', meta={'class': 'missing'})
        outs.append((c, run_case(ck, c)))
    compare(ck, 'C15.data', 'pressure_increasing_test', 'list_none', outs[1][0], outs[1][1], outs[0][0], outs[0][1])
    ck.floor('C15.data', 60)
    ck.floor('C15.time', 40)
    ck.floor('C15.spans', 7)


def is_span(v):
    return isinstance(v, (list, tuple)) and len(v) in (2, 4) and all(x is None or isinstance(x, (int, Fr)) or type(x).__name__ == 'TS' for x in v)


def respell(v, to, rev):
    if is_span(v):
        v = list(v)
        if rev and len(v) == 2 and None not in v and not any(type(x).__name__ == 'TS' for x in v):
            v = v[::-1]
        return to(v)
    if isinstance(v, list) and all(isinstance(x, dict) for x in v):
        return [{k: respell(x, to, rev) for k, x in d.items()} for d in v]
    return v


def show_kw(v):
    if isinstance(v, (list, tuple)):
        return type(v)(show_kw(x) for x in v)
    if isinstance(v, dict):
        return {k: show_kw(x) for k, x in v.items()}
    return str(v)


def compare(ck, rule, test, carrier, cb, ob, cx, ox):
    key = f'{fn_key(cb)}:{carrier}'
    # a container that the test writes into gives other flags the next time it is used, while a list / tuple / Series of the same values
    # (which the test had to copy) does not: no store into a caller-owned array
    env = [e for e in ox.events if e['kind'] == 'env-read']
    if env:
        ck.violate(rule, f'{key}:reads-ambient-environment', f'{cx.label}: the result depends on the {env[0]["what"]}: the same times give other flags on another machine')
    # (only stores that change a value: rewriting a cell with what it already holds leaves the array the same series)
    muts = [e for e in ox.events if e['kind'] == 'mutation' and not str(e.get('owner', '')).startswith('module-state') and e.get('changed', True)]
    if muts:
        from ..repo import unparse
        ck.violate(rule, f'{key}:input-array-modified',
                   f'{cx.label}: the test writes into the caller\'s `{muts[0]["owner"]}` ({unparse(muts[0]["node"], 60) if muts[0].get("node") is not None else muts[0]["what"]}): '
                   'the same array used again no longer holds the series, other carriers of the same values are unaffected')
    if ox.kind == 'raise' and ob.kind != 'raise':
        site = ''
        if ox.node is not None:
            from ..repo import unparse
            site = f' at `{unparse(ox.node, 70)}` in {ox.interp.call_stack[-1] if ox.interp.call_stack else "?"}'
        fn = (ox.events and '') or ''
        ck.violate(rule, f'{key}:raises-{ox.exc.tname}', f'{cx.label}: raises {ox.exc.tname}{ox.exc.args}{site} although {cb.label} returns flags')
        return
    if carrier == 'masked':
        # one finding per function: the mask of a masked-array input is dropped by the normaliser
        from ..check import Check
        sub = Check(ck.pid, ck.tier, ck.seed)
        sub._runner = ck._runner
        equal_flags(sub, rule, key, cb.label, ob, cx.label, ox, f'{test}: carrier {carrier}')
        ck.evaluations += sub.evaluations
        ck.distinct.update(sub.distinct)
        dropped = [e for e in ox.events if e['kind'] == 'mask-dropped' and e.get('any_masked')]
        # only differing *flags* are the recorded finding; a result of another length, a masked result or a raise on one side is something else
        other = [v for v in sub.violations if v['key'].rsplit(':', 1)[-1] in ('shape', 'mask', 'raise-differs')]
        for v in other:
            ck.violate(rule, v['key'], v['what'])
        flagdiff = [v for v in sub.violations if v not in other]
        if flagdiff:
            first = flagdiff[0]
            ck.violate(rule, f'{fn_key(cb)}:masked-array:masked-element-evaluated',
                       f'{cx.label}: a masked element is treated as a present value '
                       f'({"np.array(masked_array) drops the mask before masked_invalid" if dropped else "flags differ"}); e.g. {first["what"][:300]}',
                       dict(examples=[v['what'] for v in flagdiff[:3]]))
        else:
            ck.hold(rule, f'{cb.label} ~ {cx.label}')
        return
    equal_flags(ck, rule, key, cb.label, ob, cx.label, ox, f'{test}: carrier {carrier}')
