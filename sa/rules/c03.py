"""C03 — range tests flag by inclusive interval membership, fail before suspect."""
from .. import cases
from ..qc import table_rule
from ..repo import unparse
from .common import run_carrier_sweep, run_tables


def run(ck):
    ck.explanation = (
        'Decided: the order-cell table of gross_range_test and valid_range_test (value below / on / between / on / above '
        'every bound, for every weak ordering and either order of the span ends, suspect given or absent, all four '
        'inclusivity settings, each bound present or absent or equal to zero / the epoch, numbers and datetimes, missing values) '
        'equals the table written from the property; rejection of suspect-outside-fail and malformed spans. Derived by abstract '
        'interpretation of the function source; no repository code is executed. Not decided: numpy datetime comparison '
        'semantics, float rounding.')
    run_tables(ck, 'C03.gross', cases.gross_range, scope='all')
    run_tables(ck, 'C03.valid', cases.valid_range, scope='all')
    for case, spec in cases.valid_range_typed(ck.tier):
        out = table_rule(ck, 'C03.valid', case, spec, scope='all')
        if case.meta.get('class') == 'integer-data-integer-bounds' and out is not None:
            # structural necessary condition of "FAIL exactly the values outside the span" for integers beyond 2**53 (epoch nanoseconds,
            # 64-bit counters): integer data and whole-number bounds meet as integers, never through float64 (whose spacing there is > 1)
            evs = [e for e in getattr(out, 'events', []) if e['kind'] in ('int-to-float', 'int-float-compare')]
            ck.ob('C03.valid.table', f'{case.label} exact', not evs, key='valid_range_test:integer-data-integer-bounds:compared-through-float64',
                  what=f'{case.label}: the integer data is compared through float64 ('
                       f'{unparse(evs[0]["node"], 70) if evs and evs[0].get("node") is not None else ""}); integers above 2**53 '
                       'within the float spacing of a bound are flagged wrongly')
    run_carrier_sweep(ck, 'C03.gross', cases.gross_range, time=False, n_max=2)
    ck.floor('C03.gross.table', 50)
    ck.floor('C03.valid.table', 50)
