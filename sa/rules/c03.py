"""C03 — range tests flag by inclusive interval membership, fail before suspect."""
from .. import cases
from .common import run_carrier_sweep, run_tables


def run(ck):
    ck.explanation = (
        'Decided: the order-cell table of gross_range_test and valid_range_test (value below / on / between / on / above '
        'every bound, for every weak ordering and either order of the span ends, suspect given or absent, all four '
        'inclusivity settings, each bound present or absent or equal to zero / the epoch, numbers and datetimes, missing values) '
        'equals the table written from the property; rejection of suspect-outside-fail and malformed spans. Derived by abstract '
        'interpretation of the function source; no repository code is executed. Not decided: numpy datetime comparison '
        'semantics, float rounding.')
    run_tables(ck, 'C03.gross', cases.gross_range, scope='all')
    run_tables(ck, 'C03.valid', cases.valid_range, scope='all')
    run_tables(ck, 'C03.valid', cases.valid_range_typed, scope='all')
    run_carrier_sweep(ck, 'C03.gross', cases.gross_range, time=False, n_max=2)
    ck.floor('C03.gross.table', 50)
    ck.floor('C03.valid.table', 50)
