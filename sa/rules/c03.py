"""C03 — range tests flag by inclusive interval membership, fail before suspect."""
import itertools
from fractions import Fraction as Fr

from .. import qc
from ..qc import Case, table_rule
from ..scen import data_input, time_input
from ..specs import GrossRange, ValidRange


def gross_range_cases(ck):
    vals = [0, 1, 2, 3]
    thorough = ck.tier == 'thorough'
    for a, b in itertools.product(vals, repeat=2):
        spans = [None] + list(itertools.product(vals, repeat=2))
        for ss in spans:
            for pat in (['p', 'm', 'pm'] if thorough or (a, b) in ((0, 3), (3, 0), (1, 1)) else ['p']):
                kw = dict(fail_span=(Fr(a), Fr(b)))
                if ss is not None:
                    kw['suspect_span'] = [Fr(ss[0]), Fr(ss[1])]
                yield Case('gross_range_test', [data_input('inp', pat)], kw, n=len(pat), pat={'inp': pat},
                           meta={'class': 'suspect' if ss else 'fail-only'})
    # malformed spans
    for bad in ((0, 1, 2), (0,), 5):
        yield Case('gross_range_test', [data_input('inp', 'p')], dict(fail_span=bad), n=1, pat={'inp': 'p'}, meta={'class': 'malformed-fail-span'})
        yield Case('gross_range_test', [data_input('inp', 'p')], dict(fail_span=(0, 3), suspect_span=bad), n=1, pat={'inp': 'p'}, meta={'class': 'malformed-suspect-span'})


def valid_range_cases(ck):
    thorough = ck.tier == 'thorough'
    bounds = [(1, 3), (3, 1) if False else (2, 2), (None, 3), (1, None), (None, None)]
    for (lo, hi), si, ei, kind in itertools.product(bounds, (None, True, False), (None, True, False), ('num', 'time')):
        for pat in (['p', 'pm', 'mp'] if thorough else ['pm']):
            kw = dict(valid_span=(None if lo is None else Fr(lo), None if hi is None else Fr(hi)))
            if si is not None:
                kw['start_inclusive'] = si
            if ei is not None:
                kw['end_inclusive'] = ei
            if kind == 'num':
                inp = data_input('inp', pat, carrier='ndarray')
            else:
                # datetimes: values are symbolic positions on the time line; spans are datetime64 scalars
                from ..vec import El, Sc, Vec
                from .. import expr as X
                cells = [El(('x', 'inp', i), False) if c == 'p' else El(X.NAN, False) for i, c in enumerate(pat)]
                inp = Vec.fresh(cells, kind='nd', dtype='M8', unit='ns', owner='inp')
                kw['valid_span'] = tuple(None if v is None else Sc(X.num(v), 'M8', 'ns') for v in kw['valid_span'])
            c = Case('valid_range_test', [inp], kw, n=len(pat), pat={'inp': pat}, meta={'class': kind})
            c.spec_kwargs = dict(kw, valid_span=(lo, hi))
            yield c


def run(ck):
    ck.explanation = (
        'Decided: the order-cell table of gross_range_test and valid_range_test (value below / on / between / on / above '
        'every bound, for every weak ordering and either order of the span ends, suspect given or absent, all four '
        'inclusivity settings, each bound present or absent, numbers and datetimes, missing values) equals the table '
        'written from the property; rejection of suspect-outside-fail and malformed spans. Derived by abstract '
        'interpretation of the function source; no repository code is executed. Not decided: numpy datetime comparison '
        'semantics, float rounding.')
    for case in gross_range_cases(ck):
        table_rule(ck, 'C03.gross', case, GrossRange(case), scope='all')
    for case in valid_range_cases(ck):
        sc = Case(case.test, case.args, case.spec_kwargs, n=case.n, pat=case.pat)
        table_rule(ck, 'C03.valid', case, ValidRange(sc), scope='all')
    ck.floor('C03.gross.table', 50)
    ck.floor('C03.valid.table', 50)
