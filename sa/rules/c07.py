"""C07 — every equivalent spelling of a configuration yields the same set of calls (and C18's config part)."""
import collections
from fractions import Fraction as Fr

from ..interp import FuncVal, Instance
from ..models_io import ConfText, DatasetStub, DataVar, plain
from ..models_py import PathVal, StringIOVal

DEFAULT_KEY = '_stream'
KNOWN = {'qartod': ['aggregate', 'gross_range_test', 'spike_test', 'climatology_test', 'location_test', 'flat_line_test', 'rate_of_change_test',
                    'attenuated_signal_test', 'density_inversion_test'],
         'argo': ['pressure_increasing_test', 'speed_test'], 'axds': ['valid_range_test']}


def logical_configs():
    """name -> list of contexts; a context = dict(window=None|dict, region=None|geojson, streams={sid: {module: {test: params}}})"""
    gr = {'fail_span': [0, 10], 'suspect_span': [1, 9]}
    sp = {'suspect_threshold': 1, 'fail_threshold': 2, 'method': 'differential'}
    clim = {'config': [{'tspan': [1, 3], 'vspan': [2, 4], 'period': 'month', 'zspan': [0, 10]}, {'tspan': [4, 6], 'vspan': [1, 5], 'period': 'month'}]}
    region = {'type': 'Feature', 'geometry': {'type': 'Point', 'coordinates': [1, 2]}}
    out = collections.OrderedDict()
    out['one-stream'] = [dict(window=None, region=None, streams={'temp': {'qartod': {'gross_range_test': gr, 'spike_test': sp}}})]
    out['one-stream-two-modules'] = [dict(window=None, region=None, streams={'temp': {'qartod': {'gross_range_test': gr}, 'axds': {'valid_range_test': {'valid_span': [0, 5]}}}})]
    out['nested-params'] = [dict(window=None, region=None, streams={'temp': {'qartod': {'climatology_test': clim, 'gross_range_test': gr}}})]
    out['two-streams'] = [dict(window=None, region=None, streams={'temp': {'qartod': {'gross_range_test': gr}},
                                                                   'sal': {'qartod': {'spike_test': sp, 'gross_range_test': {'fail_span': [0, 40]}}}})]
    # names that exist in the package without being tests of it: an imported module (np), the logger (L), a class (QartodFlags),
    # a helper imported from elsewhere (mapdates), a namedtuple (span)
    out['non-test-names'] = [dict(window=None, region=None, streams={'temp': {'qartod': {'np': {'a': 1}, 'gross_range_test': gr, 'QartodFlags': {}, 'mapdates': {'dates': [1]},
                                                                                       'L': {}, 'span': {}, 'spike_test': sp}}})]
    out['unknown-entries'] = [dict(window=None, region=None, streams={'temp': {'nomod': {'whatever_test': {'a': 1}},
                                                                                'qartod': {'bogus_test': {'x': 1}, 'gross_range_test': gr, 'also_bogus': {'y': 2}},
                                                                                'argo': {'speed_test': {'suspect_threshold': 1, 'fail_threshold': 3}}},
                                                                       'sal': {'zzz': {'t': {'q': 1}}, 'qartod': {'spike_test': sp}}})]
    # one stream, so that the bare module-mapping spelling exists too: unknown packages next to known ones (first, between, last)
    out['unknown-module-one-stream'] = [dict(window=None, region=None, streams={'temp': collections.OrderedDict([
        ('not_a_module', {'whatever_test': {'a': 1}}), ('qartod', {'gross_range_test': gr, 'bogus_test': {'x': 1}}),
        ('vendor', {'t': {'q': 1}}), ('argo', {'speed_test': {'suspect_threshold': 1, 'fail_threshold': 3}}), ('zzz', {'t': {'q': 2}})])})]
    out['parameterless'] = [dict(window=None, region=None, streams={'pres': {'argo': {'pressure_increasing_test': None}}})]
    out['parameterless-mixed'] = [dict(window=None, region=None, streams={'pres': {'argo': {'pressure_increasing_test': None}, 'qartod': {'gross_range_test': gr}}})]
    out['empty-params'] = [dict(window=None, region=None, streams={'pres': {'argo': {'pressure_increasing_test': {}}}})]
    out['empty-params-two-streams'] = [dict(window=None, region=None, streams={'pres': {'argo': {'pressure_increasing_test': {}}}, 'temp': {'qartod': {'aggregate': {}}}})]
    out['same-window-twice'] = [dict(window={'starting': 100, 'ending': 200}, region=None, streams={'temp': {'qartod': {'gross_range_test': gr}}}),
                                dict(window={'starting': 100, 'ending': 200}, region=None, streams={'sal': {'qartod': {'spike_test': sp}}, 'temp': {'qartod': {'spike_test': sp}}})]
    out['no-window-twice'] = [dict(window=None, region=region, streams={'temp': {'qartod': {'gross_range_test': gr}}}),
                              dict(window=None, region=region, streams={'sal': {'qartod': {'spike_test': sp}}})]
    square = {'type': 'Feature', 'geometry': {'type': 'Polygon', 'coordinates': [[[0, 0], [2, 0], [2, 2], [0, 2], [0, 0]]]}}
    triangle = {'type': 'Feature', 'geometry': {'type': 'Polygon', 'coordinates': [[[0, 0], [2, 0], [2, 2], [0, 0]]]}}
    out['regions-sharing-a-bounding-box'] = [dict(window={'starting': 100, 'ending': 200}, region=square, streams={'temp': {'qartod': {'gross_range_test': gr}}}),
                                             dict(window={'starting': 100, 'ending': 200}, region=triangle, streams={'temp': {'qartod': {'spike_test': sp}}})]
    out['half-open-windows-meeting'] = [dict(window={'ending': 200}, region=None, streams={'temp': {'qartod': {'gross_range_test': gr}}}),
                                        dict(window={'starting': 200}, region=None, streams={'temp': {'qartod': {'spike_test': sp}}})]
    out['windowed'] = [dict(window={'starting': 100, 'ending': 200}, region=None, streams={'temp': {'qartod': {'gross_range_test': gr}}})]
    out['ending-only-window'] = [dict(window={'ending': 200}, region=None, streams={'temp': {'qartod': {'gross_range_test': gr}}})]
    out['window-ending-first'] = [dict(window=collections.OrderedDict([('ending', 200), ('starting', 100)]), region=None, streams={'temp': {'qartod': {'gross_range_test': gr}}}),
                                  dict(window={'starting': 200}, region=None, streams={'temp': {'qartod': {'spike_test': sp}}})]
    out['half-window-region'] = [dict(window={'starting': 100}, region=region, streams={'temp': {'qartod': {'gross_range_test': gr}}, 'sal': {'qartod': {'spike_test': sp}}})]
    out['two-contexts'] = [dict(window={'starting': 100, 'ending': 200}, region=None, streams={'temp': {'qartod': {'gross_range_test': gr}}}),
                           dict(window={'starting': 200, 'ending': 300}, region=region, streams={'temp': {'qartod': {'gross_range_test': {'fail_span': [0, 20]}, 'spike_test': sp}},
                                                                                                 'sal': {'nomod': {'t': {'a': 1}}, 'qartod': {'spike_test': sp}}})]
    return out


def ctx_dict(ctx):
    d = collections.OrderedDict()
    if ctx['window'] is not None:
        d['window'] = dict(ctx['window'])
    if ctx['region'] is not None:
        d['region'] = plain(ctx['region'])
    d['streams'] = plain(ctx['streams'])
    return d


def layouts(contexts):
    """-> list of (layout name, python mapping)"""
    out = [('contexts', {'contexts': [ctx_dict(c) for c in contexts]})]
    if len(contexts) == 1:
        c = contexts[0]
        out.append(('streams', ctx_dict(c)))
        if c['window'] is None and c['region'] is None:
            out.append(('stream-mapping', plain(c['streams'])))
            if len(c['streams']) == 1:
                sid, mods = next(iter(c['streams'].items()))
                out.append(('module-mapping', plain(mods)))
    return out


def carriers(mapping, simple_for_attrs=None):
    """-> list of (carrier name, source object)"""
    out = [
        ('dict', plain(mapping)),
        ('OrderedDict', collections.OrderedDict(plain(mapping))),
        ('yaml-text', ConfText('<yaml text>', 'yaml', mapping)),
        ('json-text', ConfText('<json text>', 'json', mapping)),
        ('StringIO-yaml', StringIOVal(ConfText('<yaml text>', 'yaml', mapping))),
        ('StringIO-json', StringIOVal(ConfText('<json text>', 'json', mapping))),
        ('path-str-yaml', ConfText('/some/config.yaml', 'path-yaml', mapping)),
        ('Path-yaml', PathVal(ConfText('/some/config.yaml', 'path-yaml', mapping))),
        ('path-str-json', ConfText('/some/config.json', 'path-json', mapping)),
        ('Path-json', PathVal(ConfText('/some/config.json', 'path-json', mapping))),
        ('xarray-global-attr', DatasetStub({}, {'ioos_qc_config': ConfText('<json attr>', 'json', mapping)})),
        ('xarray-file-global-attr', ConfText('/some/file.nc', 'path-nc', DatasetStub({}, {'ioos_qc_config': ConfText('<json attr>', 'json', mapping)}))),
    ]
    return out


def variable_attr_dataset(streams, order='grouped'):
    """per-variable QC attributes (one test per result variable), the layout load_config_from_xarray rebuilds into a stream mapping.
    order: how the result variables are laid out in the Dataset - grouped by target, interleaved across targets, or reversed"""
    variables = collections.OrderedDict()
    per_sid = []
    for sid, mods in streams.items():
        variables[sid] = DataVar(sid, {})
        per_sid.append([(sid, mod, test, params) for mod, tests in mods.items() for test, params in tests.items()])
    if order == 'grouped':
        entries = [e for lst in per_sid for e in lst]
    elif order == 'reversed':
        entries = [e for lst in per_sid for e in lst][::-1]
    else:
        entries = []
        for k in range(max(len(x) for x in per_sid)):
            for lst in per_sid[::-1]:
                if k < len(lst):
                    entries.append(lst[k])
    for i, (sid, mod, test, params) in enumerate(entries, 1):
        variables[f'qc_{i}'] = DataVar(f'qc_{i}', {
            'ioos_qc_module': mod, 'ioos_qc_test': test, 'ioos_qc_target': sid,
            'ioos_qc_config': ConfText('<json attr>', 'json', params if params is not None else {}),
        })
    return DatasetStub(variables, {})


def expected_calls(contexts, layout):
    calls = []
    for c in contexts:
        win = c['window'] or {}
        window = (win.get('starting'), win.get('ending'))
        region = None
        if c['region'] is not None:
            region = repr([plain(c['region']['geometry'])])
        for sid, mods in c['streams'].items():
            for mod, tests in mods.items():
                if mod not in KNOWN:
                    continue
                for test, params in tests.items():
                    if test not in KNOWN[mod]:
                        continue
                    calls.append((DEFAULT_KEY if layout == 'module-mapping' else sid, mod, test, freeze(params or {}), window, region))
    return sorted(calls, key=repr)


def freeze(v):
    if isinstance(v, dict):
        return tuple(sorted((k, freeze(x)) for k, x in v.items()))
    if isinstance(v, (list, tuple)):
        return tuple(freeze(x) for x in v)
    if isinstance(v, Fr) and v.denominator == 1:
        return int(v)
    return v


def actual_calls(ck, inst):
    calls = []
    for c in inst.attrs['_calls']:
        part = c.attrs['call']
        fn = part.func
        if not isinstance(fn, FuncVal):
            raise ValueError('call target is not a repository function')
        ctx = c.attrs['context']
        w = ctx.attrs['window']
        region = ctx.attrs['region']
        # the function a call names: by its public __module__ / __name__ (a functools.wraps shim around a test still names that test)
        mod_name = fn.attrs.get('__module__', fn.module.name)
        fn_name = fn.attrs.get('__name__', fn.name)
        calls.append((c.attrs['stream_id'], mod_name.replace('ioos_qc.', ''), fn_name, freeze(part.keywords),
                      (w.starting, w.ending), None if region is None else ck.runner.interp.getattr(region, 'wkb', None)))
    return sorted(calls, key=repr)


def run(ck):
    ck.explanation = (
        'Decided by abstract interpretation of Config.__init__ / ContextConfig.__init__ / load_config_as_dict / load_config_from_xarray '
        'on a family of logical configurations (1-2 contexts, 1-2 streams, scalar / list / nested-dict parameters, windows, GeoJSON regions, '
        'unknown modules and tests sprinkled in, a parameterless test) written in every layout (contexts list, single context, stream mapping, '
        'module mapping) and handed over in every carrier (dict, OrderedDict, YAML text, JSON text, StringIO, str / Path to YAML / JSON file, '
        'xarray Dataset global attribute and per-variable attributes, netCDF path): the set of (stream id, module, test, parameters, window, region) '
        'of the resulting Call objects equals the set read off the logical configuration, unknown entries skipped. The carriers are modelled by what '
        'each parser accepts (sa/models_io.py); that ruamel.yaml / json / xarray parse equivalent documents to equal mappings is trusted, not decided.')
    r = ck.runner
    Config = r.interp.module('ioos_qc.config').globals['Config']
    for name, contexts in logical_configs().items():
        for lname, mapping in layouts(contexts):
            want = expected_calls(contexts, lname)
            for cname, src in carriers(mapping):
                label = f'Config({name} as {lname} via {cname})'
                before = repr(src) if cname in ('dict', 'OrderedDict') else None
                out = r.run(Config, [src])
                ck.count(1, distinct=(name, lname, cname))
                check_outcome(ck, label, name, lname, cname, out, want)
                if before is not None:
                    # the caller's mapping is only read: it means the same thing when it is used again
                    check_outcome(ck, label + ' [same object, second use]', name, lname, cname, r.run(Config, [src]), want)
        # per-variable xarray attributes (single, windowless context)
        if len(contexts) == 1 and contexts[0]['window'] is None and contexts[0]['region'] is None:
            want = expected_calls(contexts, 'stream-mapping')
            for order in ('grouped', 'interleaved', 'reversed'):
                ds = variable_attr_dataset(contexts[0]['streams'], order)
                for cname, src in (('xarray-variable-attrs', ds), ('xarray-file-variable-attrs', ConfText('/some/file.nc', 'path-nc', ds))):
                    if order != 'grouped':
                        cname = f'{cname}-{order}'
                    out = r.run(Config, [src])
                    ck.count(1, distinct=(name, 'variable-attrs', cname))
                    check_outcome(ck, f'Config({name} via {cname})', name, 'stream-mapping', cname, out, want)
    # Config built from Call objects / another Config / a list of ContextConfigs: same calls
    base_src = {'contexts': [ctx_dict(c) for c in logical_configs()['two-contexts']]}
    want = expected_calls(logical_configs()['two-contexts'], 'contexts')
    o0 = r.run(Config, [base_src])
    if o0.kind == 'return':
        calls = list(o0.value.attrs['_calls'])
        for nm, src in (('list of Calls', calls), ('tuple of Calls', tuple(calls)), ('another Config', o0.value), ('single Call', calls[0])):
            out = r.run(Config, [src])
            w = want if nm != 'single Call' else None
            if out.kind == 'return' and w is None:
                one = actual_calls(ck, out.value)
                ok = len(one) == 1 and one[0] in actual_calls(ck, o0.value)
                ck.ob('C07.calls', f'Config({nm})', ok, key='Config:from-single-call', what='Config(<Call>) does not hold exactly that call')
            else:
                check_outcome(ck, f'Config({nm})', 'from-calls', nm, nm, out, w)
    # regions: feature-collection GeoJSON, an already built GeometryCollection; window given as a TimeWindow instance
    gr = {'fail_span': [0, 10]}
    geom = {'type': 'Point', 'coordinates': [1, 2]}
    fc = {'type': 'FeatureCollection', 'features': [{'type': 'Feature', 'geometry': geom}, {'type': 'Feature', 'geometry': {'type': 'Point', 'coordinates': [3, 4]}}]}
    tw = r.interp.module('ioos_qc.config').globals['tw']
    from ..models_io import GeometryCollection, Geometry
    variants = [
        ('feature-collection region', {'region': fc, 'streams': {'temp': {'qartod': {'gross_range_test': gr}}}},
         [('temp', 'qartod', 'gross_range_test', freeze(gr), (None, None), repr([geom, {'type': 'Point', 'coordinates': [3, 4]}]))]),
        ('GeometryCollection region', {'region': GeometryCollection([Geometry(geom)]), 'streams': {'temp': {'qartod': {'gross_range_test': gr}}}},
         [('temp', 'qartod', 'gross_range_test', freeze(gr), (None, None), repr([geom]))]),
        ('TimeWindow instance', {'window': tw(starting=100, ending=200), 'streams': {'temp': {'qartod': {'gross_range_test': gr}}}},
         [('temp', 'qartod', 'gross_range_test', freeze(gr), (100, 200), None)]),
    ]
    for nm, src, w in variants:
        check_outcome(ck, f'Config({nm})', 'variant', nm, 'dict', r.run(Config, [src]), sorted(w, key=repr))
    # the default stream key is the constructor's parameter
    out = r.run(Config, [{'qartod': {'gross_range_test': {'fail_span': [0, 10]}}}], dict(default_stream_key='mystream'))
    ok = out.kind == 'return' and [c[0] for c in actual_calls(ck, out.value)] == ['mystream']
    ck.ob('C07.default-key', 'Config(module mapping, default_stream_key="mystream")', ok, key='Config:default_stream_key',
          what='a bare module mapping is not bound to the default_stream_key passed to Config')
    # (what Config does with a source that is no configuration at all is not part of the statement)
    ck.floor('C07.calls', 300)


def check_grouping(ck, label, key_base, inst, want):
    """Config.contexts (what every stream front end iterates): one group per configured (window, region); every call sits in the group of
    its own context"""
    it = ck.runner.interp
    from ..interp import AbsRaise
    try:
        groups = it.getattr(inst, 'contexts', None)
    except AbsRaise as e:
        ck.violate('C07.groups', f'{key_base}:contexts-raises-{e.exc.tname}', f'{label}: Config.contexts raises {e.exc.tname}{e.exc.args}')
        return
    items = list(groups.dict_data.items()) if hasattr(groups, 'dict_data') else list(groups.items())

    def ident(ctx):
        w = ctx.attrs['window']
        region = ctx.attrs['region']
        return ((w.starting, w.ending), None if region is None else it.getattr(region, 'wkb', None))
    stray = [(ident(k), ident(c.attrs['context'])) for k, calls in items for c in calls if ident(c.attrs['context']) != ident(k)]
    ck.ob('C07.groups', label, not stray, key=f'{key_base}:call-grouped-under-another-context',
          what=f'{label}: Config.contexts lists a call under a context that is not its own (group {stray[:1]})')


def check_outcome(ck, label, name, lname, cname, out, want):
    key_base = f'Config:{name}:{lname}'
    if out.kind == 'raise':
        ck.violate('C07.calls', f'{key_base}:raises-{out.exc.tname}', f'{label} raises {out.exc.tname}{out.exc.args}')
        return
    try:
        got = actual_calls(ck, out.value)
    except (KeyError, ValueError, AttributeError) as e:
        ck.violate('C07.calls', f'{key_base}:malformed', f'{label}: malformed calls ({e})')
        return
    if got == want:
        check_grouping(ck, label, key_base, out.value, want)
        ck.hold('C07.calls', label)
        if len(ck.samples) < 5:
            ck.sample(dict(source=label, calls=[f'{c[0]}:{c[1]}.{c[2]}' for c in got]))
        return
    missing = [c for c in want if c not in got]
    extra = [c for c in got if c not in want]
    kind = 'missing' if missing and not extra else ('extra' if extra and not missing else 'different')
    ck.violate('C07.calls', f'{key_base}:{kind}',
               f'{label}: calls differ from the configuration; missing={[c[:3] for c in missing][:4]} unexpected={[c[:3] for c in extra][:4]}',
               dict(missing=[repr(c) for c in missing], extra=[repr(c) for c in extra], carrier=cname))
