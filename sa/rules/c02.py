"""C02 — a missing observation is never reported as evaluated (and MISSING is used only where a needed value is missing)."""
from .. import cases
from ..qc import table_rule

TESTS = ['gross_range_test', 'valid_range_test', 'location_test', 'climatology_test', 'spike_test', 'rate_of_change_test',
         'flat_line_test', 'attenuated_signal_test', 'density_inversion_test', 'speed_test']


def run(ck):
    ck.explanation = (
        'Decided: for every test that documents missing-data handling, every series length 0..N, every placement of '
        'missing values (None / NaN) in the data and in the auxiliary depth / position inputs, and representative '
        'parameter sets, the abstract interpretation of the test source gives MISSING (or UNKNOWN where the test is '
        'undefined) at every position whose tested observation is missing, and gives MISSING at a present position only '
        'in cells where the property allows it. Masked-array carriers are C15.')
    for name in TESTS:
        gen = cases.ALL[name]
        for carrier in ('list_none', 'list_nan', 'masked_nan'):
            if name == 'valid_range_test':
                if carrier == 'list_none':
                    continue
                it = gen(ck.tier)
            else:
                it = gen(ck.tier, carrier=carrier)
            for case, spec in it:
                if spec.rejects:
                    continue
                if not any('m' in p for p in case.pat.values()):
                    continue
                table_rule(ck, f'C02.{name}', case, spec, scope='missing')
    # masked-array carrier: "a masked element" is a missing observation too
    from ..check import Check
    from ..qc import fn_key
    for name in TESTS:
        gen = cases.ALL[name]
        sub = Check(ck.pid, ck.tier, ck.seed)
        sub._runner = ck._runner
        n = 0
        for case, spec in gen(ck.tier, carrier='masked'):
            if spec.rejects or not any('m' in p for p in case.pat.values()) or case.n > 5:
                continue
            table_rule(sub, f'C02.{name}', case, spec, scope='missing')
            n += 1
            if n >= 40:
                break
        ck.evaluations += sub.evaluations
        ck.distinct.update(sub.distinct)
        # the recorded finding is "a masked element is reported as evaluated" (a wrong flag in the table); a raise, a result of another
        # length or type, or a flag hidden behind a mask on this carrier is something else and is reported as itself
        tables = [v for v in sub.violations if v['rule'].endswith('.table') and not v['key'].endswith(':flag-masked')]
        for v in sub.violations:
            if v not in tables:
                ck.violate(v['rule'], v['key'] + ':masked-array-input', v['what'])
        if tables:
            ck.violate('C02.masked-array', f'{fn_key(case)}:masked-array:mask-dropped-by-normaliser',
                       f'{name}: a masked element of a numpy masked-array input is reported as evaluated; e.g. {tables[0]["what"][:260]}')
        else:
            ck.hold('C02.masked-array', name)
