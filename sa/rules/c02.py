"""C02 — a missing observation is never reported as evaluated (and MISSING is used only where a needed value is missing)."""
from .. import cases
from ..qc import table_rule

TESTS = ['gross_range_test', 'valid_range_test', 'location_test', 'climatology_test', 'spike_test', 'rate_of_change_test',
         'flat_line_test', 'attenuated_signal_test', 'density_inversion_test', 'speed_test']


def run(ck):
    ck.explanation = (
        'Decided: for every test that documents missing-data handling, every series length 0..N, every placement of '
        'missing values (None / NaN) in the data and in the auxiliary depth / position inputs, and representative '
        'parameter sets, the abstract interpretation of the test source gives MISSING (or UNKNOWN where the test is '
        'undefined) at every position whose tested observation is missing, and gives MISSING at a present position only '
        'in cells where the property allows it. Masked-array carriers are C15.')
    for name in TESTS:
        gen = cases.ALL[name]
        for carrier in ('list_none', 'list_nan'):
            if name == 'valid_range_test':
                if carrier == 'list_none':
                    continue
                it = gen(ck.tier)
            else:
                it = gen(ck.tier, carrier=carrier)
            for case, spec in it:
                if spec.rejects:
                    continue
                if not any('m' in p for p in case.pat.values()):
                    continue
                table_rule(ck, f'C02.{name}', case, spec, scope='missing')
