from .. import cases
from .common import run_tables


def run(ck):
    run_tables(ck, 'C08.climatology', cases.climatology)
