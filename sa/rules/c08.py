from .. import cases
from .common import run_carrier_sweep, run_tables


def run(ck):
    run_tables(ck, 'C08.climatology', cases.climatology)
    run_carrier_sweep(ck, 'C08.climatology', cases.climatology, n_max=5, per_class=2)
