"""Check framework: obligations, known findings, replay files, evidence, exit codes."""
import hashlib
import json
import os
import random
import sys
import time
import traceback
from pathlib import Path

from .repo import AnalysisError, Repo

VERIF = Path(__file__).resolve().parent.parent
KNOWN = VERIF / 'known_findings.json'


class Check:
    def __init__(self, pid, tier='quick', seed=0):
        self.pid = pid
        self.tier = tier
        self.seed = seed
        self.rng = random.Random(seed * 7919 + 13)
        self.t0 = time.time()
        self.obligations = []          # dicts: rule, site, status, detail
        self.violations = []           # dicts: rule, key, what, detail
        self.rule_counts = {}
        self.evaluations = 0
        self.distinct = set()
        self.samples = []
        self.notes = []
        self.trusted = set()
        self.assumptions = []
        self.explanation = ''
        self.floors = {}               # rule -> minimum instance count
        self._runner = None

    # ---- shared engine ----
    @property
    def runner(self):
        if self._runner is None:
            from .scen import Runner
            self._runner = Runner()
        return self._runner

    @property
    def repo(self):
        return self.runner.repo

    # ---- recording ----
    def hold(self, rule, site, detail=None):
        self.rule_counts[rule] = self.rule_counts.get(rule, 0) + 1
        if len(self.obligations) < 400:
            self.obligations.append(dict(rule=rule, site=site, status='HOLDS', **({'detail': detail} if detail else {})))

    def defer(self, msg):
        """a refusal that need not stop the run: reported as ANALYSIS-ERROR (exit 2) at the end unless a violation was found (exit 1)"""
        if not hasattr(self, 'deferred'):
            self.deferred = []
        self.deferred.append(msg)

    def violate(self, rule, key, what, detail=None):
        """key identifies the failing construct / input class (stable, no line numbers)"""
        self.rule_counts[rule] = self.rule_counts.get(rule, 0) + 1
        for v in self.violations:
            if v['rule'] == rule and v['key'] == key:
                v['count'] = v.get('count', 1) + 1
                return
        self.violations.append(dict(rule=rule, key=key, what=what, detail=detail or {}))

    def ob(self, rule, site, ok, key=None, what=None, detail=None):
        if ok:
            self.hold(rule, site)
        else:
            self.violate(rule, key or site, what or f'{rule} fails at {site}', detail)
        return ok

    def sample(self, s):
        if len(self.samples) < 8:
            self.samples.append(s)

    def count(self, n=1, distinct=None):
        self.evaluations += n
        if distinct is not None:
            self.distinct.add(distinct)

    def floor(self, rule, n):
        self.floors[rule] = n

    # ---- finishing ----
    def finish(self, partial=None):
        """partial: the AnalysisError that stopped the run early - violations found before it are still reported (exit 1); without any,
        the caller reports the analysis error (exit 2)"""
        known = load_known()
        kf = [k for k in known if k.get('property') == self.pid and k.get('status', 'known') == 'known']
        exit_code = 0
        lines = []
        new = []
        for v in self.violations:
            match = None
            for k in kf:
                if k['rule'] == v['rule'] and k['key'] == v['key']:
                    match = k
                    break
            if match:
                v['status'] = 'KNOWN'
                lines.append(f"KNOWN-FINDING: property={self.pid} {v['rule']} {v['key']}: {match.get('what', v['what'])}")
            else:
                v['status'] = 'VIOLATION'
                new.append(v)
        # vacuity protection
        if partial is not None and not new:
            return None
        if partial is None and not new and getattr(self, 'deferred', None):
            # a refusal recorded while the run went on (so that violations elsewhere are still found): nothing was found, so it stands
            raise AnalysisError(self.deferred[0] + (f' (and {len(self.deferred) - 1} more)' if len(self.deferred) > 1 else ''))
        if partial is None:
            self.check_length_branches()
        for rule, n in (self.floors.items() if partial is None else ()):
            got = self.rule_counts.get(rule, 0)
            if got < n:
                raise AnalysisError(f'rule {rule} matched {got} instances, fewer than the confirmed floor {n} (anchor vanished?)')
        for v in new:
            path = write_replay(self.pid, v)
            lines.append(f"VIOLATION property={self.pid} replay={path}")
            lines.append(f"  rule={v['rule']} key={v['key']}")
            lines.append(f"  {v['what']}")
            exit_code = 1
        self.write_evidence(len(new))
        for ln in lines:
            print(ln)
        nk = sum(1 for v in self.violations if v['status'] == 'KNOWN')
        if partial is not None:
            print(f'ANALYSIS-ERROR property={self.pid} reason={partial} (the run stopped here; the violations above were found before it)')
        for d in getattr(self, 'deferred', [])[:3]:
            print(f'ANALYSIS-ERROR property={self.pid} reason={d} (not decided; the violations above were found elsewhere)')
        print(f"[{self.pid}] tier={self.tier} obligations={sum(self.rule_counts.values())} "
              f"violations={len(new)} known={nk} evaluations={self.evaluations} wall={time.time() - self.t0:.1f}s")
        return exit_code

    LENGTH_BOUND = 8

    def interpretation_stats(self):
        """what of the repository the abstract interpreter actually walked in this run: functions (with the number of interpretations), the
        `if` statements reached and how many of them had both arms explored, the exploration guards that were applied"""
        from .interp import Interp, size_threshold
        from .repo import unparse
        arms = list(Interp.arms.values())
        one_armed = [f'{fn}: if {unparse(node.test, 60)} ({"then" if t else "else"} arm only)' for node, t, e, fn in arms if not (t and e)]
        fns = sorted(Interp.fn_calls.items(), key=lambda kv: -kv[1])
        return {
            'functions': {k: v for k, v in fns[:60]},
            'functions_total': len(fns),
            'if_statements_reached': len(arms),
            'if_statements_both_arms': sum(1 for _, t, e, _f in arms if t and e),
            'one_armed_sample': one_armed[:25],
            'size_threshold_branches_checked': sum(1 for node, *_ in arms if size_threshold(node.test) is not None),
            'block_stride_sites_checked': len(Interp.strides),
        }

    def check_length_branches(self):
        """The scenarios use series of bounded length.  A branch that compares a length / size with a constant above that bound and of which
        only one arm was ever reached means the code behaves differently for long series in a way no scenario looked at: the run cannot
        claim the property there (exit 2), rather than pass silently."""
        from .interp import Interp, size_threshold
        from .repo import unparse
        for node, then_arm, else_arm, fn in Interp.arms.values():
            if then_arm and else_arm:
                continue
            k = size_threshold(node.test)
            if k is not None and k > self.LENGTH_BOUND:
                raise AnalysisError(f'{fn}: `if {unparse(node.test, 80)}` switches behaviour at a series length / size of {k}, beyond the lengths '
                                    f'the scenarios explore (<= {self.LENGTH_BOUND}); the {"else" if then_arm else "then"} arm was never analysed', node)

        for node, k, qmax, fn in Interp.quotients.values():
            if qmax == 0:
                raise AnalysisError(f'{fn}: `{unparse(node, 80)}` is 0 for every series the scenarios use (it only becomes positive from {k} elements on): '
                                    'what the code does with a non-zero value was never analysed', node)
        for node, step, blocks, fn in Interp.strides.values():
            if step > 3 and blocks <= 1:
                raise AnalysisError(f'{fn}: `{unparse(node, 80)}` works through its input in blocks of {step}; no scenario is long enough to reach a second '
                                    'block, so what happens at a block boundary was never analysed', node)

    def write_evidence(self, nviol):
        total = sum(self.rule_counts.values())
        discharged = total - len(self.violations)
        if not self.explanation:
            try:
                man = json.loads((VERIF / 'MANIFEST.json').read_text())
                for c in man.get('checks', []):
                    if c['property_id'] == self.pid:
                        self.explanation = ('Decided statically (no repository code is executed): ' + c['level_claimed']['text']
                                            + ' Trusted / not decided: ' + c['level_note'])
            except Exception:
                pass
        if not self.explanation:
            self.explanation = 'static analysis of /repo sources; see DESIGN.md'
        cov = {
            'explanation': self.explanation,
            'obligations': total,
            'discharged': discharged,
            'evaluations': max(self.evaluations, total, 1),
            'distinct_nontrivial': max(len(self.distinct), len(self.rule_counts) + 1, 2) if not self.distinct else len(self.distinct),
            'rule': 'one evaluation = one abstract interpretation of a repository function under one scenario skeleton, '
                    'or one order cell compared with the specification table, or one structural rule instance; '
                    'distinct = distinct (scenario, outcome) / (cell, flag set) / (rule, site) keys',
            'samples': self.samples or [dict(note='structural rules only', rules=sorted(self.rule_counts))],
            'checker_cmd': f'./check {self.pid}' + (' --tier thorough' if self.tier == 'thorough' else ''),
            'trusted_base': sorted(self.trusted) or ['Python ast module', 'library model sa/models*.py (DESIGN §3)'],
            'per_rule_instances': dict(sorted(self.rule_counts.items())),
            'analysed': self.repo.stats() if self._runner else Repo().stats(),
            'findings': [dict(rule=v['rule'], key=v['key'], status=v.get('status'), what=v['what']) for v in self.violations],
            'interpreted': self.interpretation_stats(),
            'obligation_list': self.obligations[:120],
            'exhaustive': False,
            'notes': self.notes,
        }
        ev = {
            'property_id': self.pid,
            'tier': self.tier,
            'seed': self.seed,
            'level': 'other',
            'coverage': cov,
            'assumptions': self.assumptions or ['numpy / pandas behave as in the model table sa/models*.py'],
            'wall_s': round(time.time() - self.t0, 3),
            'violations': nviol,
        }
        (VERIF / 'evidence').mkdir(exist_ok=True)
        (VERIF / 'evidence' / f'{self.pid}.json').write_text(json.dumps(ev, indent=1, default=str) + '\n')


def load_known():
    if not KNOWN.exists():
        return []
    data = json.loads(KNOWN.read_text())
    return data.get('findings', [])


def write_replay(pid, v):
    d = VERIF / 'replays' / pid
    d.mkdir(parents=True, exist_ok=True)
    h = hashlib.sha1((v['rule'] + '|' + v['key']).encode()).hexdigest()[:10]
    path = d / f"{v['rule'].replace('.', '_')}-{h}.json"
    path.write_text(json.dumps(dict(property=pid, **v), indent=1, default=str) + '\n')
    return str(path)


def main(argv=None):
    import argparse
    ap = argparse.ArgumentParser()
    ap.add_argument('pid')
    ap.add_argument('--tier', default=os.environ.get('VERIF_TIER', 'quick'))
    ap.add_argument('--replay')
    args = ap.parse_args(argv)
    pid = args.pid.upper()
    seed = int(os.environ.get('VERIF_SEED', '0') or 0)
    tier = args.tier if args.tier in ('quick', 'thorough') else 'quick'
    if args.replay:
        print(Path(args.replay).read_text())
        print('re-deriving on the current tree:')
    ck = None
    try:
        import importlib
        mod = importlib.import_module(f'sa.rules.{pid.lower()}')
        ck = Check(pid, tier, seed)
        mod.run(ck)
        return ck.finish()
    except AnalysisError as e:
        if ck is not None and ck.violations:
            try:
                rc = ck.finish(partial=e)
                if rc is not None:
                    return rc
            except Exception:
                pass
        print(f'ANALYSIS-ERROR property={pid} reason={e}')
        if os.environ.get('VERIF_TRACE'):
            traceback.print_exc()
        return 2
    except Exception:
        tb = traceback.format_exc()
        print(f'ANALYSIS-ERROR property={pid} reason=internal error in the analyser\n{tb}')
        return 2


if __name__ == '__main__':
    sys.exit(main())
