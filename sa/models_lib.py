"""numpy / numpy.ma / pandas function and attribute models (trusted base, DESIGN §3)."""
import collections
import math
from fractions import Fraction as Fr

from . import expr as X
from .interp import (AbsRaise, BoundMethod, ClassVal, ExcType, ExcVal, ExtRef, FB, FuncVal,
                     GenResult, Instance, ModelMethod, ModuleNS, mkbool)
from .models import (ContextMgr, DType, PyCallable, UNIT_SECONDS, _where, as_operand, bool_of_el,
                     el_num, floor_fr, num_of_el, parse_dtype, trunc_fr)
from .models_py import DefaultDict, LOGGER, Logger, ParamVal, PartialVal, PathVal, SigVal, StringIOVal
from .repo import AnalysisError
from .vec import (MASKED, NONE_EL, OOB, Backing, El, Masked, Sc, Vec, Vec2, m_and, m_conc, m_formula, m_ite, m_or,
                  norm_index)

PLAIN = (int, str, bytes, bool, type(None), Fr, float)


def is_plain(x):
    return isinstance(x, PLAIN) or (isinstance(x, (tuple, frozenset)) and all(is_plain(y) for y in x))


COMPARING = {'index', 'remove', 'count', 'sort', 'most_common', 'elements', 'subtract'}
CONTAINER_MUTATORS = {'append', 'appendleft', 'extend', 'extendleft', 'pop', 'popleft', 'popitem', 'insert', 'remove', 'sort', 'reverse', 'clear', 'update', 'setdefault', 'add', 'discard',
                      'rotate', 'move_to_end', 'subtract', 'difference_update', 'intersection_update', 'symmetric_difference_update', '__setitem__', '__delitem__'}


def real_container_method(M, interp, obj, name, node):
    """A method of a real Python container (the interpreter keeps lists, dicts, sets, deques, OrderedDicts, Counters as themselves) that has no
    row of its own: the container's own method is called, provided everything it hashes or compares is a plain constant (abstract array
    elements do not compare like their concrete counterparts)."""
    hashed = list(obj.keys()) if isinstance(obj, dict) else (list(obj) if isinstance(obj, (set, frozenset)) else [])
    if not all(is_plain(k) for k in hashed):
        return None
    if name in COMPARING and not all(is_plain(x) for x in (obj.values() if isinstance(obj, dict) else obj)):
        return None

    def call(it, a, k, n):
        if k.get('key') is not None or any(callable(x) and not isinstance(x, type) for x in a):
            raise AnalysisError(f'{type(obj).__name__}.{name} with a key function not modelled', n)
        if isinstance(obj, (dict, set, frozenset)) or name in COMPARING:
            for x in a:
                items = list(x) if isinstance(x, (list, tuple, set, frozenset, dict)) else [x]
                if name not in ('update', 'setdefault', 'get', 'pop') and not all(is_plain(y) for y in items):
                    raise AnalysisError(f'{type(obj).__name__}.{name} with abstract values not modelled', n)
        if name in CONTAINER_MUTATORS:
            M.mutation(it, obj, f'.{name}()', n)
        try:
            r = getattr(obj, name)(*a, **k)
        except (ValueError, TypeError, KeyError, IndexError) as e:
            raise AbsRaise(ExcVal(type(e).__name__, (str(e),)), n)
        if isinstance(r, (type({}.items()), type({}.keys()), type({}.values()))):
            return list(r)
        return r
    return PyCallable(call, f'{type(obj).__name__}.{name}')


def plain_for_format(M, interp, x, node):
    """a value as str.format / an f-string sees it: exact rationals that stand for Python ints / floats become those; anything abstract is rendered
    by to_str (its text cannot matter to a flag)"""
    if isinstance(x, bool) or x is None or isinstance(x, (int, str)):
        return x
    if isinstance(x, Fr):
        return float(x)
    if isinstance(x, float):
        return x
    if isinstance(x, Sc) and x.concrete():
        v = x.value()
        return int(v) if x.dtype in ('i8', 'u1') and Fr(v).denominator == 1 else float(v)
    if isinstance(x, (list, tuple)) and all(isinstance(y, (int, str, bool, type(None), Fr, float)) for y in x):
        return type(x)(plain_for_format(M, interp, y, node) for y in x) if not hasattr(x, '_fields') else x
    return M.to_str(interp, x, node)


def pure_str_method(obj, name):
    """any method of str / bytes is a pure function of concrete values: evaluated for real"""
    def call(it, a, k, n):
        if not all(isinstance(x, (str, bytes, int, type(None), tuple, list)) for x in list(a) + list(k.values())):
            raise AnalysisError(f'{type(obj).__name__}.{name} with non-constant arguments', n)
        try:
            return getattr(obj, name)(*a, **k)
        except (ValueError, TypeError, UnicodeError, LookupError) as e:
            raise AbsRaise(ExcVal(type(e).__name__ if type(e).__name__ in ('ValueError', 'TypeError', 'KeyError', 'IndexError', 'LookupError', 'UnicodeDecodeError') else 'ValueError', (str(e),)), n)
    return call


PY_METHODS = {
    list: {'append', 'extend', 'pop', 'insert', 'remove', 'index', 'count', 'sort', 'reverse', 'copy', 'clear'},
    dict: {'get', 'items', 'keys', 'values', 'update', 'pop', 'setdefault', 'copy', 'clear'},
    str: {'replace', 'split', 'strip', 'startswith', 'endswith', 'join', 'format', 'lower', 'upper', 'isalpha',
          'isdigit', 'lstrip', 'rstrip', 'find', 'encode', 'title', 'splitlines'},
    tuple: {'index', 'count'},
    set: {'add', 'update', 'discard', 'remove'},
}
MUTATORS = {'append', 'extend', 'pop', 'insert', 'remove', 'sort', 'reverse', 'clear', 'update', 'setdefault', 'add', 'discard'}

NP_CONSTS = {
    'geographiclib.geodesic.Geodesic.WGS84.a': Fr(6378137), 'geographiclib.geodesic.Geodesic.WGS84.f': Fr(1000000000, 298257223563),
    'numpy.nan': 'NAN', 'numpy.NaN': 'NAN', 'numpy.inf': float('inf'), 'numpy.pi': Fr(math.pi),
    'numpy.newaxis': None, 'math.pi': Fr(math.pi), 'math.e': Fr(math.e),
}


def getattr_lib(M, interp, obj, name, node):
    from .models_np import NP_NAN, IndexSet
    if isinstance(obj, ExtRef):
        path = obj.path + '.' + name
        if obj.path in ('inspect.Parameter', 'inspect._ParameterKind') and hasattr(ParamVal, name) and name.isupper():
            return getattr(ParamVal, name)        # the parameter kinds, as inspect.signature(...).parameters[...].kind reports them
        if obj.path == 'inspect.Parameter' and name == 'empty':
            raise AnalysisError('inspect.Parameter.empty not modelled', node)
        from . import models_pp
        if path in models_pp.CONSTS:
            return models_pp.CONSTS[path]         # `import pyparsing as pp; pp.alphanums`
        if path in NP_CONSTS:
            c = NP_CONSTS[path]
            return NP_NAN if c == 'NAN' else c
        if path == 'numpy.ma.masked':
            return MASKED
        if path == 'numpy.ma.nomask':
            return False
        return ExtRef(path)
    if isinstance(obj, Vec):
        return vec_getattr(M, interp, obj, name, node)
    if isinstance(obj, Vec2):
        if name == 'shape':
            return obj.shape
        if name == 'ndim':
            return 2
        if name == 'size':
            return obj.shape[0] * obj.shape[1]
        if name == 'T':
            return M.transpose2(obj)
        if (Vec2, name) in M.methods:
            return ModelMethod(obj, name)
        if name == 'dtype':
            return DType(obj.dtype, None)
        raise AnalysisError(f'2-D array attribute {name} not modelled', node)
    if isinstance(obj, Sc):
        if name == 'astype':
            return ModelMethod(obj, name)
        if name in ('dtype',):
            return DType(obj.dtype, obj.unit)
        if name == 'data':
            return obj
        if name in ('item', 'any', 'all', 'tolist'):
            return ModelMethod(obj, name)
        if obj.dtype in ('m8', 'M8') and name in ('to_timedelta64', 'to_datetime64', 'to_numpy', 'to_pytimedelta', 'asm8'):
            return obj if name == 'asm8' else PyCallable(lambda it, a, k, n: obj, name)
        if obj.dtype == 'm8' and name == 'total_seconds':
            return PyCallable(lambda it, a, k, n: (obj.value() if obj.concrete() else Sc(obj.d, 'f8')), name)
        if name == 'shape':
            return ()
        if name == 'ndim':
            return 0
        if name == 'size':
            return 1
        raise AbsRaise(ExcVal('AttributeError', (f'numpy scalar has no attribute {name}',)), node)
    if isinstance(obj, Masked):
        if name in ('astype', 'any', 'all'):
            return ModelMethod(obj, name)
        raise AbsRaise(ExcVal('AttributeError', (f'MaskedConstant has no attribute {name}',)), node)
    if isinstance(obj, DType):
        if name == 'tz':
            if obj.tz is None:
                raise AbsRaise(ExcVal('AttributeError', ("numpy dtype has no attribute 'tz'",)), node)
            return obj.tz
        if name == 'names':
            return None
        if name == 'kind':
            return {'f8': 'f', 'b1': 'b', 'u1': 'u', 'i8': 'i', 'M8': 'M', 'm8': 'm', 'O': 'O'}[obj.code]
        raise AbsRaise(ExcVal('AttributeError', (f'dtype has no attribute {name}',)), node)
    if isinstance(obj, Logger):
        if name in ('warning', 'error', 'info', 'debug', 'exception', 'critical', 'warn'):
            return PyCallable(lambda it, a, k, n, _lvl=name: it.event('log', level=_lvl, msg=str(a[0]) if a else '', node=n), 'log')
        raise AbsRaise(ExcVal('AttributeError', (name,)), node)
    for pytype, names in PY_METHODS.items():
        if isinstance(obj, pytype) and not isinstance(obj, bool):
            if name in names:
                return ModelMethod(obj, name)
    if isinstance(obj, (list, dict, set, frozenset, collections.deque)) and not name.startswith('_') and hasattr(type(obj), name):
        real = real_container_method(M, interp, obj, name, node)
        if real is not None:
            return real
    if isinstance(obj, tuple) and hasattr(obj, '_fields'):
        if name in obj._fields:
            return getattr(obj, name)
        if name == '_fields':
            return obj._fields
        if name == '_asdict':
            return PyCallable(lambda it, a, k, n: dict(obj._asdict()), '_asdict')
        if name == '_replace':
            return PyCallable(lambda it, a, k, n: obj._replace(**k), '_replace')
        raise AbsRaise(ExcVal('AttributeError', (f'namedtuple has no attribute {name}',)), node)
    if isinstance(obj, type) and issubclass(obj, tuple) and hasattr(obj, '_fields'):
        if name == '_fields':
            return obj._fields
        if name == '__name__':
            return obj.__name__
    if isinstance(obj, PartialVal):
        if name in ('func', 'args', 'keywords'):
            return getattr(obj, name)
        raise AbsRaise(ExcVal('AttributeError', (name,)), node)
    if isinstance(obj, SigVal):
        if name == 'parameters':
            a = obj.fv.node.args
            ps = collections.OrderedDict()
            for p in a.posonlyargs:
                ps[p.arg] = ParamVal(p.arg, ParamVal.POSITIONAL_ONLY)
            for p in a.args:
                ps[p.arg] = ParamVal(p.arg, ParamVal.POSITIONAL_OR_KEYWORD)
            if a.vararg:
                ps[a.vararg.arg] = ParamVal(a.vararg.arg, ParamVal.VAR_POSITIONAL)
            for p in a.kwonlyargs:
                ps[p.arg] = ParamVal(p.arg, ParamVal.KEYWORD_ONLY)
            if a.kwarg:
                ps[a.kwarg.arg] = ParamVal(a.kwarg.arg, ParamVal.VAR_KEYWORD)
            return ps
    if isinstance(obj, ParamVal):
        if hasattr(obj, name):
            return getattr(obj, name)
    if isinstance(obj, ExcType):
        if name in ('__name__', '__qualname__'):
            return obj.tname
        raise AnalysisError(f'attribute {name} of exception class {obj.tname} not modelled', node)
    if isinstance(obj, ExcVal):
        if name == 'args':
            return obj.args
        if name in getattr(obj, 'attrs', {}):
            return obj.attrs[name]
        cls = getattr(obj, 'cls', None)
        if cls is not None:
            try:
                v = cls.lookup(name)
            except KeyError:
                v = None
            if isinstance(v, FuncVal):
                return interp.call_function(v, [obj], {}, node) if v.is_property else BoundMethod(obj, v)
            if v is not None:
                return v
        if name == '__class__':
            return cls if cls is not None else ExcType(obj.tname)
        if name in ('__cause__', '__context__', '__traceback__', 'with_traceback', 'add_note', '__notes__'):
            raise AnalysisError(f'exception attribute {name} not modelled', node)
        if name in ('errno', 'strerror', 'filename', 'code', 'msg', 'name', 'path', 'obj', 'value', 'reason'):
            raise AnalysisError(f'exception attribute {name} of a built-in exception not modelled', node)
        raise AbsRaise(ExcVal('AttributeError', (f"'{obj.tname}' object has no attribute '{name}'",)), node)
    if isinstance(obj, PathVal):
        if name in ('open', 'exists', 'is_file', 'read_text'):
            return ModelMethod(obj, name)
        if name in ('name', 'parent', 'suffix', 'stem', 'parts', 'resolve', 'write_text', 'mkdir', 'joinpath', 'with_suffix', 'is_dir', 'read_bytes', 'glob'):
            raise AnalysisError(f'Path.{name} not modelled', node)
        raise AbsRaise(ExcVal('AttributeError', (f"'PosixPath' object has no attribute '{name}'",)), node)
    if isinstance(obj, StringIOVal):
        if name in ('getvalue', 'read'):
            return ModelMethod(obj, name)
        if name in ('readline', 'readlines', 'seek', 'tell', 'write', 'close', 'closed', 'truncate', 'writelines'):
            raise AnalysisError(f'StringIO.{name} not modelled', node)
        raise AbsRaise(ExcVal('AttributeError', (f"'_io.StringIO' object has no attribute '{name}'",)), node)
    if isinstance(obj, IndexSet):
        return obj.abs_getattr(interp, name, node)
    h = getattr(obj, 'abs_getattr', None)
    if h is not None:
        return h(interp, name, node)
    if type(obj).__name__ == 'EnumInt':
        if name in ('name', '_name_'):
            return obj.enum_name
        if name in ('value', '_value_'):
            return int(obj)
        if name == '__class__':
            return obj.enum_cls
    if obj is None or isinstance(obj, (int, float, Fr, bool, str, list, tuple, dict, set)):
        if isinstance(obj, (int, Fr, float)) and not isinstance(obj, bool) and name in ('astype',):
            # numpy float scalars produced by python arithmetic on numpy scalars
            return ModelMethod(Sc(X.num(obj)), name)
        tn = 'NoneType' if obj is None else type(obj).__name__
        real_type = float if isinstance(obj, Fr) else type(obj)
        if hasattr(real_type, name):
            # the real type has it: either evaluate it (pure string methods) or admit the model lacks it - never a made-up AttributeError
            if isinstance(obj, str):
                return PyCallable(pure_str_method(obj, name), f'str.{name}')
            raise AnalysisError(f'{tn}.{name} is not modelled', node, where=_where(interp, node))
        raise AbsRaise(ExcVal('AttributeError', (f"'{tn}' object has no attribute '{name}'",)), node)
    if isinstance(obj, bytes):
        if hasattr(bytes, name):
            return PyCallable(pure_str_method(obj, name), f'bytes.{name}')
        raise AbsRaise(ExcVal('AttributeError', (f"'bytes' object has no attribute '{name}'",)), node)
    if isinstance(obj, FB):
        raise AbsRaise(ExcVal('AttributeError', (f"bool has no attribute '{name}'",)), node)
    if isinstance(obj, slice) and name in ('start', 'stop', 'step'):
        return getattr(obj, name)
    raise AnalysisError(f'attribute {name} of {type(obj).__name__} not modelled', node, where=_where(interp, node))


def is_narrow_float(d):
    name = getattr(d, 'path', d)
    return isinstance(name, str) and name.split('.')[-1] in ('float32', 'float16', 'single', 'half', 'f4', 'f2', '<f4', '<f2')


def _pandas_cow():
    """library fact keyed to the installed pandas: from 3.0 on Copy-on-Write is always on and Series / Index hand out read-only arrays"""
    try:
        import pandas
        return int(pandas.__version__.split('.')[0]) >= 3
    except Exception:
        return False


PANDAS_COW = _pandas_cow()

VEC_METHODS = {'astype', 'flatten', 'reshape', 'fill', 'count', 'any', 'all', 'copy', 'to_numpy', 'to_series',
               'ravel', 'sort', 'min', 'max', 'mean', 'std', 'sum', 'tolist', 'filled', 'rolling', 'isocalendar',
               'tz_localize', 'view', 'item', 'compressed', 'argsort', 'put', 'resize', 'itemset', 'squeeze',
               'nonzero', 'isna', 'isnull', 'notna', 'dropna', 'fillna', 'ffill', 'bfill', 'tz_convert', 'cumsum', 'round', 'ptp',
               'searchsorted', 'unique', 'apply', 'map', 'astimezone', 'clip', 'argmax', 'argmin', 'repeat',
               'diff', 'shift', 'abs', 'where', 'between', 'total_seconds', 'isnull', 'notnull'}

PERIOD_ATTRS = {'year', 'month', 'day', 'hour', 'minute', 'second', 'dayofyear', 'day_of_year', 'dayofweek',
                'day_of_week', 'weekday', 'quarter', 'week', 'weekofyear', 'days_in_month', 'microsecond',
                'nanosecond', 'is_leap_year', 'is_month_start', 'is_month_end', 'daysinmonth'}


def vec_getattr(M, interp, v, name, node):
    n = len(v)
    if name == 'shape':
        return (n,)
    if name == 'size':
        return n
    if name == 'ndim':
        return 1
    if name == 'dtype':
        return DType(v.dtype, v.unit, v.tz)
    if name == 'strides':
        if v.kind not in ('nd', 'ma'):
            raise AbsRaise(ExcVal('AttributeError', ('strides',)), node)
        return (8,)
    if name == 'T':
        return v
    if name == 'mask':
        if v.kind == 'series':
            # library fact: a pandas Series *has* an attribute `mask` - the method Series.mask(cond, other) - so getattr(x, "mask", default)
            # does not fall back to the default, and the object is truthy
            return ModelMethod(v, 'mask')
        if v.kind != 'ma':
            raise AbsRaise(ExcVal('AttributeError', (f"'{_tname(v)}' object has no attribute 'mask'",)), node)
        out = Vec.fresh([El(m_formula(e.m), False) for e in v.els()], kind='nd', dtype='b1')
        return out
    if name == 'data':
        if v.kind == 'ma':
            # library fact: `.data` is a view of the same memory (writes through it change the values and leave the mask alone)
            return v.view(list(v.idx), kind='nd', dview=True)
        if v.kind == 'nd':
            return v
        raise AbsRaise(ExcVal('AttributeError', ('data',)), node)
    if name == 'values':
        if v.kind in ('series', 'index', 'dtindex'):
            out = Vec.fresh([El(e.d, False) for e in v.els()], kind='nd', dtype=v.dtype, unit=v.unit)
            out.ro = PANDAS_COW
            return out
        raise AbsRaise(ExcVal('AttributeError', (f"'{_tname(v)}' object has no attribute 'values'",)), node)
    if name == 'index' and v.kind == 'series':
        if v.index is None:
            return Vec.fresh([El(X.num(i), False) for i in range(len(v))], kind='index', dtype='i8')
        return v.index
    if name in ('iloc', 'loc') and v.kind == 'series':
        from .models_xr import SeriesILoc, SeriesLoc
        return SeriesILoc(v) if name == 'iloc' else SeriesLoc(v)
    if name == 'dt':
        if v.kind == 'series' and v.dtype == 'M8':
            return DtAccessor(v)
        raise AbsRaise(ExcVal('AttributeError', (f"'{_tname(v)}' object has no attribute 'dt'",)), node)
    if name == 'tz' and v.kind == 'dtindex':
        return v.tz
    if name in PERIOD_ATTRS and v.kind == 'dtindex':
        return period_feature(interp, v, name, node)
    if v.dtype == 'm8' and v.kind in ('index', 'series') and name in ('seconds', 'days', 'total_seconds'):
        # timedelta components: .seconds is the 0..86399 remainder, .days the whole days (pandas semantics)
        def comp(d, which):
            if not X.is_num(d):
                return d if d in (X.NAN, X.ANY) else X.fn('td_' + which, d)
            days = math.floor(d[1] / 86400)
            if which == 'days':
                return X.num(days)
            if which == 'seconds':
                return X.num(math.floor(d[1] - days * 86400))
            return d
        if name == 'total_seconds':
            return PyCallable(lambda it, a, k, n: Vec.fresh([El(e.d, False) for e in v.els()], kind='index', dtype='f8'), 'total_seconds')
        return Vec.fresh([El(comp(e.d, name), False) for e in v.els()], kind='index', dtype='i8')
    if name == 'fill_value' and v.kind == 'ma':
        return getattr(v, '_fill', None)
    if name in VEC_METHODS:
        if name in ('to_numpy', 'to_series', 'rolling', 'isocalendar', 'tz_localize', 'isna', 'dropna') and v.kind in ('nd', 'ma'):
            raise AbsRaise(ExcVal('AttributeError', (f"'{_tname(v)}' object has no attribute '{name}'",)), node)
        if name in ('flatten', 'filled', 'compressed', 'fill', 'count', 'ravel') and v.kind not in ('nd', 'ma'):
            if not (name == 'count' and v.kind == 'series') and not (name == 'ravel'):
                raise AbsRaise(ExcVal('AttributeError', (f"'{_tname(v)}' object has no attribute '{name}'",)), node)
        if name in ('filled', 'count', 'compressed') and v.kind == 'nd':
            raise AbsRaise(ExcVal('AttributeError', (f"'numpy.ndarray' object has no attribute '{name}'",)), node)
        return ModelMethod(v, name)
    # not in the model: ask the real class whether such an attribute exists (decides AttributeError vs. bridge)
    from . import bridge
    if bridge.HAVE:
        import numpy as _np
        import pandas as _pd
        klass = {'nd': _np.ndarray, 'ma': _np.ma.MaskedArray, 'series': _pd.Series, 'index': _pd.Index, 'dtindex': _pd.DatetimeIndex}[v.kind]
        if hasattr(klass, name) and not name.startswith('_'):
            attr = getattr(klass, name)
            if callable(attr) and not isinstance(attr, property):
                return ModelMethod(v, name)
            try:
                return bridge.from_real(getattr(bridge.to_real(v, interp), name))
            except bridge.NotConcrete as e:
                raise AnalysisError(f'attribute {name} of an array with symbolic content is not modelled ({e})', node)
    raise AbsRaise(ExcVal('AttributeError', (f"'{_tname(v)}' object has no attribute '{name}'",)), node)


def _tname(v):
    return {'nd': 'numpy.ndarray', 'ma': 'MaskedArray', 'series': 'Series', 'index': 'Index', 'dtindex': 'DatetimeIndex'}[v.kind]


class DtAccessor:
    def __init__(self, v):
        self.v = v

    def abs_getattr(self, interp, name, node):
        if name == 'tz_localize':
            return PyCallable(lambda it, a, k, n: self.v.copy(tz=(a[0] if a else None)), 'dt.tz_localize')
        if name == 'tz_convert':
            def conv(it, a, k, n):
                # only UTC-aware data is in the scenarios: converting UTC stamps to UTC / to naive keeps the instants
                tz = a[0] if a else k.get('tz')
                if self.v.tz is None:
                    raise AbsRaise(ExcVal('TypeError', ('Cannot convert tz-naive timestamps, use tz_localize to localize',)), n)
                if self.v.tz != 'UTC' or tz not in (None, 'UTC', 'utc'):
                    raise AnalysisError('tz_convert between zones other than UTC is not modelled', n)
                return self.v.copy(tz=None if tz is None else 'UTC')
            return PyCallable(conv, 'dt.tz_convert')
        if name == 'tz':
            return self.v.tz
        if name in PERIOD_ATTRS:
            return period_feature(interp, self.v, name, node).view(None) if False else period_feature(interp, self.v, name, node)
        raise AnalysisError(f'.dt.{name} not modelled', node)


def calendar_value(seconds, canon):
    """calendar attribute of an epoch-seconds instant (proleptic Gregorian, UTC) via the stdlib datetime module"""
    import datetime as _dt
    import calendar as _cal
    if seconds.denominator != 1 and canon not in ('microsecond', 'nanosecond'):
        seconds = Fr(math.floor(seconds))
    t = _dt.datetime(1970, 1, 1) + _dt.timedelta(seconds=int(seconds))
    if canon == 'week':
        return t.isocalendar()[1]
    if canon == 'dayofyear':
        return t.timetuple().tm_yday
    if canon == 'dayofweek':
        return t.weekday()
    if canon == 'quarter':
        return (t.month - 1) // 3 + 1
    if canon == 'days_in_month':
        return _cal.monthrange(t.year, t.month)[1]
    if canon == 'is_leap_year':
        return _cal.isleap(t.year)
    if canon in ('year', 'month', 'day', 'hour', 'minute', 'second'):
        return getattr(t, canon)
    if canon in ('microsecond', 'nanosecond'):
        return 0
    if canon == 'is_month_start':
        return t.day == 1
    if canon == 'is_month_end':
        return t.day == _cal.monthrange(t.year, t.month)[1]
    raise KeyError(canon)


def period_feature(interp, v, name, node):
    """calendar attribute of a DatetimeIndex: the skeleton supplies the per-point values"""
    feats = getattr(interp, 'time_features', None)
    canon = {'weekofyear': 'week', 'day_of_year': 'dayofyear', 'day_of_week': 'dayofweek', 'weekday': 'dayofweek',
             'daysinmonth': 'days_in_month'}.get(name, name)
    out = []
    for e in v.els():
        if not X.is_num(e.d):
            raise AnalysisError(f'calendar feature {name} of a symbolic / missing time', node)
        if feats is not None and (e.d[1], canon) in feats:
            val = feats[(e.d[1], canon)]
        else:
            try:
                val = calendar_value(e.d[1], canon)
            except (KeyError, OverflowError, ValueError):
                raise AnalysisError(f'calendar feature {name} not modelled', node)
        out.append(El(X.TRUE if val is True else (X.FALSE if val is False else X.num(val)), False))
    return Vec.fresh(out, kind='index', dtype='b1' if canon.startswith('is_') else 'i8')


# ------------------------------------------------------------------------------------------------

def register(M):
    from .models_np import IndexSet, NP_NAN, NOTIMPL, bool_positions, concrete_int, check_oob
    E = M.ext_call
    MT = M.methods

    def ext(*paths):
        def deco(fn):
            for p in paths:
                E[p] = fn
            return fn
        return deco

    def meth(klass, *names):
        def deco(fn):
            for nm in names:
                MT[(klass, nm)] = fn
            return fn
        return deco

    def kwarg(args, kw, i, name, default=None):
        if len(args) > i:
            return args[i]
        return kw.get(name, default)

    # ---------------------------------------------------------------------------------------
    # python container methods
    def _pymeth(interp, obj, name, args, kw, node):
        if name in MUTATORS and isinstance(obj, (list, dict, set)):
            M.mutation(interp, obj, f'.{name}()', node)
        if isinstance(obj, dict) and name == 'get':
            try:
                return obj[args[0]] if args[0] in obj else (args[1] if len(args) > 1 else kw.get('default'))
            except TypeError:
                raise AbsRaise(ExcVal('TypeError', ('unhashable',)), node)
        if isinstance(obj, dict) and name in ('items', 'keys', 'values'):
            return getattr(obj, name)()         # a live view, as in Python (what is added to the dict later shows through it)
        if isinstance(obj, dict) and name == 'pop':
            if args[0] in obj:
                return obj.pop(args[0])
            if len(args) > 1:
                return args[1]
            raise AbsRaise(ExcVal('KeyError', (args[0],)), node)
        if isinstance(obj, dict) and name == 'update':
            for a in args:
                if isinstance(a, dict):
                    for k, v in a.items():
                        obj[k] = v
                elif isinstance(a, Instance) and hasattr(a, 'dict_data'):
                    obj.update(a.dict_data)
                else:
                    for k, v in interp.iterate(a, node):
                        obj[k] = v
            obj.update(kw)
            return None
        if isinstance(obj, dict) and name == 'setdefault':
            return obj.setdefault(args[0], args[1] if len(args) > 1 else None)
        if isinstance(obj, dict) and name == 'copy':
            return type(obj)(obj) if not isinstance(obj, DefaultDict) else dict(obj)
        if isinstance(obj, list) and name == 'extend':
            obj.extend(interp.iterate(args[0], node))
            return None
        if isinstance(obj, list) and name == 'index':
            from .models_np import eq_model
            for i, x in enumerate(obj):
                if x is args[0] or eq_model(M, interp, x, args[0], node):
                    return i
            raise AbsRaise(ExcVal('ValueError', ('not in list',)), node)
        if isinstance(obj, list) and name == 'remove':
            from .models_np import eq_model
            for i, x in enumerate(obj):
                if x is args[0] or eq_model(M, interp, x, args[0], node):
                    del obj[i]
                    return None
            raise AbsRaise(ExcVal('ValueError', ('list.remove(x): x not in list',)), node)
        if isinstance(obj, list) and name == 'sort':
            res = E['builtins.sorted'](interp, [obj], kw, node)
            obj[:] = res
            return None
        if isinstance(obj, str) and name == 'join':
            items = interp.iterate(args[0], node)
            if not all(isinstance(x, str) for x in items):
                raise AbsRaise(ExcVal('TypeError', ('sequence item: expected str instance',)), node)
            return obj.join(items)
        if isinstance(obj, str) and name == 'format':
            conv = lambda x: plain_for_format(M, interp, x, node)
            try:
                return obj.format(*[conv(a) for a in args], **{k: conv(v) for k, v in kw.items()})
            except (IndexError, KeyError, ValueError, TypeError) as e:
                raise AbsRaise(ExcVal(type(e).__name__, (str(e),)), node)
        if isinstance(obj, list) and name == 'pop':
            try:
                return obj.pop(*[concrete_int(M, a, node) for a in args])
            except IndexError:
                raise AbsRaise(ExcVal('IndexError', ('pop from empty list',)), node)
        try:
            return getattr(obj, name)(*args, **kw)
        except (KeyError, IndexError, ValueError, TypeError, AttributeError) as e:
            raise AbsRaise(ExcVal(type(e).__name__, (str(e),)), node)

    for pytype, names in PY_METHODS.items():
        for nm in names:
            MT[(pytype, nm)] = (lambda it, o, a, k, n, _nm=nm: _pymeth(it, o, _nm, a, k, n))

    # ---------------------------------------------------------------------------------------
    # array construction
    def from_sequence(interp, seq, node, dtype=None):
        """np.array(python sequence)"""
        els = []
        has_none = False
        codes = set()
        for x in seq:
            if x is None:
                els.append(El(NONE_EL, False))
                has_none = True
            elif isinstance(x, Masked):
                els.append(El(X.ANY, False))
            elif isinstance(x, (list, tuple, Vec)):
                if all(isinstance(y, (list, tuple, Vec)) for y in seq) and 'numpy.stack' in E:
                    return E['numpy.stack'](interp, [list(seq)], {}, node)     # np.array of rows: a plain 2-D ndarray
                raise AnalysisError('nested sequences (2-D input) not modelled', node)
            else:
                o = as_operand(x)
                if o is None:
                    if isinstance(x, str):
                        raise AnalysisError('string arrays not modelled', node)
                    raise AnalysisError(f'np.array of {type(x).__name__} not modelled', node)
                els.append(El(o[1], False))
                if getattr(x, 'abs_dtype', None) is not None:
                    codes.add(tuple(x.abs_dtype))
                elif isinstance(x, Sc):
                    codes.add((x.dtype, x.unit))
                elif isinstance(x, bool):
                    codes.add(('b1', None))
                elif isinstance(x, int):
                    codes.add(('i8', None))
                else:
                    codes.add(('f8', None))
        datelike = all(c == 'M8' for c, _ in codes) and (bool(codes) or has_none)
        if has_none:
            dt, unit = 'O', None
        elif not codes:
            dt, unit = 'f8', None
        elif len(codes) == 1:
            dt, unit = next(iter(codes))
        elif {c for c, _ in codes} <= {'f8', 'i8', 'b1', 'u1'}:
            dt, unit = 'f8', None
        else:
            dt, unit = 'O', None
        res = Vec.fresh(els, kind='nd', dtype=dt, unit=unit)
        res.datelike = datelike
        return res

    def to_array(interp, v, node, copy=True):
        """np.array(v): fresh ndarray.  Library fact (row 2): a MaskedArray argument loses its mask."""
        if isinstance(v, Vec):
            if v.kind == 'ma':
                interp.event('mask-dropped', node=node, any_masked=any(m is not False for m in v.masks()))
            out = Vec.fresh([El(e.d, False) for e in v.els()], kind='nd', dtype=v.dtype, unit=v.unit)
            out.narrow = getattr(v, 'narrow', False)
            return out
        if isinstance(v, Vec2):
            if v.kind == 'ma':
                interp.event('mask-dropped', node=node, any_masked=any(m is not False for r in v.rows for m in r.masks()))
            return Vec2([to_array(interp, r, node) for r in v.rows], v.width, 'nd', v.dtype)
        if isinstance(v, (list, tuple)):
            return from_sequence(interp, v, node)
        if isinstance(v, GenResult):
            raise AnalysisError('np.array of a generator', node)
        h = getattr(v, 'abs_to_array', None)
        if h is not None:
            return h(interp, node)
        o = as_operand(v)
        if o is not None:
            raise AnalysisError('0-d arrays not modelled', node)
        raise AnalysisError(f'np.array({type(v).__name__}) not modelled', node, where=_where(interp, node))

    M.to_array = to_array

    def astype(interp, v, dtype, node):
        code, unit = parse_dtype(interp, dtype, node)
        if isinstance(v, Masked):
            return MASKED
        if isinstance(v, Vec2):
            rows = [astype(interp, r, dtype, node) for r in v.rows]
            return Vec2(rows, v.width, v.kind, rows[0].dtype if rows else code)
        is_vec = isinstance(v, Vec)
        els = v.els() if is_vec else [El(v.d, False)]
        src, sunit = v.dtype, v.unit
        if code == 'f8' and src in ('i8', 'u1') and is_vec and any(X.data_atoms(e.d) for e in els if e.d not in (NONE_EL, OOB)):
            # integer data converted to float64: exact up to 2**53 only (recorded; the rules that care look for it)
            interp.event('int-to-float', node=node)
        out = []
        for e in els:
            d = e.d
            if d == OOB:
                raise AnalysisError('conversion of out-of-buffer memory', node)
            if code == 'f8':
                if d == NONE_EL:
                    d = X.NAN
                elif src in ('m8', 'M8') and d == X.NAN:
                    d = X.num(INT64_MIN)      # library fact: NaT is the integer INT64_MIN; cast to float it is -9.223372036854775808e18
                elif src == 'm8':
                    # value expressed in the unit of the timedelta dtype (data are kept in seconds)
                    if sunit not in UNIT_SECONDS:
                        raise AnalysisError(f'timedelta unit {sunit}', node)
                    d = X.scale(num_of_el(d), Fr(1) / UNIT_SECONDS[sunit])
                elif src == 'M8':
                    d = X.scale(num_of_el(d), Fr(1) / UNIT_SECONDS.get(sunit or 'ns', Fr(1, 10**9)))
                elif src == 'O' and not (X.is_num(d) or d[0] in ('x', 'lin', 'nan', 'any') or X.is_formula(d)):
                    raise AbsRaise(ExcVal('ValueError', ('could not convert to float',)), node)
                else:
                    d = num_of_el(d)
            elif code in ('i8', 'u1'):
                d = num_of_el(d) if d != NONE_EL else d
                if d == NONE_EL:
                    raise AbsRaise(ExcVal('TypeError', ('int() argument must be a number, not NoneType',)), node)
                if src in ('m8', 'M8') and d == X.NAN:
                    d = X.num(INT64_MIN)
                elif src == 'm8':
                    d = X.scale(d, Fr(1) / UNIT_SECONDS[sunit])
                d = trunc_expr(d, src)
                if code == 'u1' and X.is_num(d):
                    d = X.num(d[1] % 256)        # unsigned 8-bit wrap-around
            elif code == 'b1':
                d = bool_of_el(d)
            elif code == 'm8':
                if src not in ('m8', 'i8', 'f8'):
                    raise AbsRaise(ExcVal('TypeError', (f'cannot cast {src} to timedelta64',)), node)
                if unit not in UNIT_SECONDS:
                    raise AnalysisError(f'timedelta unit {unit!r} not modelled', node)
                if src == 'm8':
                    # truncation to a whole number of target units (library fact, row 6)
                    us = UNIT_SECONDS[unit]
                    if X.is_num(d):
                        d = X.num(trunc_fr(d[1] / us) * us)
                    elif d not in (X.NAN, X.ANY):
                        raise AnalysisError('symbolic timedelta conversion', node)
                else:
                    d = X.scale(num_of_el(d), UNIT_SECONDS[unit])
            elif code == 'M8':
                if unit not in UNIT_SECONDS and unit not in (None, 'generic'):
                    raise AnalysisError(f'datetime unit {unit!r} not modelled', node)
                us = UNIT_SECONDS.get(unit, Fr(1, 10**9))
                if src == 'M8':
                    # conversion to a coarser unit truncates the instant (floor) to a whole number of units
                    if us > UNIT_SECONDS.get(sunit or 'ns', Fr(1, 10**9)):
                        if X.is_num(d):
                            d = X.num(floor_fr(d[1] / us) * us)
                        elif d not in (X.NAN, X.ANY):
                            d = X.scale(X.fn('floor', X.scale(d, Fr(1) / us)), us)
                elif src in ('f8', 'i8', 'u1') and unit in UNIT_SECONDS:
                    # number of <unit>s since the epoch; a float is truncated to a whole number of units
                    if X.is_num(d):
                        d = X.num(trunc_fr(d[1]) * us)
                    elif d == X.NAN:
                        d = X.NAN
                    elif d != X.ANY:
                        d = X.scale(X.fn('trunc', d), us) if src == 'f8' else X.scale(d, us)
                elif src == 'O' and getattr(v, 'datelike', False):
                    if d == NONE_EL:
                        d = X.NAN      # NaT
                elif src == 'O':
                    raise AbsRaise(ExcVal('ValueError', ('Could not convert object to NumPy datetime',)), node)
                else:
                    raise AnalysisError(f'astype datetime64 from {src} not modelled', node)
            elif code == 'O':
                pass
            out.append(El(d, e.m))
        if is_vec:
            kind = v.kind
            if kind == 'dtindex' and code != 'M8':
                kind = 'index'
            res = v.like(out, dtype=code, unit=unit if code in ('m8', 'M8') else None, kind=kind)
            # an explicit cast decides the width: float64 widens, float32 / float16 narrow
            res.narrow = code == 'f8' and is_narrow_float(dtype)
            return res
        return Sc(out[0].d, code, unit if code in ('m8', 'M8') else None)

    @meth(Vec, 'astype')
    def _v_astype(interp, v, args, kw, node):
        if 'casting' in kw or kw.get('subok', True) is not True or kw.get('order', 'K') not in ('K', 'C', 'A', 'F'):
            raise AnalysisError('astype(casting= / subok=False) not modelled', node)
        dt = kwarg(args, kw, 0, 'dtype')
        if len(args) > 1:
            raise AnalysisError('astype with positional order / casting arguments not modelled', node)
        copy = kw.get('copy', True)
        if copy is not True and copy is not False:
            raise AnalysisError('astype(copy=) with a non-boolean not modelled', node)
        if copy is False and v.kind in ('nd', 'ma') and v.sel_mask is None:
            # library fact: astype(t, copy=False) hands back the array itself when it already has dtype t (no copy: stores show through)
            code, unit = parse_dtype(interp, dt, node)
            if code == v.dtype and (code not in ('M8', 'm8') or unit in (None, 'generic') or unit == v.unit) and not v.narrow:
                return v
        return astype(interp, v, dt, node)

    @meth(Sc, 'astype')
    def _s_astype(interp, v, args, kw, node):
        return astype(interp, v, kwarg(args, kw, 0, 'dtype'), node)

    @meth(Masked, 'astype')
    def _m_astype(interp, v, args, kw, node):
        return MASKED

    @meth(Masked, 'any', 'all')
    def _m_any(interp, v, args, kw, node):
        return MASKED

    @meth(Sc, 'item')
    def _s_item(interp, v, args, kw, node):
        return v.value() if v.concrete() else v

    @ext('numpy.asarray', 'numpy.asanyarray')
    def _np_asarray(interp, args, kw, node):
        """np.asarray returns its argument itself (no copy) when it already is an ndarray of the requested dtype (row 1)"""
        src = args[0] if args else kw.get('a')
        dt = kwarg(args, kw, 1, 'dtype')
        if isinstance(src, Vec) and src.kind in ('nd', 'ma'):
            same = dt is None
            if dt is not None:
                code, unit = parse_dtype(interp, dt, node)
                same = code == src.dtype and (code not in ('M8', 'm8') or unit == src.unit)
            if same and (src.kind == 'nd' or getattr(node, 'func', None) is not None and getattr(node.func, 'attr', '') == 'asanyarray'):
                return src
            if same and src.kind == 'ma':
                # library fact: np.asarray(masked_array) is a plain-ndarray *view* of its data buffer (no copy, the mask is left behind)
                interp.event('mask-dropped', node=node, any_masked=any(m is not False for m in src.masks()))
                out = Vec(src.back, list(src.idx), 'nd', src.dtype, src.unit)
                out.ro = getattr(src, 'ro', False)
                return out
        out = _np_array(interp, args, kw, node)
        if isinstance(src, Vec) and src.kind == 'series' and dt is None and isinstance(out, Vec):
            out.ro = PANDAS_COW      # np.asarray(Series) is Series.to_numpy(): read-only under Copy-on-Write (an Index converts to a fresh array)
        return out

    @ext('numpy.datetime_data')
    def _datetime_data(interp, args, kw, node):
        code, unit = parse_dtype(interp, args[0], node)
        if code not in ('M8', 'm8'):
            raise AbsRaise(ExcVal('TypeError', ('cannot get datetime metadata from non-datetime type',)), node)
        return (unit or 'generic', 1)

    @ext('numpy.array')
    def _np_array(interp, args, kw, node):
        if kw.get('copy', True) is not True or kw.get('subok', False) is not False or kw.get('ndmin', 0) not in (0, 1) or kw.get('order', 'K') not in ('K', 'C', 'A', 'F') \
                or kw.get('like') is not None:
            raise AnalysisError('np.array(copy=False / subok=True / ndmin>1) not modelled', node)
        src = args[0] if args else kw.get('object', kw.get('a'))
        res = to_array(interp, src, node)
        dt = kwarg(args, kw, 1, 'dtype')
        if dt is not None:
            res = astype(interp, res, dt, node)
        return res

    @ext('numpy.copy')
    def _np_copy(interp, args, kw, node):
        v = args[0]
        if isinstance(v, Vec):
            return v.copy(kind='nd') if v.kind == 'ma' else v.copy()
        return to_array(interp, v, node)

    @ext('numpy.ma.masked_invalid')
    def _masked_invalid(interp, args, kw, node):
        v = args[0]
        if isinstance(v, Vec2):
            rows = [_masked_invalid(interp, [r], {}, node) for r in v.rows]
            return Vec2(rows, v.width, 'ma', v.dtype)
        if not isinstance(v, Vec):
            v = to_array(interp, v, node)
        if v.dtype == 'O':
            raise AbsRaise(ExcVal('TypeError', ("ufunc 'isfinite' not supported for the input types (object array)",)), node)
        out = []
        for e in v.els():
            if e.d == OOB:
                interp.event('oob-read', node=node)
                raise AbsRaise(ExcVal('OutOfBoundsRead', ('numpy would silently read memory outside the array buffer here (as_strided view larger than the data)',)), node)
            bad = e.d == X.NAN or (isinstance(e.d, tuple) and e.d[0] == 'fn' and e.d[1] == 'inf')
            if v.dtype == 'M8' and e.d == X.NAN:
                bad = True     # NaT
            out.append(El(e.d, m_or(e.m, bad)))
        res = Vec.fresh(out, kind='ma', dtype=v.dtype, unit=v.unit)
        res.tz = v.tz
        res.narrow = getattr(v, 'narrow', False)
        copy = kw.get('copy', args[1] if len(args) > 1 else True)
        if copy is False and isinstance(args[0], Vec) and args[0].kind in ('nd', 'ma'):
            # copy=False: the masked array wraps the caller's data buffer - a store into it is a store into the argument
            res.back.owner = args[0].back.owner
            res.ro = getattr(args[0], 'ro', False)
        return res

    def alloc(interp, shape, value, dtype, kind, node):
        code = parse_dtype(interp, dtype, node)[0] if dtype is not None else None
        if isinstance(shape, Vec) or isinstance(shape, GenResult):
            raise AnalysisError('array used as shape', node)
        if isinstance(shape, (tuple, list)):
            dims = [concrete_int(M, s, node) for s in shape]
        else:
            dims = [concrete_int(M, shape, node)]
        if any(d < 0 for d in dims):
            raise AbsRaise(ExcVal('ValueError', ('negative dimensions are not allowed',)), node)
        if code is None:
            code = 'b1' if isinstance(value, bool) else ('i8' if isinstance(value, int) else 'f8')
        if value is UNINIT:
            e = El(('uninit',), False)
        else:
            o = as_operand(value)
            if o is None:
                raise AnalysisError('fill value not modelled', node)
            d = o[1]
            e = El(bool_of_el(d) if code == 'b1' else num_of_el(d), False)
        if len(dims) == 1:
            return Vec.fresh([e] * dims[0], kind=kind, dtype=code)
        if len(dims) == 2:
            rows = [Vec.fresh([e] * dims[1], kind=kind, dtype=code) for _ in range(dims[0])]
            return Vec2(rows, dims[1], kind, code)
        raise AnalysisError('>2-D allocation not modelled', node)

    UNINIT = object()

    def _alloc_fn(value, kind):
        def f(interp, args, kw, node):
            shape = kwarg(args, kw, 0, 'shape')
            return alloc(interp, shape, value, kwarg(args, kw, 1, 'dtype'), kind, node)
        return f
    E['numpy.ones'] = _alloc_fn(1, 'nd')
    E['numpy.zeros'] = _alloc_fn(0, 'nd')
    E['numpy.empty'] = _alloc_fn(UNINIT, 'nd')
    E['numpy.ma.ones'] = _alloc_fn(1, 'ma')
    E['numpy.ma.zeros'] = _alloc_fn(0, 'ma')
    E['numpy.ma.empty'] = _alloc_fn(UNINIT, 'ma')

    @ext('numpy.full')
    def _full(interp, args, kw, node):
        return alloc(interp, kwarg(args, kw, 0, 'shape'), kwarg(args, kw, 1, 'fill_value'), kwarg(args, kw, 2, 'dtype'), 'nd', node)

    @ext('numpy.ma.masked_all')
    def _masked_all(interp, args, kw, node):
        v = alloc(interp, kwarg(args, kw, 0, 'shape'), UNINIT, kwarg(args, kw, 1, 'dtype', 'f8'), 'ma', node)
        for i in range(len(v)):
            v.set(i, El(('uninit',), True))
        return v

    def _like_fn(value, kind_override=None):
        def f(interp, args, kw, node):
            proto = args[0] if args else kw.get('prototype', kw.get('a'))
            if isinstance(proto, dict):
                raise AbsRaise(ExcVal('TypeError', ('*_like of a dict is a 0-d object array; boolean use fails downstream',)), node)
            if not isinstance(proto, Vec):
                proto = to_array(interp, proto, node)
            val = value
            if value is FILLARG:
                val = kwarg(args, kw, 1, 'fill_value')
            dt = kw.get('dtype', args[2] if (value is FILLARG and len(args) > 2) else (args[1] if (value is not FILLARG and len(args) > 1) else None))
            dtype = dt if dt is not None else DType(proto.dtype, proto.unit)
            if kw.get('shape') is not None or kw.get('order', 'K') not in ('K', 'C', 'A', 'F'):
                raise AnalysisError('*_like(shape=) not modelled', node)
            subok = kw.get('subok', True)
            if subok is not True and subok is not False:
                raise AnalysisError('*_like(subok=) with a non-boolean not modelled', node)
            kind = kind_override or ('ma' if proto.kind == 'ma' and subok else 'nd')
            return alloc(interp, len(proto), val, dtype, kind, node)
        return f
    FILLARG = object()
    E['numpy.ones_like'] = _like_fn(1)
    E['numpy.zeros_like'] = _like_fn(0)
    E['numpy.empty_like'] = _like_fn(UNINIT)
    E['numpy.full_like'] = _like_fn(FILLARG)
    E['numpy.ma.empty_like'] = _like_fn(UNINIT, 'ma')
    E['numpy.ma.ones_like'] = _like_fn(1, 'ma')
    E['numpy.ma.zeros_like'] = _like_fn(0, 'ma')

    @ext('numpy.ma.array', 'numpy.ma.masked_array', 'numpy.ma.MaskedArray', 'numpy.ma.core.MaskedArray')
    def _ma_array(interp, args, kw, node):
        """np.ma.array(data, mask=...) — default copy=False: shares the data buffer (row 1)"""
        data = kwarg(args, kw, 0, 'data')
        mask = kw.get('mask', False)
        if kw.get('keep_mask', True) is not True or kw.get('hard_mask') not in (None, False) or kw.get('shrink', True) is not True \
                or kw.get('subok', True) is not True or kw.get('ndmin', 0) not in (0, 1) or kw.get('order') not in (None, 'K', 'C', 'A', 'F'):
            raise AnalysisError('np.ma.array(keep_mask=False / hard_mask=True / shrink=False ...) not modelled', node)
        if isinstance(data, Vec2):
            return Vec2([_ma_array(interp, [r], {}, node) for r in data.rows], data.width, 'ma', data.dtype)
        if isinstance(data, Vec):
            base = data
            els = base.els()
        else:
            base = to_array(interp, data, node)
            els = base.els()
        if isinstance(mask, Vec):
            if len(mask) != len(els):
                raise AbsRaise(ExcVal('ValueError', ('mask and data not compatible',)), node)
            ms = []
            for e in mask.els():
                f = bool_of_el(e.d)
                if f not in (X.TRUE, X.FALSE):
                    raise AnalysisError('mask= with undecided condition', node)
                ms.append(f == X.TRUE)
        elif mask is False or mask is None:
            ms = [False] * len(els)
        elif mask is True:
            ms = [True] * len(els)
        elif isinstance(mask, (ModelMethod, PyCallable, FuncVal, BoundMethod)):
            # library fact: np.ma.array(x, mask=<any object>) converts the object with np.array(obj, dtype=bool): a method / function is True,
            # broadcast over the data - everything is masked
            ms = [True] * len(els)
        else:
            raise AnalysisError('mask= form not modelled', node)
        out = Vec.fresh([El(e.d, m_or((e.m if base.kind == 'ma' else False), m)) for e, m in zip(els, ms)],
                        kind='ma', dtype=base.dtype, unit=base.unit)
        if 'fill_value' in kw:
            out._fill = kw['fill_value'] if not isinstance(kw['fill_value'], Sc) else kw['fill_value'].value()
        if isinstance(data, Vec) and data.kind in ('nd', 'ma') and kw.get('copy', False) is not True and kw.get('dtype') is None:
            out.back.owner = data.back.owner      # default copy=False: the data buffer is the argument's
            out.ro = getattr(data, 'ro', False)
        return out

    # ---------------------------------------------------------------------------------------
    # array methods
    @meth(Vec, 'flatten', 'copy', 'compressed')
    def _flatten(interp, v, args, kw, node):
        if kw.get('order', args[0] if args and isinstance(args[0], str) else 'C') not in ('C', 'K', 'A', 'F'):
            raise AnalysisError('flatten / copy (order=) form not modelled', node)
        if node is not None and getattr(node, 'func', None) is not None and getattr(node.func, 'attr', '') == 'compressed':
            return Vec.fresh([El(e.d, False) for e in v.els() if not m_conc(e.m, node, 'compressed()')], kind='nd', dtype=v.dtype, unit=v.unit)
        return v.copy()

    @meth(Vec, 'ravel', 'squeeze')
    def _ravel(interp, v, args, kw, node):
        if kw.get('order', args[0] if args and isinstance(args[0], str) else 'C') not in ('C', 'K', 'A', 'F') or 'axis' in kw:
            raise AnalysisError('ravel / squeeze with these arguments not modelled', node)
        return v.view(list(v.idx))

    @meth(Vec, 'view')
    def _view(interp, v, args, kw, node):
        """ndarray.view(dtype): the same memory read as another dtype.  Modelled: no dtype (alias), the same dtype, and the 8-byte
        integer behind datetime64 / timedelta64 (the count of the array's *own unit*), which is where unit assumptions show."""
        d = args[0] if args else kw.get('dtype')
        if d is None and 'type' not in kw:
            return v.view(list(v.idx))
        t = kw.get('type', d)
        if isinstance(t, ExtRef) and t.path in ('numpy.ma.MaskedArray', 'numpy.ma.masked_array', 'numpy.ma.core.MaskedArray'):
            # ndarray.view(MaskedArray): a masked array (mask = nomask) over the same memory; the plain array stays its data
            if v.kind == 'ma':
                return v.view(list(v.idx))
            if v.kind != 'nd' or any(e.m is not False for e in v.els()):
                raise AnalysisError('view as MaskedArray of this array not modelled', node)
            out = v.view(list(v.idx), kind='ma', dview=False)
            v.dview = True
            return out
        if isinstance(t, ExtRef) and t.path == 'numpy.ndarray' and v.kind == 'nd':
            return v.view(list(v.idx))
        code, unit = parse_dtype(interp, d, node)
        if code == v.dtype and (unit in (None, 'generic') or unit == v.unit):
            return v.view(list(v.idx))
        if v.dtype in ('M8', 'm8') and code == 'i8':
            us = UNIT_SECONDS.get(v.unit or 'ns')
            if us is None:
                raise AnalysisError(f'view of datetime unit {v.unit}', node)
            return Vec.fresh([El(X.ANY if e.d in (X.NAN, X.ANY) else X.scale(num_of_el(e.d), Fr(1) / us), e.m) for e in v.els()], kind=v.kind if v.kind in ('nd', 'ma') else 'nd', dtype='i8')
        if v.dtype == 'i8' and code in ('M8', 'm8'):
            us = UNIT_SECONDS.get(unit or 'ns')
            if us is None:
                raise AnalysisError(f'view as datetime unit {unit}', node)
            return Vec.fresh([El(X.scale(num_of_el(e.d), us), e.m) for e in v.els()], kind='nd', dtype=code, unit=unit or 'ns')
        raise AnalysisError(f'ndarray.view from {v.dtype} to {code} (reinterpreting memory) not modelled', node)

    @meth(Vec, 'reshape')
    def _reshape(interp, v, args, kw, node):
        shape = args[0] if len(args) == 1 else tuple(args)
        if isinstance(shape, (int, Fr, Sc)):
            shape = (shape,)
        dims = [concrete_int(M, s, node) for s in shape]
        if len(dims) == 0:
            if len(v) != 1:
                raise AbsRaise(ExcVal('ValueError', (f'cannot reshape array of size {len(v)} into shape ()',)), node)
            raise AnalysisError('reshape to 0-d not modelled', node)
        if len(dims) == 2:
            r_, c_ = dims
            if r_ == -1 and c_ > 0 and len(v) % c_ == 0:
                r_ = len(v) // c_
            if c_ == -1 and r_ > 0 and len(v) % r_ == 0:
                c_ = len(v) // r_
            if r_ < 0 or c_ < 0 or r_ * c_ != len(v):
                raise AbsRaise(ExcVal('ValueError', (f'cannot reshape array of size {len(v)} into shape {tuple(dims)}',)), node)
            # C order: row i is the view of elements i*c .. (i+1)*c-1 (shares the buffer, like numpy)
            return Vec2([v.view(list(v.idx[i * c_:(i + 1) * c_])) for i in range(r_)], c_, v.kind, v.dtype)
        if len(dims) != 1:
            raise AnalysisError('reshape to more than two dimensions not modelled', node)
        if dims[0] != -1 and dims[0] != len(v):
            raise AbsRaise(ExcVal('ValueError', (f'cannot reshape array of size {len(v)} into shape ({dims[0]},)',)), node)
        return v.view(list(v.idx))

    @meth(Vec, 'fill')
    def _fill(interp, v, args, kw, node):
        M.store(interp, v, slice(None), args[0], node)
        if v.kind == 'ma':
            for i in range(len(v)):
                e = v.el(i)
                if e.m:
                    pass
        return None

    @meth(Vec, 'count')
    def _count(interp, v, args, kw, node):
        if v.kind == 'series':
            return sum(1 for e in v.els() if e.d != X.NAN)
        return sum(1 for e in v.els() if not m_conc(e.m, node, 'count()'))

    @meth(Vec, 'any')
    def _vany(interp, v, args, kw, node):
        els = [e for e in v.els() if not m_conc(e.m, node, 'any()')]
        if v.kind == 'ma' and not els and len(v):
            return MASKED
        return mkbool(X.f_or(*[bool_of_el(e.d) for e in els])) if els else False

    @meth(Vec, 'all')
    def _vall(interp, v, args, kw, node):
        els = [e for e in v.els() if not m_conc(e.m, node, 'all()')]
        if v.kind == 'ma' and not els and len(v):
            return MASKED
        return mkbool(X.f_and(*[bool_of_el(e.d) for e in els])) if els else True

    @meth(Vec, 'filled')
    def _filled(interp, v, args, kw, node):
        return E['numpy.ma.filled'](interp, [v] + list(args), kw, node)

    @meth(Vec, 'to_numpy')
    def _to_numpy(interp, v, args, kw, node):
        """Series / Index .to_numpy() hands out a view of the underlying buffer when no conversion is needed (row 1: may alias)"""
        if kw.get('copy') or args[:1] and args[0] is not None and False:
            return Vec.fresh([El(e.d, False) for e in v.els()], kind='nd', dtype=v.dtype, unit=v.unit)
        if v.kind in ('series', 'index', 'dtindex') and all(e.m is False for e in v.els()):
            out = Vec(v.back, list(v.idx), 'nd', v.dtype, v.unit)
            out.ro = PANDAS_COW      # pandas >= 3 (Copy-on-Write): the array handed out is a read-only view
            return out
        out = Vec.fresh([El(e.d, False) for e in v.els()], kind='nd', dtype=v.dtype, unit=v.unit)
        out.ro = PANDAS_COW and v.kind in ('series', 'index', 'dtindex')
        return out

    @meth(Vec, 'tolist')
    def _tolist(interp, v, args, kw, node):
        return interp.iterate(v, node)

    @meth(Vec, 'to_series')
    def _to_series(interp, v, args, kw, node):
        if v.kind not in ('index', 'dtindex'):
            raise AbsRaise(ExcVal('AttributeError', ('to_series',)), node)
        return v.copy(kind='series', index=v.copy())

    @meth(Vec, 'sort')
    def _vsort(interp, v, args, kw, node):
        if v.back.owner is not None:
            interp.event('mutation', owner=v.back.owner, what='.sort()', node=node)
        raise AnalysisError('in-place sort of an array is outside the modelled subset', node)

    @meth(Vec, 'isocalendar')
    def _isocal(interp, v, args, kw, node):
        if v.kind != 'dtindex':
            raise AbsRaise(ExcVal('AttributeError', ('isocalendar',)), node)
        return IsoCal(period_feature(interp, v, 'week', node))

    def series_index_zone(interp, v, node):
        # library fact (pandas 3.0.5): Series.tz_localize / tz_convert act on the *index* of the Series, not on its values (those go through
        # .dt): "TypeError: index is not a valid DatetimeIndex or PeriodIndex" unless the Series is indexed by time
        ix = getattr(v, 'index', None)
        if not (isinstance(ix, Vec) and ix.dtype == 'M8'):
            raise AbsRaise(ExcVal('TypeError', ('index is not a valid DatetimeIndex or PeriodIndex',)), node)
        raise AnalysisError('time zone of the index of a Series not modelled', node)

    @meth(Vec, 'tz_localize')
    def _tzl(interp, v, args, kw, node):
        if v.kind == 'series':
            series_index_zone(interp, v, node)
        if v.kind not in ('dtindex', 'index') or v.dtype != 'M8':
            raise AnalysisError(f'tz_localize on {v.kind}/{v.dtype} not modelled', node)
        tz = args[0] if args else kw.get('tz')
        if tz is not None and v.tz is not None:
            raise AbsRaise(ExcVal('TypeError', ('Already tz-aware, use tz_convert to convert.',)), node)
        return v.copy(tz=tz)

    @meth(Vec, 'tz_convert')
    def _tzc(interp, v, args, kw, node):
        if v.kind == 'series':
            series_index_zone(interp, v, node)
        tz = args[0] if args else kw.get('tz')
        if v.tz is None:
            raise AbsRaise(ExcVal('TypeError', ('Cannot convert tz-naive timestamps, use tz_localize to localize',)), node)
        if v.tz != 'UTC' or tz not in (None, 'UTC', 'utc'):
            raise AnalysisError('tz_convert between zones other than UTC is not modelled', node)
        return v.copy(tz=None if tz is None else 'UTC')

    # ---------------------------------------------------------------------------------------
    # elementwise numpy functions
    def as_vec(interp, v, node):
        if isinstance(v, Vec):
            return v
        if isinstance(v, (list, tuple)):
            return to_array(interp, v, node)
        return None

    def unary_ufunc(fn_expr, ma_operator=False, out_dtype=None, floating=False):
        def f(interp, args, kw, node, out_dtype=out_dtype):
            if len(args) > 1 or any(k in kw for k in ('out', 'where', 'dtype', 'casting')):
                raise AnalysisError('ufunc called with out= / where= / dtype= not modelled', node)
            v = args[0]
            vv = as_vec(interp, v, node)
            if floating and out_dtype is None:
                # library fact: sqrt / floor / ceil / trunc / rint / fabs of an integer or boolean array are float64 (datetimes are refused)
                src = vv.dtype if vv is not None else (v.dtype if isinstance(v, Sc) else None)
                if src in ('i8', 'u1', 'b1'):
                    out_dtype = 'f8'
                elif src in ('M8', 'm8', 'O'):
                    raise AnalysisError(f'floating-point ufunc on dtype {src} not modelled', node)
            if vv is None:
                o = as_operand(v)
                if o is None:
                    raise AnalysisError(f'ufunc argument {type(v).__name__} not modelled', node)
                if o[2]:
                    return MASKED
                d = fn_expr(num_of_el(o[1]))
                if X.is_formula(d):
                    return mkbool(d)
                return Sc(d, out_dtype or (v.dtype if isinstance(v, Sc) else 'f8'), getattr(v, 'unit', None))
            out = []
            for e in vv.els():
                if e.d == NONE_EL:
                    raise AbsRaise(ExcVal('TypeError', ('ufunc on None',)), node)
                if e.d == OOB:
                    raise AnalysisError('ufunc reads memory outside the buffer', node)
                if e.m is True and ma_operator:
                    out.append(e)
                else:
                    out.append(El(fn_expr(num_of_el(e.d)), e.m))
            res = vv.like(out, dtype=out_dtype or vv.dtype, kind=('nd' if vv.kind in ('index', 'dtindex') else vv.kind))
            res.sel_mask = vv.sel_mask
            return res
        return f

    E['numpy.abs'] = E['numpy.absolute'] = unary_ufunc(X.abs_)
    E['numpy.fabs'] = unary_ufunc(X.abs_, floating=True)
    E['numpy.ma.abs'] = E['numpy.ma.absolute'] = E['numpy.ma.abs_operator'] = unary_ufunc(X.abs_, ma_operator=True)
    E['numpy.sign'] = unary_ufunc(X.sign)
    E['numpy.negative'] = unary_ufunc(X.neg)
    def _rounder(pyfn, name):
        def f(d):
            if X.is_num(d):
                return X.num(pyfn(d[1]))
            if d in (X.NAN, X.ANY):
                return d
            return X.fn(name, d)
        return f
    E['numpy.rint'] = unary_ufunc(_rounder(lambda v: Fr(round(v)), 'rint'), floating=True)
    _round0 = unary_ufunc(_rounder(lambda v: Fr(round(v)), 'rint'))
    def _round(interp, args, kw, node):
        # np.round(x) / np.around(x): to zero decimals only (a `decimals` argument is refused); integers stay integers
        dec = kwarg(args, kw, 1, 'decimals', 0)
        if dec != 0 or 'out' in kw:
            raise AnalysisError('np.round(decimals != 0) not modelled', node)
        return _round0(interp, args[:1], {}, node)
    E['numpy.round'] = E['numpy.around'] = E['numpy.round_'] = _round
    E['numpy.floor'] = unary_ufunc(_rounder(floor_fr, 'floor'), floating=True)
    E['numpy.ceil'] = unary_ufunc(_rounder(lambda v: Fr(math.ceil(v)), 'ceil'), floating=True)
    E['numpy.trunc'] = E['numpy.fix'] = unary_ufunc(_rounder(trunc_fr, 'trunc'), floating=True)
    E['numpy.sqrt'] = unary_ufunc(lambda d: X.fn('sqrt', d) if not (X.is_num(d) and d[1] in (0, 1)) else d, floating=True)
    E['numpy.square'] = unary_ufunc(lambda d: X.mul(d, d))
    E['numpy.isnan'] = unary_ufunc(lambda d: X.TRUE if d == X.NAN else (X.UNK if d == X.ANY else X.FALSE), out_dtype='b1')
    E['numpy.isfinite'] = unary_ufunc(lambda d: X.FALSE if d == X.NAN else (X.UNK if d == X.ANY else X.TRUE), out_dtype='b1')
    E['numpy.logical_not'] = unary_ufunc(lambda d: X.f_not(bool_of_el(d)), out_dtype='b1')

    def binary_ufunc(fn_expr, out_dtype=None, boolean=False, arith=None):
        def f(interp, args, kw, node):
            from .models_np import broadcast, result_kind
            if len(args) > 2 or any(k in kw for k in ('out', 'where', 'dtype', 'casting')):
                raise AnalysisError('ufunc called with out= / where= / dtype= not modelled', node)
            a, b = args[0], args[1]
            a = as_vec(interp, a, node) or a
            b = as_vec(interp, b, node) or b
            dt_unit = None
            if arith is not None:
                # the arithmetic ufuncs type their result like the operators do (datetime64 - datetime64 = timedelta64 ...)
                from .models_np import arith_dtype, dtype_of, note_int_arith
                note_int_arith(interp, (a, b), node)
                (da, ua), (db, ub) = dtype_of(a), dtype_of(b)
                dt_unit = arith_dtype(arith, a, b, node)
                if 'M8' in (da, db) or 'm8' in (da, db):
                    if da in ('M8', 'm8') and db in ('M8', 'm8') and (ua or 'ns') != (ub or 'ns'):
                        raise AnalysisError('ufunc on datetimes of different units not modelled', node)
                    if dt_unit[0] in ('M8', 'm8'):
                        dt_unit = (dt_unit[0], (ua if da in ('M8', 'm8') else ub) or 'ns')
            pairs, tmpl = broadcast(interp, a, b, node)
            out = []
            for ea, eb in pairs:
                for e in (ea, eb):
                    if e.d == NONE_EL:
                        raise AbsRaise(ExcVal('TypeError', ('ufunc on None',)), node)
                if boolean:
                    d = fn_expr(bool_of_el(ea.d), bool_of_el(eb.d))
                else:
                    d = fn_expr(num_of_el(ea.d), num_of_el(eb.d))
                out.append(El(d, m_or(ea.m, eb.m)))
            check_oob(interp, [e for p in pairs for e in p], node)
            if tmpl is None:
                e = out[0]
                if m_conc(e.m, node, 'scalar result'):
                    return MASKED
                return mkbool(e.d) if X.is_formula(e.d) else Sc(e.d)
            kind = result_kind(a, b)
            from .models_np import with_sel
            if dt_unit is not None:
                return with_sel(Vec.fresh(out, kind=kind, dtype=out_dtype or dt_unit[0], unit=dt_unit[1]), a, b)
            return with_sel(Vec.fresh(out, kind=kind, dtype=out_dtype or tmpl.dtype, unit=tmpl.unit), a, b)
        return f

    def ma_binary(op):
        """np.ma.subtract / true_divide ...: the function the masked array's own operator calls"""
        def f(interp, args, kw, node):
            if len(args) != 2 or kw:
                raise AnalysisError('np.ma arithmetic function with extra arguments not modelled', node)
            a, b = args
            if not any(isinstance(x, Vec) and x.kind == 'ma' for x in (a, b)):
                raise AnalysisError('np.ma arithmetic function on unmasked operands (domain masking) not modelled', node)
            return M.binop(interp, op, a, b, node)
        return f
    E['numpy.ma.subtract'] = ma_binary('Sub')
    E['numpy.ma.add'] = ma_binary('Add')
    E['numpy.ma.multiply'] = ma_binary('Mult')
    E['numpy.ma.true_divide'] = E['numpy.ma.divide'] = ma_binary('Div')

    E['numpy.minimum'] = E['numpy.fmin'] = binary_ufunc(lambda x, y: X.min_(x, y))
    E['numpy.maximum'] = E['numpy.fmax'] = binary_ufunc(lambda x, y: X.max_(x, y))
    E['numpy.subtract'] = binary_ufunc(X.sub, arith='Sub')
    E['numpy.add'] = binary_ufunc(X.add, arith='Add')
    E['numpy.multiply'] = binary_ufunc(X.mul, arith='Mult')
    E['numpy.divide'] = E['numpy.true_divide'] = binary_ufunc(X.div, arith='Div')
    E['numpy.logical_and'] = binary_ufunc(X.f_and, out_dtype='b1', boolean=True)
    E['numpy.logical_or'] = binary_ufunc(X.f_or, out_dtype='b1', boolean=True)
    @ext('numpy.isclose')
    def _isclose(interp, args, kw, node):
        """|a - b| <= atol + rtol * |b|  (rtol defaults to 1e-5, atol to 1e-8)"""
        rtol = M.conc_num(kwarg(args, kw, 2, 'rtol', Fr(1, 100000)), node)
        atol = kwarg(args, kw, 3, 'atol', Fr(1, 10**8))
        ao = as_operand(atol)
        if ao is None:
            raise AnalysisError('isclose atol not modelled', node)
        f = binary_ufunc(lambda x, y: X.cmp('le', X.abs_(X.sub(x, y)), X.add(num_of_el(ao[1]), X.scale(X.abs_(y), rtol))), out_dtype='b1')
        return f(interp, args[:2], {}, node)

    def cmp_ufunc(op):
        """np.less(a, b) ...: the ordering comparisons are the ufuncs the operators call (the same events are recorded: what observations are
        compared with is a structural obligation of the decision rules); lists are converted first"""
        def f(interp, args, kw, node):
            if len(args) != 2 or kw:
                raise AnalysisError('comparison ufunc with out= / where= not modelled', node)
            a, b = (as_vec(interp, x, node) or x for x in args)
            if not any(isinstance(x, (Vec, Sc)) for x in (a, b)):
                raise AnalysisError('comparison ufunc on plain Python values not modelled', node)
            return M.compare(interp, op, a, b, node)
        return f
    E['numpy.greater'] = cmp_ufunc('Gt')
    E['numpy.less'] = cmp_ufunc('Lt')
    E['numpy.greater_equal'] = cmp_ufunc('GtE')
    E['numpy.less_equal'] = cmp_ufunc('LtE')

    @ext('numpy.ma.filled')
    def _ma_filled(interp, args, kw, node):
        v = args[0]
        fv = kwarg(args, kw, 1, 'fill_value')
        if not isinstance(v, Vec):
            return v
        if v.kind != 'ma':
            return v
        if fv is None:
            fv = getattr(v, '_fill', None)
            if fv is None:
                fv = True if v.dtype == 'b1' else 10**20
        o = as_operand(fv)
        d = bool_of_el(o[1]) if v.dtype == 'b1' else num_of_el(o[1])
        return Vec.fresh([El(d, False) if e.m is True else (El(e.d, False) if e.m is False else El(X.ite(m_formula(e.m), d, e.d), False)) for e in v.els()],
                         kind='nd', dtype=v.dtype, unit=v.unit)

    @ext('numpy.diff', 'numpy.ma.diff')
    def _diff(interp, args, kw, node):
        """np.diff(x)[i] = x[i+1] - x[i] through the subtract ufunc: f(data) everywhere, mask union (row 6)"""
        v = as_vec(interp, args[0], node)
        if v is None:
            raise AnalysisError('np.diff argument not modelled', node)
        if kwarg(args, kw, 1, 'n', 1) != 1:
            raise AnalysisError('np.diff(n != 1) not modelled', node)
        if kwarg(args, kw, 2, 'axis', -1) not in (-1, 0) or kw.get('prepend') is not None or kw.get('append') is not None:
            raise AnalysisError('np.diff(axis= / prepend= / append=) beyond the 1-d default not modelled', node)
        if v.dtype == 'O':
            if any(e.d == NONE_EL for e in v.els()) and len(v) > 1:
                raise AbsRaise(ExcVal('TypeError', ("unsupported operand type(s) for -: 'NoneType'",)), node)
        els = v.els()
        check_oob(interp, els, node)
        from .models_np import note_int_arith
        note_int_arith(interp, (v,), node)
        out = []
        for i in range(len(els) - 1):
            a, b = els[i + 1], els[i]
            if v.dtype == 'b1':
                d = X.f_xor(bool_of_el(a.d), bool_of_el(b.d))
            else:
                d = X.sub(num_of_el(a.d), num_of_el(b.d))
            out.append(El(d, m_or(a.m, b.m)))
        dt, unit = v.dtype, v.unit
        if dt == 'M8':
            dt, unit = 'm8', (v.unit or 'ns')
        if dt == 'u1':
            dt = 'u1'
        kind = 'nd' if v.kind in ('index', 'dtindex', 'series') else v.kind
        return Vec.fresh(out, kind=kind, dtype=dt, unit=unit)

    @ext('numpy.insert')
    def _insert(interp, args, kw, node):
        arr, pos, vals = args[0], args[1], args[2]
        arr = as_vec(interp, arr, node)
        p = concrete_int(M, pos, node)
        if isinstance(vals, Vec):
            new = vals.els()
        else:
            from .models_np import as_el
            new = [as_el(M, vals, node)]
        n = len(arr)
        if p < 0:
            p += n
        if p < 0 or p > n:
            raise AbsRaise(ExcVal('IndexError', ('insert index out of bounds',)), node)
        from .models_np import cast_for
        els = arr.els()
        new = [cast_for(arr, e) for e in new]
        return arr.like(els[:p] + new + els[p:])

    @ext('numpy.concatenate', 'numpy.hstack', 'numpy.append')
    def _concat(interp, args, kw, node):
        if kw.get('axis', 0) not in (None, 0, -1) or kw.get('out') is not None or kw.get('dtype') is not None or 'casting' in kw:
            raise AnalysisError('np.concatenate(axis= / out= / dtype=) beyond the 1-d default not modelled', node)
        parts = args[0] if len(args) == 1 else args
        parts = list(interp.iterate(parts, node)) if not isinstance(parts, (list, tuple)) else list(parts)
        if any(isinstance(p, IndexSet) for p in parts):
            # integer index arrays from np.where(...)[0]: the union of the positions, each under its own condition
            items = []
            for p in parts:
                if isinstance(p, IndexSet):
                    items.extend(p.items)
                else:
                    v = as_vec(interp, p, node)
                    if v is None or not all(X.is_num(e.d) for e in v.els()):
                        raise AnalysisError('concatenate of an index set with a non-constant array', node)
                    items.extend((int(e.d[1]), X.TRUE) for e in v.els())
            return IndexSet(items)
        vs = [as_vec(interp, p, node) for p in parts]
        if any(v is None for v in vs):
            raise AnalysisError('concatenate of non-arrays', node)
        if not vs:
            raise AbsRaise(ExcVal('ValueError', ('need at least one array to concatenate',)), node)
        els = [e for v in vs for e in v.els()]
        dts = {v.dtype for v in vs}
        if len(dts) > 1:
            # numeric promotion of the parts' dtypes
            if dts <= {'b1', 'u1', 'i8', 'f8'}:
                dt = 'f8' if 'f8' in dts else ('i8' if 'i8' in dts else 'u1')
                return vs[0].like(els, dtype=dt)
            raise AnalysisError(f'concatenate of arrays of dtypes {sorted(dts)} not modelled', node)
        return vs[0].like(els)

    def _append(interp, args, kw, node):
        """np.append(arr, values): both flattened (numbers are one-element arrays), then concatenated"""
        if kw.get('axis') is not None or len(args) > 2:
            raise AnalysisError('np.append(axis=) not modelled', node)
        arr, values = kwarg(args, kw, 0, 'arr'), kwarg(args, kw, 1, 'values')
        return _hstack(interp, [[arr, values]], {}, node)

    def _hstack(interp, args, kw, node):
        # library fact: hstack passes its parts through atleast_1d, so plain numbers are one-element arrays (concatenate itself refuses 0-d parts)
        parts = args[0] if len(args) == 1 else args
        parts = list(interp.iterate(parts, node)) if not isinstance(parts, (list, tuple)) else list(parts)
        parts = [Vec.fresh([El(X.num(p), False)], kind='nd', dtype='i8' if isinstance(p, int) else 'f8') if isinstance(p, (int, Fr)) and not isinstance(p, bool) else p
                 for p in parts]
        return _concat(interp, [parts], kw, node)
    E['numpy.hstack'] = _hstack
    E['numpy.append'] = _append

    @ext('numpy.ma.concatenate', 'numpy.ma.hstack')
    def _ma_concat(interp, args, kw, node):
        parts = args[0] if len(args) == 1 else args
        parts = list(interp.iterate(parts, node)) if not isinstance(parts, (list, tuple)) else list(parts)
        vs = [as_vec(interp, p, node) for p in parts]
        if any(v is None for v in vs):
            raise AnalysisError('ma.concatenate of non-arrays', node)
        return Vec.fresh([e if v.kind == 'ma' else El(e.d, False) for v in vs for e in v.els()], kind='ma', dtype=vs[0].dtype if vs else 'f8',
                         unit=vs[0].unit if vs else None)

    @ext('numpy.where')
    def _where_fn(interp, args, kw, node):
        if len(args) == 1:
            c = as_vec(interp, args[0], node)
            if c is None:
                raise AnalysisError('np.where argument not modelled', node)
            # positions where the *data* is true (row 6)
            items = [(i, bool_of_el(e.d)) for i, e in enumerate(c.els())]
            if getattr(c, 'kind', '') == 'ma':
                # np.where on a masked condition: masked cells count as False (filled(False))
                items = [(i, X.f_and(X.f_not(m_formula(e.m)), bool_of_el(e.d))) for i, e in enumerate(c.els())]
            return (IndexSet(items),)
        c, a, b = args
        from .models_np import broadcast
        c = as_vec(interp, c, node)
        if c is None:
            raise AnalysisError('np.where condition not modelled', node)
        out = []
        for i, ce in enumerate(c.els()):
            ea = a.el(i) if isinstance(a, Vec) else El(as_operand(a)[1], False)
            eb = b.el(i) if isinstance(b, Vec) else El(as_operand(b)[1], False)
            f = bool_of_el(ce.d)
            if ea.m != eb.m and f not in (X.TRUE, X.FALSE):
                raise AnalysisError('np.where with differing masks', node)
            out.append(El(X.ite(f, ea.d, eb.d), ea.m if f != X.FALSE else eb.m))
        tmpl = a if isinstance(a, Vec) else (b if isinstance(b, Vec) else c)
        return Vec.fresh(out, kind=tmpl.kind if tmpl is not c else 'nd', dtype=tmpl.dtype if tmpl is not c else 'f8')

    @ext('numpy.flatnonzero', 'numpy.nonzero', 'numpy.argwhere')
    def _flatnonzero(interp, args, kw, node):
        c = as_vec(interp, args[0], node)
        if c is None:
            raise AnalysisError('flatnonzero argument not modelled', node)
        items = [(i, X.f_and(X.f_not(m_formula(e.m)), bool_of_el(e.d)) if c.kind == 'ma' else bool_of_el(e.d)) for i, e in enumerate(c.els())]
        if all(f in (X.TRUE, X.FALSE) for _, f in items):
            res = Vec.fresh([El(X.num(i), False) for i, f in items if f == X.TRUE], kind='nd', dtype='i8')
        else:
            res = IndexSet(items)
        if node is not None and getattr(getattr(node, 'func', None), 'attr', '') == 'nonzero':
            return (res,)
        return res

    @ext('numpy.ma.getmaskarray', 'numpy.ma.getmask')
    def _getmaskarray(interp, args, kw, node):
        v = as_vec(interp, args[0], node)
        if v is None:
            raise AnalysisError('getmaskarray argument not modelled', node)
        return Vec.fresh([El(m_formula(e.m) if v.kind == 'ma' else X.FALSE, False) for e in v.els()], kind='nd', dtype='b1')

    @ext('numpy.ma.getdata')
    def _getdata(interp, args, kw, node):
        v = args[0] if isinstance(args[0], Vec) else as_vec(interp, args[0], node)
        if v is None:
            raise AnalysisError('getdata argument not modelled', node)
        if isinstance(args[0], Vec) and v.kind == 'ma':
            return v.view(list(v.idx), kind='nd', dview=True)      # library fact: getdata(masked array) is the `.data` view
        if isinstance(args[0], Vec) and v.kind == 'nd':
            return v
        return Vec.fresh([El(e.d, False) for e in v.els()], kind='nd', dtype=v.dtype, unit=v.unit)

    def _data_target(a, node, what):
        """the memory np.putmask / np.copyto / np.place / np.put write: the array's own data (a masked array's mask is left alone - these
        functions do not go through MaskedArray.__setitem__)"""
        if not isinstance(a, Vec) or a.kind not in ('nd', 'ma') or a.sel_mask is not None:
            raise AnalysisError(f'{what} target not modelled', node)
        return a.view(list(a.idx), kind='nd', dview=(a.kind == 'ma' or a.dview))

    def _bool_mask(interp, m, n, node, what):
        mv = m if isinstance(m, Vec) else None
        if mv is None or mv.sel_mask is not None:
            raise AnalysisError(f'{what} mask that is not an array not modelled', node)
        if len(mv) != n:
            raise AnalysisError(f'{what} mask of a different size not modelled', node)
        return Vec.fresh([El(bool_of_el(e.d), False) for e in mv.els()], kind='nd', dtype='b1')

    def _int_like(v):
        return isinstance(v, bool) or isinstance(v, int) or (isinstance(v, Fr) and v.denominator == 1) or (isinstance(v, Sc) and v.dtype in ('i8', 'u1', 'b1'))

    def _masked_write(interp, a, mask, values, node, what, cyclic_ok):
        t = _data_target(a, node, what)
        n = len(t)
        mk = _bool_mask(interp, mask, n, node, what)
        if isinstance(values, (list, tuple)):
            values = as_vec(interp, values, node)
        if isinstance(values, Vec):
            if values.sel_mask is not None:
                raise AnalysisError(f'{what} of a data-dependent selection not modelled', node)
            if values.dtype != t.dtype:
                # library fact: an array value must cast *safely* to the target's dtype (int64 values into a uint8 array raise TypeError)
                raise AnalysisError(f'{what} with a value array of another dtype (casting rule) not modelled', node)
            if len(values) == 1:
                values = Sc(values.el(0).d, values.dtype, values.unit)
            elif len(values) == n and cyclic_ok:
                # a.flat[i] = values[i] where mask[i] (values of the same size are taken position by position)
                from .models_np import IndexSet
                for i, e in enumerate(mk.els()):
                    if e.d != X.FALSE:
                        M.store(interp, t, IndexSet([(i, e.d)]), values.view([values.idx[i]], kind='nd'), node)
                return None
            else:
                raise AnalysisError(f'{what} with a value array of another size not modelled', node)
        if values is None or as_operand(values) is None:
            raise AnalysisError(f'{what} value not modelled', node)
        if t.dtype in ('u1', 'i8', 'b1') and not _int_like(values):
            raise AnalysisError(f'{what} of a non-integer value into an integer array (casting rule) not modelled', node)
        M.store(interp, t, mk, values, node)
        return None

    @ext('numpy.putmask')
    def _putmask(interp, args, kw, node):
        """np.putmask(a, mask, values): a.flat[i] = values[i] (scalar: values) where mask[i]; data only"""
        return _masked_write(interp, kwarg(args, kw, 0, 'a'), kwarg(args, kw, 1, 'mask'), kwarg(args, kw, 2, 'values'), node, 'np.putmask', True)

    @ext('numpy.copyto')
    def _copyto(interp, args, kw, node):
        """np.copyto(dst, src, where=mask): dst[i] = src[i] (broadcast) where mask[i]; data only"""
        if 'casting' in kw:
            raise AnalysisError('np.copyto(casting=) not modelled', node)
        dst, src = kwarg(args, kw, 0, 'dst'), kwarg(args, kw, 1, 'src')
        where = kw.get('where', True)
        if where is True:
            if not isinstance(dst, Vec):
                raise AnalysisError('np.copyto target not modelled', node)
            where = Vec.fresh([El(X.TRUE, False)] * len(dst), kind='nd', dtype='b1')
        if isinstance(src, Vec) and len(src) != 1 and src.dtype != getattr(dst, 'dtype', None):
            raise AnalysisError('np.copyto between arrays of different dtypes (casting rule) not modelled', node)
        return _masked_write(interp, dst, where, src, node, 'np.copyto', True)

    @ext('numpy.place')
    def _place(interp, args, kw, node):
        """np.place(arr, mask, vals): the first N values go to the N selected cells (cyclically): modelled for one value"""
        return _masked_write(interp, kwarg(args, kw, 0, 'arr'), kwarg(args, kw, 1, 'mask'), kwarg(args, kw, 2, 'vals'), node, 'np.place', False)

    @ext('numpy.put')
    def _put(interp, args, kw, node):
        """np.put(a, ind, v): a.flat[ind] = v; modelled for an index set / index array and one value"""
        if 'mode' in kw:
            raise AnalysisError('np.put(mode=) not modelled', node)
        a, ind, v = kwarg(args, kw, 0, 'a'), kwarg(args, kw, 1, 'ind'), kwarg(args, kw, 2, 'v')
        t = _data_target(a, node, 'np.put')
        from .models_np import IndexSet
        if isinstance(v, Vec) and len(v) == 1:
            v = Sc(v.el(0).d, v.dtype, v.unit)
        if isinstance(v, Vec) or v is None or as_operand(v) is None:
            raise AnalysisError('np.put value not modelled', node)
        if t.dtype in ('u1', 'i8', 'b1') and not _int_like(v):
            raise AnalysisError('np.put of a non-integer value into an integer array not modelled', node)
        if not isinstance(ind, IndexSet) and not (isinstance(ind, Vec) and ind.dtype in ('i8', 'u1') and ind.sel_mask is None):
            raise AnalysisError('np.put index not modelled', node)
        if isinstance(ind, Vec) and len(ind) == 0:
            return None
        M.store(interp, t, ind, v, node)
        return None

    @ext('numpy.ma.where')
    def _ma_where(interp, args, kw, node):
        """np.ma.where(c, a, b): like np.where on the data, result masked where the condition (or the chosen branch) is masked"""
        if len(args) != 3:
            raise AnalysisError('np.ma.where with one argument not modelled', node)
        c = as_vec(interp, args[0], node)
        if c is None:
            raise AnalysisError('np.ma.where condition not modelled', node)
        a, b = args[1], args[2]
        out = []
        for i, ce in enumerate(c.els()):
            ea = a.el(i) if isinstance(a, Vec) else El(num_of_el(as_operand(a)[1]), False)
            eb = b.el(i) if isinstance(b, Vec) else El(num_of_el(as_operand(b)[1]), False)
            f = bool_of_el(ce.d)
            cm = ce.m if c.kind == 'ma' else False
            bm = m_ite(f, ea.m, eb.m) if f not in (X.TRUE, X.FALSE) else (ea.m if f == X.TRUE else eb.m)
            out.append(El(X.ite(f, ea.d, eb.d), m_or(cm, bm)))
        tmpl = a if isinstance(a, Vec) else (b if isinstance(b, Vec) else None)
        dt = tmpl.dtype if tmpl is not None else ('i8' if all(isinstance(v, int) for v in (a, b)) else 'f8')
        return Vec.fresh(out, kind='ma', dtype=dt)

    @ext('numpy.errstate')
    def _fp_modes(kw, node, what):
        # floating-point error modes: 'ignore' / 'warn' / 'print' / 'log' only change what is reported; 'raise' / 'call' change control flow
        for k, v in kw.items():
            if k not in ('all', 'divide', 'over', 'under', 'invalid'):
                raise AnalysisError(f'{what}({k}=) not modelled', node)
            if v not in (None, 'ignore', 'warn', 'print', 'log'):
                raise AnalysisError(f'{what}({k}={v!r}) turns floating-point conditions into exceptions: not modelled', node)

    @ext('numpy.errstate')
    def _errstate(interp, args, kw, node):
        _fp_modes(kw, node, 'np.errstate')
        return ContextMgr()

    @ext('numpy.seterr')
    def _seterr(interp, args, kw, node):
        _fp_modes(kw, node, 'np.seterr')
        return {}

    @ext('numpy.issubdtype')
    def _issubdtype(interp, args, kw, node):
        d, t = args
        code = parse_dtype(interp, d, node)[0]
        if isinstance(t, ExtRef):
            if t.path == 'numpy.datetime64':
                return code == 'M8'
            if t.path == 'numpy.timedelta64':
                return code == 'm8'
            if t.path in ('numpy.floating', 'numpy.float64'):
                return code == 'f8'
            if t.path in ('numpy.integer',):
                return code in ('i8', 'u1')
            if t.path in ('numpy.number',):
                return code in ('i8', 'u1', 'f8')
        raise AnalysisError('issubdtype target not modelled', node)

    @ext('numpy.shape')
    def _shape(interp, args, kw, node):
        v = args[0]
        if isinstance(v, Vec):
            return (len(v),)
        if isinstance(v, Vec2):
            return v.shape
        if isinstance(v, (list, tuple)):
            if any(isinstance(x, (list, tuple, Vec)) for x in v):
                raise AnalysisError('np.shape of nested sequence', node)
            return (len(v),)
        h = getattr(v, 'abs_to_array', None)
        if h is not None:
            return (len(h(interp, node)),)
        return ()

    @ext('numpy.size')
    def _size(interp, args, kw, node):
        return _shape(interp, args, kw, node)[0] if _shape(interp, args, kw, node) else 1

    @ext('numpy.ndim')
    def _ndim(interp, args, kw, node):
        return len(_shape(interp, args, kw, node))

    @ext('numpy.array_equal')
    def _array_equal(interp, args, kw, node):
        a, b = as_vec(interp, args[0], node), as_vec(interp, args[1], node)
        if len(a) != len(b):
            return False
        fs = [X.cmp('eq', num_of_el(x.d), num_of_el(y.d)) for x, y in zip(a.els(), b.els())]
        return mkbool(X.f_and(*fs)) if fs else True

    # ---------------------------------------------------------------------------------------
    # reductions
    def reduce_elems(interp, v, node, skip_masked=True):
        els = v.els()
        check_oob(interp, els, node)
        if any(e.d == NONE_EL for e in els):
            raise AbsRaise(ExcVal('TypeError', ('reduction over None',)), node)
        if v.kind == 'ma' and skip_masked:
            return [num_of_el(e.d) for e in els if not m_conc(e.m, node, 'reduction')], any(e.m for e in els)
        return [num_of_el(e.d) for e in els], False

    def reduction(fname, empty_raises, ma_aware=True):
        def f(interp, args, kw, node):
            v = args[0]
            axis = kwarg(args, kw, 1, 'axis')
            if isinstance(v, Vec2):
                if axis not in (1, -1):
                    raise AnalysisError('2-D reduction along axis 0 not modelled', node)
                if v.width == 0 and empty_raises:
                    raise AbsRaise(ExcVal('ValueError', ('zero-size array to reduction operation which has no identity',)), node)
                outs = []
                for r in v.rows:
                    res = f(interp, [r], {}, node)
                    if isinstance(res, Masked):
                        outs.append(El(X.ANY, True))
                    else:
                        o = as_operand(res)
                        outs.append(El(o[1], False))
                return Vec.fresh(outs, kind=v.kind, dtype=v.dtype)
            vv = as_vec(interp, v, node)
            if vv is None and isinstance(v, (int, Fr, float, Sc)) and not isinstance(v, bool):
                o = as_operand(v)      # a 0-d value reduces to itself
                vv = Vec.fresh([El(o[1], False)], kind='nd', dtype=v.dtype if isinstance(v, Sc) else ('i8' if isinstance(v, int) else 'f8'))
            if vv is None:
                raise AnalysisError(f'reduction over {type(v).__name__} not modelled', node)
            if vv.kind == 'series':
                raise AnalysisError('numpy reduction over pandas Series not modelled', node)
            elems, had_masked = reduce_elems(interp, vv, node, skip_masked=ma_aware)
            if fname.startswith('nan'):
                elems = [e for e in elems if e != X.NAN]
                if not elems:
                    return Sc(X.NAN, 'f8')
                d = X.red(fname[3:], elems)
                return Sc(d, 'f8')
            if not elems:
                if had_masked:
                    return MASKED
                if empty_raises:
                    raise AbsRaise(ExcVal('ValueError', (f'zero-size array to reduction operation {fname} which has no identity',)), node)
                return Sc(X.NAN, 'f8')
            d = X.red(fname, elems)
            dt, unit = vv.dtype, vv.unit
            if fname in ('mean', 'std', 'median') and dt in ('i8', 'u1', 'b1'):
                dt = 'f8'
            if fname in ('mean', 'median') and dt in ('m8', 'M8') and unit in UNIT_SECONDS:
                # library fact: the mean of timedelta64 values is an integer count of the array's unit (truncated toward zero)
                us = UNIT_SECONDS[unit]
                d = X.scale(trunc_expr(X.scale(d, Fr(1) / us), 'm8'), us)
            return Sc(d, dt, unit)
        return f

    E['numpy.min'] = E['numpy.amin'] = E['numpy.ma.min'] = reduction('min', True)
    E['numpy.max'] = E['numpy.amax'] = E['numpy.ma.max'] = reduction('max', True)
    E['numpy.ptp'] = E['numpy.ma.ptp'] = reduction('ptp', True)
    E['numpy.mean'] = E['numpy.ma.mean'] = reduction('mean', False)
    E['numpy.std'] = E['numpy.ma.std'] = reduction('std', False)
    E['numpy.median'] = reduction('median', False, ma_aware=False)
    E['numpy.ma.median'] = reduction('median', False)
    E['numpy.sum'] = reduction('sum', False)
    E['numpy.nanmin'] = reduction('nanmin', True)
    E['numpy.nanmax'] = reduction('nanmax', True)
    E['numpy.nanmean'] = reduction('nanmean', False)
    E['numpy.nanstd'] = reduction('nanstd', False)
    E['numpy.nansum'] = reduction('nansum', False)
    for nm in ('min', 'max', 'mean', 'std', 'sum', 'ptp'):
        MT[(Vec, nm)] = (lambda it, o, a, k, n, _nm=nm: E['numpy.' + _nm](it, [o] + list(a), k, n))

    @ext('numpy.any')
    def _np_any(interp, args, kw, node):
        v = as_vec(interp, args[0], node)
        return _vany(interp, v, [], {}, node)

    @ext('numpy.all')
    def _np_all(interp, args, kw, node):
        v = as_vec(interp, args[0], node)
        return _vall(interp, v, [], {}, node)

    # ---------------------------------------------------------------------------------------
    # strided windows
    @ext('numpy.lib.stride_tricks.as_strided')
    def _as_strided(interp, args, kw, node):
        a = args[0]
        shape = kwarg(args, kw, 1, 'shape')
        strides = kwarg(args, kw, 2, 'strides')
        if not isinstance(a, Vec):
            raise AnalysisError('as_strided of non-array', node)
        dims = [concrete_int(M, s, node) for s in shape]
        st = [concrete_int(M, s, node) for s in strides]
        if len(dims) != 2 or len(st) != 2:
            raise AnalysisError('as_strided: only 2-D windows are modelled', node)
        if any(d < 0 for d in dims):
            raise AbsRaise(ExcVal('ValueError', ('negative dimensions are not allowed',)), node)
        if any(s % 8 for s in st):
            raise AnalysisError('as_strided: stride not a multiple of the item size', node)
        # element (i, j) lives at offset i*s0 + j*s1 from the first element of the view `a`
        base = a.idx[0] if len(a.idx) else 0
        contiguous = all(a.idx[k] == base + k for k in range(len(a.idx)))
        if not contiguous:
            raise AnalysisError('as_strided on a non-contiguous view', node)
        limit = len(a.back.cells)
        rows = []
        for i in range(dims[0]):
            idx = []
            for j in range(dims[1]):
                p = base + (i * st[0] + j * st[1]) // 8
                idx.append(p if 0 <= p < limit and p < base + len(a.idx) else None)
            rows.append(Vec(a.back, idx, 'nd', a.dtype, a.unit))
        return Vec2(rows, dims[1], 'nd', a.dtype)

    # ---------------------------------------------------------------------------------------
    @ext('numpy.vectorize')
    def _vectorize(interp, args, kw, node):
        f = args[0]

        def run(it, a, k, n):
            """pointwise application; a masked argument gives a masked result (row 11)"""
            vs = [as_vec(it, x, n) for x in a]
            if any(v is None for v in vs):
                raise AnalysisError('np.vectorize over scalars not modelled', n)
            from .models_np import sel_of
            sm = sel_of(*vs)
            ln = {v.full_len() for v in vs}
            if len(ln) != 1 or (sm is not None and any(v.sel_mask is None for v in vs)):
                raise AbsRaise(ExcVal('ValueError', ('operands could not be broadcast together',)), n)
            out = []
            int_first = X.FALSE
            if ln == {0} and kw.get('otypes') is None and len(args) < 2:
                # library fact: the output dtype is found by calling the function on the first element
                raise AbsRaise(ExcVal('ValueError', ('cannot call `vectorize` on size 0 inputs unless `otypes` is set',)), n)
            for i in range(ln.pop()):
                es = [v.el(i) for v in vs]
                # the function is applied to the underlying data; the result is masked where an argument is
                it.last_return_chain = None
                res = it.call(f, [Sc(e.d, v.dtype, v.unit) for e, v in zip(es, vs)], {}, n)
                if i == 0:
                    # library fact: without otypes, np.vectorize takes the output dtype from the result of the FIRST call;
                    # a Python int there makes every output an integer (later float results are truncated)
                    chain = it.last_return_chain or [(X.TRUE, res)]
                    for g, v0 in reversed(chain):
                        isint = X.TRUE if type(v0) in (int, bool) else X.FALSE
                        int_first = isint if g == X.TRUE else X.f_or(X.f_and(g, isint), X.f_and(X.f_not(g), int_first))
                o = as_operand(res)
                if o is None:
                    raise AnalysisError('vectorized function result not modelled', n)
                mm = o[2]
                for e in es:
                    mm = m_or(mm, e.m)
                d = o[1]
                if int_first != X.FALSE and i > 0:
                    d = trunc_expr(num_of_el(d), 'f8') if int_first == X.TRUE else X.ite(int_first, trunc_expr(num_of_el(d), 'f8'), d)
                out.append(El(d, mm))
            kind = 'ma' if any(v.kind == 'ma' for v in vs) else 'nd'
            res = Vec.fresh(out, kind=kind, dtype='f8')
            res.sel_mask = sm
            return res
        return PyCallable(run, 'vectorized')

    @ext('geographiclib.geodesic.Geodesic.WGS84.Inverse')
    def _geo_inverse(interp, args, kw, node):
        ds = []
        for a in args:
            o = as_operand(a)
            if o is None:
                raise AnalysisError('Geodesic.Inverse argument not modelled', node)
            ds.append(num_of_el(o[1]))
        if len(ds) != 4:
            raise AbsRaise(ExcVal('TypeError', ('Inverse() takes 4 positional arguments',)), node)
        # Inverse(lat1, lon1, lat2, lon2): NaN in, NaN out (row 11)
        if (ds[0], ds[1]) == (ds[2], ds[3]) and X.NAN not in ds and X.ANY not in ds:
            res = X.num(0)
        else:
            # the geodesic distance is symmetric in its two points: canonical point order
            p1, p2 = sorted([(ds[0], ds[1]), (ds[2], ds[3])], key=repr)
            res = X.fn('geodist', p1[0], p1[1], p2[0], p2[1])
        return {'s12': Sc(res, 'f8')}

    from . import models_pd
    models_pd.register(M, dict(ext=ext, meth=meth, kwarg=kwarg, as_vec=as_vec, astype=astype, to_array=to_array))


INT64_MIN = -2 ** 63


def trunc_expr(d, src):
    """integer conversion of an element expression (pushed into the leaves of ite trees)"""
    if X.is_num(d):
        if not (-2 ** 63 <= d[1] < 2 ** 63):
            return X.num(INT64_MIN)
        return X.num(trunc_fr(d[1]))
    if d == X.NAN or (d[0] == 'fn' and d[1] == 'inf'):
        # platform fact (x86-64 numpy, the pinned environment): a float that has no int64 value - NaN, +-inf, out of range - casts to
        # INT64_MIN.  numpy documents the result as undefined; the analysis follows what the analysed environment does.
        return X.num(INT64_MIN)
    if d == X.ANY:
        return d
    if d[0] == 'ite':
        return X.ite(d[1], trunc_expr(d[2], src), trunc_expr(d[3], src))
    if src in ('f8', 'O', 'm8'):
        return X.fn('trunc', d)
    return d


def as_series_values(interp, v, nrows, node):
    """value assigned to a DataFrame column -> column Vec (a masked array becomes NaN where masked, like pandas)"""
    if isinstance(v, Vec):
        els = []
        for e in v.els():
            if e.m is True:
                els.append(El(X.NAN, False))
            elif e.m is False:
                els.append(El(e.d, False))
            else:
                raise AnalysisError('DataFrame column from an array with a data-dependent mask', node)
        return Vec.fresh(els, kind='series', dtype=v.dtype, unit=v.unit)
    if isinstance(v, (list, tuple)):
        return as_series_values(interp, interp.models.to_array(interp, v, node), nrows, node)
    if v is None:
        if nrows is None:
            raise AbsRaise(ExcVal('ValueError', ('cannot set a frame with no defined index and a scalar',)), node)
        return Vec.fresh([El(NONE_EL, False)] * nrows, kind='series', dtype='O')
    o = as_operand(v)
    if o is not None and nrows is not None:
        return Vec.fresh([El(o[1], False)] * nrows, kind='series', dtype='f8')
    raise AnalysisError(f'DataFrame column from {type(v).__name__} not modelled', node)


class IsoCal:
    def __init__(self, week):
        self.week = week

    def abs_getattr(self, interp, name, node):
        if name == 'week':
            return self.week.copy(kind='series')
        raise AnalysisError(f'isocalendar().{name} not modelled', node)
