"""2-D arrays (Vec2 = list of row Vecs): element-wise operations row by row, reductions along either axis, stacking.

Library facts encoded here: np.stack / np.vstack / np.array of a list of arrays return a plain ndarray (the masks of masked-array
inputs are dropped: the data under a mask becomes an ordinary value); np.ma.stack / np.ma.vstack / np.ma.array keep them."""
from . import expr as X
from .interp import AbsRaise, ExcVal
from .repo import AnalysisError
from .vec import El, Sc, Vec, Vec2


def rowwise(M, interp, f, a, b, node):
    """apply a binary element-wise model row by row; a Vec operand broadcasts along the rows (it must have the row width)"""
    n = len(a.rows) if isinstance(a, Vec2) else len(b.rows)
    if isinstance(a, Vec2) and isinstance(b, Vec2) and (a.shape != b.shape):
        raise AbsRaise(ExcVal('ValueError', ('operands could not be broadcast together',)), node)
    rows = []
    for i in range(n):
        x = a.rows[i] if isinstance(a, Vec2) else a
        y = b.rows[i] if isinstance(b, Vec2) else b
        rows.append(f(x, y))
    tmpl = a if isinstance(a, Vec2) else b
    if not all(isinstance(r, Vec) for r in rows):
        raise AnalysisError('2-D operation with a scalar row result', node)
    return Vec2(rows, tmpl.width, rows[0].kind if rows else tmpl.kind, rows[0].dtype if rows else tmpl.dtype)


def install(M):
    from . import models_np
    E = M.ext_call

    def as_vec(interp, v, node):
        if isinstance(v, Vec):
            return v
        if isinstance(v, (list, tuple)):
            return M.to_array(interp, v, node)
        return None
    orig_binop, orig_compare, orig_logic = models_np.binop_model, models_np.compare_model, models_np.logic_model

    def binop_model(M_, interp, op, a, b, node):
        if isinstance(a, Vec2) or isinstance(b, Vec2):
            return rowwise(M_, interp, lambda x, y: binop_model(M_, interp, op, x, y, node), a, b, node)
        return orig_binop(M_, interp, op, a, b, node)

    def compare_model(M_, interp, op, a, b, node):
        if (isinstance(a, Vec2) or isinstance(b, Vec2)) and op not in ('Is', 'IsNot', 'In', 'NotIn'):
            return rowwise(M_, interp, lambda x, y: orig_compare(M_, interp, op, x, y, node), a, b, node)
        return orig_compare(M_, interp, op, a, b, node)

    def logic_model(M_, interp, op, a, b, node):
        if isinstance(a, Vec2) or isinstance(b, Vec2):
            return rowwise(M_, interp, lambda x, y: orig_logic(M_, interp, op, x, y, node), a, b, node)
        return orig_logic(M_, interp, op, a, b, node)

    models_np.binop_model, models_np.compare_model, models_np.logic_model = binop_model, compare_model, logic_model

    orig_unary = models_np.unaryop_model

    def unaryop_model(M_, interp, op, v, node):
        if isinstance(v, Vec2):
            return Vec2([orig_unary(M_, interp, op, r, node) for r in v.rows], v.width, v.kind, v.dtype)
        return orig_unary(M_, interp, op, v, node)
    models_np.unaryop_model = unaryop_model

    # ---- construction ------------------------------------------------------------------------
    def stack(keep_mask):
        def f(interp, args, kw, node):
            seq = args[0]
            axis = kw.get('axis', args[1] if len(args) > 1 else 0)
            if isinstance(seq, Vec2):
                seq = list(seq.rows)
            items = [as_vec(interp, x, node) for x in interp.iterate(seq, node)]
            if not items:
                raise AbsRaise(ExcVal('ValueError', ('need at least one array to stack',)), node)
            if any(v is None for v in items):
                raise AnalysisError('stack of non-array values', node)
            if len({len(v) for v in items}) != 1:
                raise AbsRaise(ExcVal('ValueError', ('all input arrays must have the same shape',)), node)
            rows = []
            for v in items:
                if v.kind == 'ma' and not keep_mask:
                    interp.event('mask-dropped', node=node, any_masked=any(m is not False for m in v.masks()))
                rows.append(Vec.fresh([El(e.d, e.m if keep_mask else False) for e in v.els()],
                                      kind='ma' if keep_mask else 'nd', dtype=v.dtype, unit=v.unit))
            kinds = {r.dtype for r in rows}
            dt = rows[0].dtype if len(kinds) == 1 else 'f8'
            out = Vec2(rows, len(items[0]), 'ma' if keep_mask else 'nd', dt)
            if axis in (1, -1):
                return transpose(out)
            if axis != 0:
                raise AnalysisError('stack along an axis other than 0 / 1', node)
            return out
        return f
    E['numpy.stack'] = E['numpy.vstack'] = E['numpy.row_stack'] = stack(False)
    E['numpy.ma.stack'] = E['numpy.ma.vstack'] = E['numpy.ma.row_stack'] = stack(True)
    E['numpy.column_stack'] = lambda interp, args, kw, node: transpose(stack(False)(interp, args[:1], {}, node))

    def transpose(v):
        rows = []
        for j in range(v.width):
            rows.append(Vec.fresh([r.el(j) for r in v.rows], kind=v.kind, dtype=v.dtype))
        return Vec2(rows, len(v.rows), v.kind, v.dtype)
    M.transpose2 = transpose

    # ---- reductions --------------------------------------------------------------------------
    def reduce2(name):
        def f(interp, v, args, kw, node):
            axis = kw.get('axis', args[0] if args else None)
            meth = lambda r: M.call_method(interp, r, name, [], {}, node)
            if axis in (1, -1):
                src = v.rows
            elif axis == 0:
                src = transpose(v).rows
            elif axis is None:
                flat = Vec.fresh([e for r in v.rows for e in r.els()], kind=v.kind, dtype=v.dtype)
                return meth(flat)
            else:
                raise AnalysisError(f'2-D reduction along axis {axis!r}', node)
            outs = []
            for r in src:
                res = meth(r)
                from .models import as_operand
                o = as_operand(res)
                if o is None:
                    raise AnalysisError(f'2-D {name}: row result not modelled', node)
                outs.append(El(o[1], bool(o[2])))
            dt = 'b1' if name in ('any', 'all') else ('f8' if name in ('mean', 'std') else 'i8' if name == 'count' else v.dtype)
            return Vec.fresh(outs, kind=v.kind, dtype=dt)
        return f
    for nm in ('any', 'all', 'max', 'min', 'sum', 'mean', 'std', 'ptp', 'count'):
        M.methods[(Vec2, nm)] = reduce2(nm)

    def np_reduce(name, orig):
        def f(interp, args, kw, node):
            if args and isinstance(args[0], Vec2):
                axis = kw.get('axis', args[1] if len(args) > 1 else None)
                if axis == 0 or axis is None:
                    return M.methods[(Vec2, name)](interp, args[0], [], {'axis': axis}, node)
            return orig(interp, args, kw, node)
        return f
    for nm, paths in (('any', ('numpy.any', 'numpy.ma.any')), ('all', ('numpy.all', 'numpy.ma.all')), ('max', ('numpy.max', 'numpy.amax', 'numpy.ma.max')),
                      ('min', ('numpy.min', 'numpy.amin', 'numpy.ma.min')), ('sum', ('numpy.sum', 'numpy.ma.sum')), ('mean', ('numpy.mean', 'numpy.ma.mean'))):
        for p in paths:
            if p in E:
                E[p] = np_reduce(nm, E[p])
    M.methods[(Vec2, 'astype')] = lambda interp, v, args, kw, node: Vec2([M.call_method(interp, r, 'astype', args, kw, node) for r in v.rows], v.width, v.kind,
                                                                         (M.call_method(interp, v.rows[0], 'astype', args, kw, node).dtype if v.rows else v.dtype))
    M.methods[(Vec2, 'transpose')] = lambda interp, v, args, kw, node: transpose(v)
    M.methods[(Vec2, 'filled')] = lambda interp, v, args, kw, node: Vec2([M.call_method(interp, r, 'filled', args, kw, node) for r in v.rows], v.width, 'nd', v.dtype)
    M.methods[(Vec2, 'copy')] = lambda interp, v, args, kw, node: Vec2([r.copy() for r in v.rows], v.width, v.kind, v.dtype)
    def _flatten2(interp, v, args, kw, node):
        order = kw.get('order', args[0] if args else 'C')
        if order not in ('C', None):
            raise AnalysisError(f'2-D flatten / ravel with order={order!r} (memory layout) not modelled', node)
        out = Vec.fresh([e for r in v.rows for e in r.els()], kind=v.kind, dtype=v.dtype, unit=v.rows[0].unit if v.rows else None)
        out.narrow = any(getattr(r, 'narrow', False) for r in v.rows)
        return out
    M.methods[(Vec2, 'flatten')] = M.methods[(Vec2, 'ravel')] = _flatten2

    def _reshape2(interp, v, args, kw, node):
        flat = _flatten2(interp, v, [], {}, node)
        return M.call_method(interp, flat, 'reshape', list(args), dict(kw), node)
    M.methods[(Vec2, 'reshape')] = _reshape2
