"""Models of the configuration carriers: YAML / JSON text, files, StringIO, xarray datasets, shapely regions.

A configuration *text* is an abstract string that carries the mapping it denotes and its syntax
(ConfText.kind).  The parsers are modelled by what they accept:
    YAML loader : 'yaml' and 'json' text (JSON is a YAML subset); any other plain string is a YAML *scalar*
                  (so OrderedDict(<that>) fails, which is how the repository falls through to the next loader)
    json.loads  : 'json' text only
    open(path)  : 'path-yaml' / 'path-json' / 'path-nc' denote readable files with that content
That ruamel / json / xarray really parse the same documents to equal mappings is the trusted part.
"""
import collections
import copy as _copy

from .interp import AbsRaise, ExcVal, ExtRef, Instance, ModelMethod
from .models import ContextMgr, PyCallable
from .models_py import PathVal, StringIOVal
from .repo import AnalysisError


class ConfText(str):
    """a string with a known meaning"""
    def __new__(cls, label, kind, denotes=None):
        s = super().__new__(cls, label)
        s.kind = kind
        s.denotes = denotes
        return s


def plain(d):
    """what a parser returns: fresh plain dict / list structure"""
    if isinstance(d, dict):
        return {k: plain(v) for k, v in d.items()}
    if isinstance(d, (list, tuple)) and not hasattr(d, '_fields'):
        return [plain(v) for v in d]
    return d


class YamlObj:
    def abs_getattr(self, interp, name, node):
        if name == 'load':
            return PyCallable(self.load, 'yaml.load')
        if name == 'dump':
            return PyCallable(lambda it, a, k, n: None, 'yaml.dump')
        raise AnalysisError(f'YAML.{name} not modelled', node)

    def load(self, interp, args, kw, node):
        src = args[0]
        if isinstance(src, StringIOVal):
            src = src.s
        if isinstance(src, PathVal):
            raise AnalysisError('yaml.load(Path) not modelled', node)
        if isinstance(src, ConfText):
            if src.kind in ('yaml', 'json'):
                return plain(src.denotes)
            if src.kind == 'garbage':
                raise AbsRaise(ExcVal('ValueError', ('yaml scanner error',)), node)
            return str(src)          # a path or word is a YAML plain scalar
        if isinstance(src, str):
            return src
        raise AbsRaise(ExcVal('TypeError', ('yaml.load of non-text',)), node)


class FileObj:
    def __init__(self, content):
        self.content = content

    def abs_getattr(self, interp, name, node):
        if name == 'read':
            return PyCallable(lambda it, a, k, n: self.content, 'file.read')
        raise AnalysisError(f'file.{name} not modelled', node)


class DataVar:
    """xarray variable stub: attributes + values"""
    abs_kind = 'xr.DataArray'

    def __init__(self, name, attrs=None, values=None, dims=('time',), coords=None):
        self.name = name
        self.attrs = dict(attrs or {})
        self.values = values
        self.dims = tuple(dims)
        self.coords = coords or {}

    def abs_getattr(self, interp, name, node):
        if name == 'name':
            return self.name
        if name == 'attrs':
            return self.attrs
        if name == 'dims':
            return self.dims
        if name in self.attrs:
            return self.attrs[name]
        from . import models_xr
        return models_xr.var_getattr(self, interp, name, node)


class DatasetStub:
    abs_kind = 'xr.Dataset'

    def __init__(self, variables=None, attrs=None, dims=('time',)):
        self.variables = collections.OrderedDict(variables or {})
        self.attrs = dict(attrs or {})
        self.dims = tuple(dims)
        self.closed = False

    def abs_contains(self, item):
        return item in self.variables

    def abs_getitem(self, interp, key, node):
        if key in self.variables:
            return self.variables[key]
        raise AbsRaise(ExcVal('KeyError', (key,)), node)

    def abs_getattr(self, interp, name, node):
        if name == 'attrs':
            return self.attrs
        if name == 'variables':
            return VarMap(self)
        if name == 'data_vars':
            # library fact: Dataset.data_vars is a mapping name -> DataArray (iterating it gives the names)
            return DataVarsMap(self)
        if name == 'dims':
            return self.dims
        if name == 'sizes':
            # mapping dimension -> length; only membership / iteration over the names is modelled (lengths are not part of the scenario)
            return DimNames(self.dims)
        if name == 'close':
            return PyCallable(lambda it, a, k, n: setattr(self, 'closed', True), 'close')
        if name == 'filter_by_attrs':
            def f(it, a, k, n):
                keep = collections.OrderedDict()
                for vn, v in self.variables.items():
                    ok = True
                    for attr, pred in k.items():
                        val = v.attrs.get(attr)
                        r = it.call(pred, [val], {}, n) if not isinstance(pred, (str, int)) else (val == pred)
                        if it.truth(r, n) is not True:
                            ok = False
                            break
                    if ok:
                        keep[vn] = v
                return DatasetStub(keep, self.attrs, self.dims)
            return PyCallable(f, 'filter_by_attrs')
        if name in ('calls',):
            raise AbsRaise(ExcVal('AttributeError', (f"'Dataset' object has no attribute '{name}'",)), node)
        from . import models_xr
        return models_xr.ds_getattr(self, interp, name, node)


class VarMap:
    """ds.variables"""
    def __init__(self, ds):
        self.ds = ds

    def abs_contains(self, item):
        return item in self.ds.variables

    def abs_getitem(self, interp, key, node):
        return self.ds.abs_getitem(interp, key, node)

    def abs_iter(self):
        return list(self.ds.variables)


class DataVarsMap(VarMap):
    """ds.data_vars: the variables that are not coordinates"""
    def names(self):
        return [k for k, v in self.ds.variables.items() if k not in self.ds.dims and not getattr(v, 'is_coord', False)]

    def abs_contains(self, item):
        return item in self.names()

    def abs_getitem(self, interp, key, node):
        if key not in self.names():
            raise AbsRaise(ExcVal('KeyError', (key,)), node)
        return self.ds.abs_getitem(interp, key, node)

    def abs_iter(self):
        return self.names()

    def abs_len(self):
        return len(self.names())

    def abs_getattr(self, interp, name, node):
        if name == 'keys':
            return PyCallable(lambda it, a, k, n: self.names(), 'data_vars.keys')
        if name == 'values':
            return PyCallable(lambda it, a, k, n: [self.ds.variables[x] for x in self.names()], 'data_vars.values')
        if name == 'items':
            return PyCallable(lambda it, a, k, n: [(x, self.ds.variables[x]) for x in self.names()], 'data_vars.items')
        if name == 'get':
            def get(it, a, k, n):
                return self.ds.variables[a[0]] if a[0] in self.names() else (a[1] if len(a) > 1 else k.get('default'))
            return PyCallable(get, 'data_vars.get')
        raise AnalysisError(f'Dataset.data_vars.{name} not modelled', node)


class DimNames:
    """ds.sizes: only the dimension names are part of the scenarios"""
    def __init__(self, dims):
        self.dims = tuple(dims)

    def abs_contains(self, item):
        return item in self.dims

    def abs_iter(self):
        return list(self.dims)

    def abs_len(self):
        return len(self.dims)

    def abs_getattr(self, interp, name, node):
        if name == 'keys':
            return PyCallable(lambda it, a, k, n: list(self.dims), 'sizes.keys')
        raise AnalysisError(f'Dataset.sizes.{name} (dimension lengths) not modelled', node)

    def abs_getitem(self, interp, key, node):
        raise AnalysisError('Dataset.sizes[dim] (dimension lengths) not modelled', node)


class Geometry:
    def __init__(self, geojson):
        self.geojson = geojson

    def __eq__(self, other):
        return isinstance(other, Geometry) and other.geojson == self.geojson

    def __hash__(self):
        return hash(repr(self.geojson))


class GeometryCollection:
    abs_kind = 'GeometryCollection'

    def __init__(self, geoms):
        self.geoms = list(geoms)

    def abs_getattr(self, interp, name, node):
        if name == 'wkb':
            return repr([g.geojson for g in self.geoms])
        if name == 'geoms':
            return self.geoms
        if name in ('bounds', 'is_empty', 'wkt', 'envelope'):
            def coords(o):
                if isinstance(o, (list, tuple)) and o and all(isinstance(x, (int, float)) or hasattr(x, 'numerator') for x in o):
                    yield o
                elif isinstance(o, (list, tuple)):
                    for x in o:
                        yield from coords(x)
            pts = [c for g in self.geoms for c in coords(g.geojson.get('coordinates', []))]
            if name == 'is_empty':
                return not pts
            if name == 'wkt':
                return 'GEOMETRYCOLLECTION ' + repr([g.geojson for g in self.geoms])
            if not pts:
                return ()
            b = (min(p[0] for p in pts), min(p[1] for p in pts), max(p[0] for p in pts), max(p[1] for p in pts))
            return b if name == 'bounds' else ('envelope',) + b
        raise AnalysisError(f'GeometryCollection.{name} not modelled', node)

    def abs_truth(self):
        return True

    def __eq__(self, other):
        return isinstance(other, GeometryCollection) and other.geoms == self.geoms

    def __hash__(self):
        return hash(repr([g.geojson for g in self.geoms]))


def register(M):
    E = M.ext_call

    def ext(*paths):
        def deco(fn):
            for p in paths:
                E[p] = fn
            return fn
        return deco

    @ext('ruamel.yaml.YAML')
    def _yaml(interp, args, kw, node):
        typ = kw.get('typ', args[0] if args else None)
        if typ not in (None, 'safe', 'rt', 'unsafe', 'base') or kw.get('pure') not in (None, True, False):
            raise AnalysisError(f'YAML(typ={typ!r}) not modelled', node)
        return YamlObj()

    @ext('json.loads')
    def _json_loads(interp, args, kw, node):
        src = args[0]
        if isinstance(src, ConfText) and src.kind == 'json':
            return plain(src.denotes)
        if isinstance(src, ConfText) and src.kind not in ('json',):
            raise AbsRaise(ExcVal('ValueError', ('JSONDecodeError',)), node)          # text the scenario declares not to be JSON
        if isinstance(src, (str, bytes)):
            # concrete text: the real parser's own answer (a pure function of the text); numbers become exact rationals
            import json as _json
            from fractions import Fraction as _Fr

            def conv(x):
                if isinstance(x, float):
                    return _Fr(str(x)) if x == x and x not in (float('inf'), float('-inf')) else x
                if isinstance(x, list):
                    return [conv(y) for y in x]
                if isinstance(x, dict):
                    return {k: conv(v) for k, v in x.items()}
                return x
            try:
                return conv(_json.loads(src))
            except ValueError as e:
                raise AbsRaise(ExcVal('ValueError', (f'JSONDecodeError: {e}'[:120],)), node)
        raise AbsRaise(ExcVal('TypeError', ('the JSON object must be str, bytes or bytearray',)), node)

    @ext('json.load')
    def _json_load(interp, args, kw, node):
        src = args[0]
        if isinstance(src, FileObj):
            return _json_loads(interp, [src.content], {}, node)
        if isinstance(src, StringIOVal):
            return _json_loads(interp, [src.s], {}, node)
        raise AbsRaise(ExcVal('AttributeError', ("'str' object has no attribute 'read'",)), node)

    @ext('json.dumps')
    def _json_dumps(interp, args, kw, node):
        import json as _json
        from fractions import Fraction as _Fr

        class _NotPlain(Exception):
            pass

        def conv(x):
            if isinstance(x, bool) or x is None or isinstance(x, (int, str)):
                return x
            if isinstance(x, _Fr):
                return int(x) if x.denominator == 1 and False else float(x)
            if isinstance(x, float):
                return x
            if isinstance(x, (list, tuple)):
                return [conv(y) for y in x]
            if isinstance(x, dict) and all(isinstance(k, (str, int, bool, type(None))) for k in x):
                return {k: conv(v) for k, v in x.items()}
            raise _NotPlain()
        allowed = {'sort_keys', 'indent', 'separators', 'ensure_ascii'}
        if not set(kw) - allowed and len(args) == 1:
            try:
                return ConfText(_json.dumps(conv(args[0]), **kw), 'json', args[0])
            except (_NotPlain, TypeError, ValueError):
                pass
        return ConfText('<json>', 'json', args[0])

    @ext('xarray.open_dataset', 'xarray.load_dataset')
    def _open_dataset(interp, args, kw, node):
        # the decoding switches say how a file is read; the scenario fixes what the opened dataset holds, so they are accepted as given
        for k in kw:
            if k not in ('decode_cf', 'decode_times', 'mask_and_scale', 'engine', 'chunks', 'cache'):
                raise AnalysisError(f'xarray.open_dataset({k}=) not modelled', node)
        src = args[0]
        if isinstance(src, ConfText) and src.kind == 'path-nc':
            ds = src.denotes
            return ds
        if isinstance(src, DatasetStub):
            return src
        raise AbsRaise(ExcVal('FileNotFoundError', (str(src),)), node)

    def path_open(interp, obj, args, kw, node):
        s = obj.s
        if isinstance(s, ConfText) and s.kind in ('path-yaml', 'path-json'):
            content = ConfText('<file content>', 'yaml' if s.kind == 'path-yaml' else 'json', s.denotes)
            return ContextMgr(FileObj(content))
        if isinstance(s, ConfText) and s.kind == 'path-nc':
            return ContextMgr(FileObj(ConfText('<binary>', 'garbage')))
        raise AbsRaise(ExcVal('FileNotFoundError', (str(s),)), node)
    M.methods[(PathVal, 'open')] = path_open
    M.methods[(StringIOVal, 'getvalue')] = lambda it, o, a, k, n: o.s
    M.methods[(StringIOVal, 'read')] = lambda it, o, a, k, n: o.s

    @ext('builtins.open')
    def _open(interp, args, kw, node):
        return path_open(interp, PathVal(args[0]), [], {}, node)

    @ext('shapely.geometry.shape')
    def _shape(interp, args, kw, node):
        g = args[0]
        if not isinstance(g, dict) or 'type' not in g:
            raise AbsRaise(ExcVal('ValueError', ('not a GeoJSON geometry',)), node)
        return Geometry(plain(g))

    @ext('shapely.geometry.GeometryCollection')
    def _gc(interp, args, kw, node):
        return GeometryCollection(interp.iterate(args[0], node) if args else [])

    @ext('jsonschema.validate')
    def _validate(interp, args, kw, node):
        # schema validation is not interpreted (C20.validate reads the schema itself): instance= / schema= / cls= are accepted, nothing else
        for k in kw:
            if k not in ('instance', 'schema', 'cls'):
                raise AnalysisError(f'jsonschema.validate({k}=) not modelled', node)
        return None

    # ---- the re module on concrete strings (stdlib; the patterns are additionally analysed structurally in C19) ----
    import re as _re

    def _re_fn(name):
        def f(interp, args, kw, node):
            args = [a.pattern if isinstance(a, RePattern) else a for a in args]
            if not all(isinstance(a, (str, int)) for a in args):
                if name == 'sub' and len(args) >= 3 and not isinstance(args[2], str):
                    raise AbsRaise(ExcVal('TypeError', ('expected string or bytes-like object',)), node)
                raise AnalysisError(f're.{name} on a non-concrete string', node)
            try:
                r = getattr(_re, name)(*[str(a) if isinstance(a, ConfText) else a for a in args], **kw)
            except _re.error as e:
                raise AbsRaise(ExcVal('ValueError', (f're.error: {e}',)), node)
            if name != 'escape':
                # every use of a regular expression is recorded: C19 analyses the patterns structurally
                interp.event('regex', fn=name, pattern=str(args[0]), repl=(str(args[1]) if name in ('sub', 'subn') and len(args) > 1 else None), node=node)
            if name in ('match', 'search', 'fullmatch'):
                return None if r is None else ReMatch(r)
            return r
        return f
    for nm in ('match', 'search', 'fullmatch', 'sub', 'split', 'findall', 'escape'):
        E['re.' + nm] = _re_fn(nm)

    @ext('re.compile')
    def _re_compile(interp, args, kw, node):
        if not isinstance(args[0], str):
            raise AnalysisError('re.compile of a non-constant pattern', node)
        try:
            _re.compile(args[0], *args[1:], **kw)
        except _re.error as e:
            raise AbsRaise(ExcVal('ValueError', (f're.error: {e}',)), node)
        return RePattern(str(args[0]), args[1] if len(args) > 1 else kw.get('flags', 0), E)


class RePattern:
    """a compiled pattern: its methods are the module functions with the pattern as first argument"""
    def __init__(self, pattern, flags, E):
        self.pattern, self.flags, self.E = pattern, flags, E

    def abs_getattr(self, interp, name, node):
        if name == 'pattern':
            return self.pattern
        if name in ('match', 'search', 'fullmatch', 'sub', 'split', 'findall'):
            fn = self.E['re.' + name]
            extra = {'flags': self.flags} if self.flags else {}
            return PyCallable(lambda it, a, k, n: fn(it, [self.pattern] + list(a), dict(k, **extra), n), name)
        raise AnalysisError(f'compiled pattern attribute {name} not modelled', node)


class ReMatch:
    def __init__(self, m):
        self.m = m

    def abs_truth(self):
        return True

    def abs_getattr(self, interp, name, node):
        if name in ('group', 'groups', 'start', 'end', 'span'):
            return PyCallable(lambda it, a, k, n: getattr(self.m, name)(*a), name)
        raise AnalysisError(f'match.{name} not modelled', node)
