"""E0: program model of /repo/ioos_qc — parsed afresh from the working tree on every run."""
import ast
import hashlib
import os
from pathlib import Path

REPO = Path(os.environ.get('VERIF_REPO', '/repo'))
PKG = 'ioos_qc'


class AnalysisError(Exception):
    """The analyser cannot interpret a construct (INCONCLUSIVE -> exit 2), never a violation."""

    def __init__(self, msg, node=None, where=None):
        super().__init__(msg)
        self.msg = msg
        self.node = node
        self.where = where

    def __str__(self):
        loc = ''
        if self.where:
            loc = f' [{self.where}]'
        elif self.node is not None and hasattr(self.node, 'lineno'):
            loc = f' [line {self.node.lineno}]'
        return f'{self.msg}{loc}'


class Module:
    def __init__(self, name, path, source):
        self.name = name
        self.path = path
        self.source = source
        self.tree = ast.parse(source, filename=str(path))
        for node in ast.walk(self.tree):
            for child in ast.iter_child_nodes(node):
                child._parent = node
        self.functions = {}    # qualified (within module) name -> FunctionDef
        self.classes = {}
        self._index(self.tree.body, '')

    def _index(self, body, prefix):
        for st in body:
            if isinstance(st, (ast.FunctionDef, ast.AsyncFunctionDef)):
                q = prefix + st.name
                self.functions[q] = st
                self._index(st.body, q + '.')
            elif isinstance(st, ast.ClassDef):
                q = prefix + st.name
                self.classes[q] = st
                self._index(st.body, q + '.')
            elif isinstance(st, (ast.If, ast.Try, ast.With, ast.For, ast.While)):
                for fld in ('body', 'orelse', 'finalbody'):
                    self._index(getattr(st, fld, []) or [], prefix)
                for h in getattr(st, 'handlers', []) or []:
                    self._index(h.body, prefix)

    def rel(self):
        try:
            return str(self.path.relative_to(REPO))
        except ValueError:
            return str(self.path)


class Repo:
    def __init__(self, root=None):
        self.root = Path(root) if root else REPO
        self.modules = {}
        pkg = self.root / PKG
        if not pkg.is_dir():
            raise AnalysisError(f'package directory {pkg} not found')
        for p in sorted(pkg.rglob('*.py')):
            rel = p.relative_to(self.root).with_suffix('')
            parts = list(rel.parts)
            if parts[-1] == '__init__':
                parts = parts[:-1]
            name = '.'.join(parts)
            try:
                src = p.read_text()
                self.modules[name] = Module(name, p, src)
            except SyntaxError as e:
                raise AnalysisError(f'syntax error in {p}: {e}')

    def module(self, name):
        if name not in self.modules:
            raise AnalysisError(f'module {name} not found in working tree')
        return self.modules[name]

    def function(self, modname, qual):
        m = self.module(modname)
        if qual not in m.functions:
            raise AnalysisError(f'anchor function {modname}.{qual} not found')
        return m.functions[qual]

    def digest(self, names=None):
        h = hashlib.sha256()
        for n in sorted(names or self.modules):
            h.update(n.encode())
            h.update(self.modules[n].source.encode())
        return h.hexdigest()[:16]

    def stats(self):
        return {
            'modules': len(self.modules),
            'functions': sum(len(m.functions) for m in self.modules.values()),
            'classes': sum(len(m.classes) for m in self.modules.values()),
            'lines': sum(m.source.count('\n') + 1 for m in self.modules.values()),
        }


def unparse(node, limit=160):
    try:
        s = ast.unparse(node)
    except Exception:
        s = ast.dump(node)
    s = ' '.join(s.split())
    return s if len(s) <= limit else s[:limit - 3] + '...'


def site(mod, node, func=None):
    """stable, human readable site description: file:function: statement (line is for the reader only)"""
    fn = f':{func}' if func else ''
    ln = getattr(node, 'lineno', '?')
    return f'{mod.rel()}{fn}:{ln}: {unparse(node, 100)}'
