"""Additional numpy / pandas models (added after the first seeded changes showed that refactoring-style edits reach for
API outside the original table).  Same conventions as models_lib.py; every function states the library fact it encodes."""
import math
from fractions import Fraction as Fr

from . import expr as X
from .interp import AbsRaise, ExcVal, ExtRef, FB, ModelMethod, mkbool
from .models import PyCallable, as_operand, bool_of_el, num_of_el, parse_dtype
from .repo import AnalysisError
from .vec import MASKED, NONE_EL, El, Masked, Sc, Vec, Vec2, m_conc, m_formula, m_or


def register(M):
    E = M.ext_call
    MT = M.methods
    from .models_np import IndexSet, broadcast, concrete_int, result_kind

    def ext(*paths):
        def deco(fn):
            for p in paths:
                E[p] = fn
            return fn
        return deco

    def as_vec(interp, v, node):
        if isinstance(v, Vec):
            return v
        if isinstance(v, (list, tuple)):
            return M.to_array(interp, v, node)
        return None

    def kwarg(args, kw, i, name, default=None):
        return args[i] if len(args) > i else kw.get(name, default)

    def elem(v):
        o = as_operand(v)
        if o is None:
            raise AnalysisError(f'operand {type(v).__name__} not modelled')
        return El(o[1], o[2])

    # ---- masked_where family: mask where the condition's data is true (in addition to an existing mask) -------------
    def masked_where(interp, cond, arr, node):
        a = as_vec(interp, arr, node)
        c = as_vec(interp, cond, node)
        if a is None or c is None or len(a) != len(c):
            raise AbsRaise(ExcVal('IndexError', ('Inconsistent shape between the condition and the input',)), node)
        out = []
        for ea, ec in zip(a.els(), c.els()):
            f = bool_of_el(ec.d)
            cm = f if f not in (X.TRUE, X.FALSE) else (f == X.TRUE)
            out.append(El(ea.d, m_or(m_or(ea.m if a.kind == 'ma' else False, cm), ec.m if c.kind == 'ma' else False)))
        return Vec.fresh(out, kind='ma', dtype=a.dtype, unit=a.unit)

    @ext('numpy.ma.masked_where')
    def _masked_where(interp, args, kw, node):
        return masked_where(interp, args[0], args[1], node)

    def _masked_cmp(op):
        def f(interp, args, kw, node):
            a = as_vec(interp, args[0], node)
            v = elem(args[1])
            cond = Vec.fresh([El(X.cmp(op, num_of_el(e.d), num_of_el(v.d)), False) for e in a.els()], kind='nd', dtype='b1')
            return masked_where(interp, cond, a, node)
        return f
    E['numpy.ma.masked_less'] = _masked_cmp('lt')
    E['numpy.ma.masked_less_equal'] = _masked_cmp('le')
    E['numpy.ma.masked_greater'] = _masked_cmp('gt')
    E['numpy.ma.masked_greater_equal'] = _masked_cmp('ge')
    E['numpy.ma.masked_equal'] = E['numpy.ma.masked_values'] = _masked_cmp('eq')
    E['numpy.ma.masked_not_equal'] = _masked_cmp('ne')

    def _masked_range(inside):
        def f(interp, args, kw, node):
            a = as_vec(interp, args[0], node)
            lo, hi = sorted([M.conc_num(args[1], node), M.conc_num(args[2], node)])
            out = []
            for e in a.els():
                d = num_of_el(e.d)
                fin = X.f_and(X.cmp('ge', d, X.num(lo)), X.cmp('le', d, X.num(hi)))
                out.append(El(fin if inside else X.f_not(fin), False))
            return masked_where(interp, Vec.fresh(out, kind='nd', dtype='b1'), a, node)
        return f
    E['numpy.ma.masked_inside'] = _masked_range(True)
    E['numpy.ma.masked_outside'] = _masked_range(False)

    @ext('numpy.ma.is_masked')
    def _is_masked(interp, args, kw, node):
        v = args[0]
        if isinstance(v, Masked):
            return True
        if isinstance(v, Vec) and v.kind == 'ma':
            fs = [m_formula(e.m) for e in v.els()]
            return mkbool(X.f_or(*fs)) if fs else False
        return False

    @ext('numpy.ma.count_masked')
    def _count_masked(interp, args, kw, node):
        v = as_vec(interp, args[0], node)
        return sum(1 for e in v.els() if m_conc(e.m, node, 'count_masked'))

    @ext('numpy.ma.count')
    def _ma_count(interp, args, kw, node):
        v = as_vec(interp, args[0], node)
        return sum(1 for e in v.els() if not m_conc(e.m, node, 'count'))

    @ext('numpy.count_nonzero')
    def _count_nonzero(interp, args, kw, node):
        v = as_vec(interp, args[0], node)
        n = 0
        for e in v.els():
            f = bool_of_el(e.d)
            if f == X.TRUE:
                n += 1
            elif f != X.FALSE:
                raise AnalysisError('count_nonzero of undecided values', node)
        return n

    # ---- elementwise helpers -----------------------------------------------------------------------------------
    def clip_el(d, lo, hi):
        if lo is not None:
            d = X.max_(d, lo)
        if hi is not None:
            d = X.min_(d, hi)
        return d

    @ext('numpy.clip')
    def _clip(interp, args, kw, node):
        a = as_vec(interp, args[0], node)
        lo = kwarg(args, kw, 1, 'a_min')
        hi = kwarg(args, kw, 2, 'a_max')
        lo = None if lo is None else num_of_el(elem(lo).d)
        hi = None if hi is None else num_of_el(elem(hi).d)
        return a.like([El(clip_el(num_of_el(e.d), lo, hi), e.m) for e in a.els()])
    MT[(Vec, 'clip')] = lambda it, o, a, k, n: _clip(it, [o] + list(a), k, n)

    @ext('numpy.nan_to_num')
    def _nan_to_num(interp, args, kw, node):
        a = as_vec(interp, args[0], node)
        repl = X.num(M.conc_num(kw.get('nan', 0), node))
        out = []
        for e in a.els():
            d = e.d
            if d == X.NAN:
                d = repl
            elif d == X.ANY:
                d = X.ANY
            out.append(El(d, e.m))
        return a.like(out)

    @ext('numpy.isin', 'numpy.in1d')
    def _isin(interp, args, kw, node):
        a = as_vec(interp, args[0], node)
        vals = interp.iterate(args[1], node) if not isinstance(args[1], Vec) else [Sc(e.d) for e in args[1].els()]
        vs = [num_of_el(elem(v).d) for v in vals]
        out = [El(X.f_or(*[X.cmp('eq', num_of_el(e.d), v) for v in vs]) if vs else X.FALSE, False) for e in a.els()]
        if kw.get('invert'):
            out = [El(X.f_not(e.d), False) for e in out]
        return Vec.fresh(out, kind='nd', dtype='b1')

    @ext('numpy.arange')
    def _arange(interp, args, kw, node):
        nums = [M.conc_num(a, node) for a in args]
        if len(nums) == 1:
            start, stop, step = Fr(0), nums[0], Fr(1)
        elif len(nums) == 2:
            start, stop, step = nums[0], nums[1], Fr(1)
        else:
            start, stop, step = nums[:3]
        if step == 0:
            raise AbsRaise(ExcVal('ZeroDivisionError'), node)
        n = max(0, math.ceil((stop - start) / step))
        if n > 10000:
            raise AnalysisError('arange too long', node)
        ints = all(v.denominator == 1 for v in (start, stop, step))
        return Vec.fresh([El(X.num(start + step * i), False) for i in range(n)], kind='nd', dtype='i8' if ints else 'f8')

    @ext('numpy.roll')
    def _roll(interp, args, kw, node):
        a = as_vec(interp, args[0], node)
        k = concrete_int(M, args[1], node)
        els = a.els()
        n = len(els)
        if n == 0:
            return a.copy()
        k %= n
        return a.like(els[-k:] + els[:-k] if k else els)

    @ext('numpy.flip', 'numpy.flipud')
    def _flip(interp, args, kw, node):
        a = as_vec(interp, args[0], node)
        return a.view(list(reversed(a.idx)))

    @ext('numpy.cumsum')
    def _cumsum(interp, args, kw, node):
        a = as_vec(interp, args[0], node)
        acc = X.num(0)
        out = []
        for e in a.els():
            acc = X.add(acc, num_of_el(e.d))
            out.append(El(acc, e.m))
        return a.like(out, dtype='f8' if a.dtype == 'f8' else 'i8')

    @ext('numpy.select')
    def _select(interp, args, kw, node):
        conds, choices = args[0], args[1]
        default = kwarg(args, kw, 2, 'default', 0)
        conds = [as_vec(interp, c, node) for c in conds]
        n = len(conds[0])
        out = []
        for i in range(n):
            dflt = default.el(i) if isinstance(default, Vec) else elem(default)
            d = num_of_el(dflt.d)
            for c, ch in reversed(list(zip(conds, choices))):
                che = ch.el(i) if isinstance(ch, Vec) else elem(ch)
                d = X.ite(bool_of_el(c.el(i).d), num_of_el(che.d), d)
            out.append(El(d, False))
        return Vec.fresh(out, kind='nd', dtype='f8')

    @ext('numpy.atleast_1d', 'numpy.squeeze', 'numpy.ravel')
    def _atleast(interp, args, kw, node):
        a = as_vec(interp, args[0], node)
        if a is None:
            o = as_operand(args[0])
            if o is None:
                raise AnalysisError('atleast_1d argument not modelled', node)
            return Vec.fresh([El(o[1], o[2])], kind='nd', dtype='f8')
        return a

    @ext('numpy.isnat')
    def _isnat(interp, args, kw, node):
        a = as_vec(interp, args[0], node)
        return Vec.fresh([El(X.TRUE if e.d == X.NAN else X.FALSE, False) for e in a.els()], kind='nd', dtype='b1')

    def _scalar_ctor(code):
        def f(interp, args, kw, node):
            if not args:
                return Sc(X.num(0), code)
            v = args[0]
            if isinstance(v, Vec):
                from .models_lib import register as _r  # noqa: F401
                return M.call_method(interp, v, 'astype', [code], {}, node)
            o = as_operand(v)
            if o is None:
                if v is None:
                    raise AbsRaise(ExcVal('TypeError', ('float() argument must be a number',)), node)
                raise AnalysisError(f'{code}({type(v).__name__}) not modelled', node)
            if o[2]:
                return MASKED
            d = o[1]
            if code in ('i8', 'u1') and X.is_num(d):
                d = X.num(Fr(math.trunc(d[1])))
            return Sc(num_of_el(d) if code != 'b1' else bool_of_el(d), code)
        return f
    E['numpy.float64'] = E['numpy.float32'] = E['numpy.double'] = _scalar_ctor('f8')
    E['numpy.int64'] = E['numpy.int32'] = E['numpy.intp'] = _scalar_ctor('i8')
    E['numpy.uint8'] = _scalar_ctor('u1')
    E['numpy.byte'] = _scalar_ctor('i8')

    @ext('numpy.timedelta64')
    def _td64(interp, args, kw, node):
        from .models import UNIT_SECONDS
        n = M.conc_num(args[0], node)
        unit = args[1] if len(args) > 1 else 'generic'
        if unit not in UNIT_SECONDS:
            raise AnalysisError(f'timedelta64 unit {unit!r}', node)
        return Sc(X.num(n * UNIT_SECONDS[unit]), 'm8', unit)

    @ext('pandas.Timedelta')
    def _pd_timedelta(interp, args, kw, node):
        from .models import UNIT_SECONDS
        if args and isinstance(args[0], (int, Fr)) and len(args) > 1:
            return Sc(X.num(Fr(args[0]) * UNIT_SECONDS[args[1]]), 'm8', 'ns')
        if args and isinstance(args[0], str) and len(args) == 1 and not kw:
            import re
            m = re.fullmatch(r'\s*(-?[0-9]*\.?[0-9]+(?:[eE][-+]?[0-9]+)?)\s*(ns|us|ms|s|S|sec|second|seconds|min|T|m|h|H|D|d|days?|hours?|minutes?)\s*', args[0])
            if not m:
                raise AbsRaise(ExcVal('ValueError', (f'unit abbreviation w/o a number / invalid Timedelta string {args[0]!r}',)), node)
            unit = {'ns': Fr(1, 10 ** 9), 'us': Fr(1, 10 ** 6), 'ms': Fr(1, 1000), 's': 1, 'S': 1, 'sec': 1, 'second': 1, 'seconds': 1, 'min': 60, 'T': 60, 'm': 60,
                    'minute': 60, 'minutes': 60, 'h': 3600, 'H': 3600, 'hour': 3600, 'hours': 3600, 'D': 86400, 'd': 86400, 'day': 86400, 'days': 86400}[m.group(2)]
            return Sc(X.num(Fr(m.group(1)) * unit), 'm8', 'ns')
        if args and isinstance(args[0], Sc) and args[0].dtype == 'm8' and len(args) == 1 and not kw:
            return args[0]
        if len(args) == 1 and not kw and (isinstance(args[0], (int, Fr)) and not isinstance(args[0], bool) or isinstance(args[0], Sc) and args[0].dtype in ('i8', 'f8', 'u1') and args[0].concrete()):
            # library fact: a bare number is a number of nanoseconds (whole ones: a float is truncated)
            v = args[0].value() if isinstance(args[0], Sc) else Fr(args[0])
            import math as _m
            return Sc(X.num(Fr(_m.trunc(v), 10 ** 9)), 'm8', 'ns')
        if len(args) == 1 and isinstance(args[0], (int, Fr)) and set(kw) == {'unit'} and kw['unit'] in UNIT_SECONDS:
            return Sc(X.num(Fr(args[0]) * UNIT_SECONDS[kw['unit']]), 'm8', 'ns')
        total = Fr(0)
        units = {'weeks': 604800, 'days': 86400, 'hours': 3600, 'minutes': 60, 'seconds': 1, 'milliseconds': Fr(1, 1000), 'microseconds': Fr(1, 10**6), 'nanoseconds': Fr(1, 10**9)}
        if args or not kw or set(kw) - set(units):
            raise AnalysisError('pd.Timedelta form not modelled', node)
        for k, u in units.items():
            if k in kw:
                total += M.conc_num(kw[k], node) * u
        return Sc(X.num(total), 'm8', 'ns')

    @ext('pandas.isna', 'pandas.isnull')
    def _pd_isna(interp, args, kw, node):
        v = args[0]
        if v is None:
            return True
        if isinstance(v, Masked):
            return True
        a = as_vec(interp, v, node)
        if a is None:
            o = as_operand(v)
            return o is not None and o[1] == X.NAN
        return Vec.fresh([El(X.TRUE if (e.d in (X.NAN, NONE_EL) or e.m is True) else (X.UNK if e.d == X.ANY else X.FALSE), False) for e in a.els()],
                         kind='series' if a.kind == 'series' else 'nd', dtype='b1', index=a.index if a.kind == 'series' else None)

    @ext('pandas.notna', 'pandas.notnull')
    def _pd_notna(interp, args, kw, node):
        r = _pd_isna(interp, args, kw, node)
        if isinstance(r, bool):
            return not r
        return r.like([El(X.f_not(e.d), False) for e in r.els()])

    @ext('math.isnan')
    def _math_isnan(interp, args, kw, node):
        o = as_operand(args[0])
        if o is None:
            raise AbsRaise(ExcVal('TypeError', ('must be real number',)), node)
        if o[1] == X.NAN:
            return True
        if o[1] == X.ANY:
            return mkbool(X.UNK)
        return False

    @ext('math.ceil')
    def _ceil(interp, args, kw, node):
        return int(math.ceil(M.conc_num(args[0], node)))

    @ext('math.sqrt')
    def _sqrt(interp, args, kw, node):
        v = M.conc_num(args[0], node)
        r = Fr(math.isqrt(int(v))) if v.denominator == 1 and math.isqrt(int(v)) ** 2 == v else Fr(math.sqrt(v))
        return r

    @ext('builtins.divmod')
    def _divmod(interp, args, kw, node):
        a, b = M.conc_num(args[0], node), M.conc_num(args[1], node)
        q = Fr(math.floor(a / b))
        return (q, a - b * q)

    # ---- pandas Series methods ---------------------------------------------------------------------------------
    def series_only(v, name, node):
        if v.kind != 'series':
            raise AbsRaise(ExcVal('AttributeError', (f"'{v.kind}' object has no attribute '{name}'",)), node)

    def _s_diff(interp, v, args, kw, node):
        if v.kind in ('nd', 'ma'):
            raise AbsRaise(ExcVal('AttributeError', ("'numpy.ndarray' object has no attribute 'diff'",)), node)
        k = concrete_int(M, kwarg(args, kw, 0, 'periods', 1), node)
        els = v.els()
        out = []
        for i in range(len(els)):
            j = i - k
            if 0 <= j < len(els):
                out.append(El(X.sub(num_of_el(els[i].d), num_of_el(els[j].d)), False))
            else:
                out.append(El(X.NAN, False))
        dt, unit = v.dtype, v.unit
        if dt == 'M8':
            dt, unit = 'm8', 'ns'
        return v.like(out, dtype=dt if dt in ('m8',) else 'f8', unit=unit)
    MT[(Vec, 'diff')] = _s_diff

    def _s_shift(interp, v, args, kw, node):
        series_only(v, 'shift', node)
        k = concrete_int(M, kwarg(args, kw, 0, 'periods', 1), node)
        els = v.els()
        out = [els[i - k] if 0 <= i - k < len(els) else El(X.NAN, False) for i in range(len(els))]
        return v.like(out, dtype='f8' if v.dtype in ('i8', 'u1', 'b1') else v.dtype)
    MT[(Vec, 'shift')] = _s_shift

    def _s_abs(interp, v, args, kw, node):
        return v.like([El(X.abs_(num_of_el(e.d)), e.m) for e in v.els()])
    MT[(Vec, 'abs')] = _s_abs

    def _s_isna(interp, v, args, kw, node):
        return _pd_isna(interp, [v], {}, node)
    MT[(Vec, 'isna')] = MT[(Vec, 'isnull')] = _s_isna
    MT[(Vec, 'notna')] = MT[(Vec, 'notnull')] = lambda it, v, a, k, n: _pd_notna(it, [v], {}, n)

    def _s_fillna(interp, v, args, kw, node):
        series_only(v, 'fillna', node)
        val = elem(kwarg(args, kw, 0, 'value'))
        return v.like([El(val.d, False) if e.d == X.NAN else e for e in v.els()])
    MT[(Vec, 'fillna')] = _s_fillna

    def _s_fill(direction):
        def f(interp, v, args, kw, node):
            series_only(v, direction, node)
            if args or set(kw) - {'inplace'} or kw.get('inplace'):
                raise AnalysisError(f'Series.{direction} with arguments not modelled', node)
            els = v.els()
            order = range(len(els)) if direction == 'ffill' else range(len(els) - 1, -1, -1)
            last, out = None, [None] * len(els)
            for i in order:
                if els[i].d != X.NAN:
                    last = els[i]
                out[i] = El(last.d, False) if last is not None else els[i]
            return v.like(out)
        return f
    MT[(Vec, 'ffill')] = _s_fill('ffill')
    MT[(Vec, 'bfill')] = _s_fill('bfill')

    def _s_where(interp, v, args, kw, node):
        """Series.where(cond, other=NaN): keep where cond, else other.  ndarray has no .where"""
        series_only(v, 'where', node)
        cond = as_vec(interp, args[0], node)
        other = kwarg(args, kw, 1, 'other', float('nan'))
        out = []
        for i, e in enumerate(v.els()):
            oe = other.el(i) if isinstance(other, Vec) else elem(other)
            out.append(El(X.ite(bool_of_el(cond.el(i).d), num_of_el(e.d), num_of_el(oe.d)), False))
        return v.like(out, dtype='f8')
    MT[(Vec, 'where')] = _s_where

    def _s_between(interp, v, args, kw, node):
        series_only(v, 'between', node)
        lo, hi = elem(args[0]), elem(args[1])
        inc = kw.get('inclusive', 'both')
        lop = 'ge' if inc in ('both', 'left', True) else 'gt'
        hop = 'le' if inc in ('both', 'right', True) else 'lt'
        return v.like([El(X.f_and(X.cmp(lop, num_of_el(e.d), num_of_el(lo.d)), X.cmp(hop, num_of_el(e.d), num_of_el(hi.d))), False) for e in v.els()], dtype='b1')
    MT[(Vec, 'between')] = _s_between

    def _v_round(interp, v, args, kw, node):
        nd = concrete_int(M, kwarg(args, kw, 0, 'decimals', 0), node)
        out = []
        for e in v.els():
            d = num_of_el(e.d)
            out.append(El(X.num(Fr(round(d[1], nd))) if X.is_num(d) else (d if d in (X.NAN, X.ANY) else X.fn(f'round{nd}', d)), e.m))
        return v.like(out)
    MT[(Vec, 'round')] = _v_round

    def _v_cumsum(interp, v, args, kw, node):
        return _cumsum(interp, [v], {}, node)
    MT[(Vec, 'cumsum')] = _v_cumsum

    def _v_nonzero(interp, v, args, kw, node):
        return E['numpy.nonzero'](interp, [v], {}, node)
    MT[(Vec, 'nonzero')] = _v_nonzero

    def _total_seconds(interp, v, args, kw, node):
        if v.dtype != 'm8':
            raise AbsRaise(ExcVal('AttributeError', ('total_seconds',)), node)
        return v.like([El(e.d, e.m) for e in v.els()], dtype='f8', unit=None)
    MT[(Vec, 'total_seconds')] = _total_seconds


def register2(M):
    """second batch: API seen in refactoring-style seeded changes"""
    import itertools
    E = M.ext_call
    MT = M.methods
    from .models_np import IndexSet, concrete_int

    def as_vec(interp, v, node):
        if isinstance(v, Vec):
            return v
        if isinstance(v, (list, tuple)):
            return M.to_array(interp, v, node)
        return None

    def kwarg(args, kw, i, name, default=None):
        return args[i] if len(args) > i else kw.get(name, default)

    def conc_list(interp, v, node, what):
        a = as_vec(interp, v, node)
        if a is None:
            raise AnalysisError(f'{what}: argument not modelled', node)
        out = []
        for e in a.els():
            if not X.is_num(e.d):
                raise AnalysisError(f'{what} needs concrete values', node)
            out.append(e.d[1])
        return out

    # np.digitize(x, bins, right=False): index i such that bins[i-1] <= x < bins[i] (increasing bins) or, for
    # decreasing bins, bins[i-1] > x >= bins[i]; right=True moves the closed end.  bins must be concrete and monotonic.
    def digitize(interp, args, kw, node):
        x = as_vec(interp, args[0], node)
        bins = conc_list(interp, args[1], node, 'np.digitize bins')
        right = bool(kwarg(args, kw, 2, 'right', False))
        inc = all(a <= b for a, b in zip(bins, bins[1:]))
        dec = all(a >= b for a, b in zip(bins, bins[1:]))
        if not (inc or dec):
            raise AbsRaise(ExcVal('ValueError', ('bins must be monotonically increasing or decreasing',)), node)
        out = []
        for e in x.els():
            d = num_of_el(e.d)
            if d == X.NAN:
                out.append(El(X.num(len(bins) if inc else 0), e.m))
                continue
            if inc:
                # number of bins b with b <= x (right=False) or b < x (right=True)
                terms = [X.ite(X.cmp('ge' if not right else 'gt', d, X.num(b)), X.num(1), X.num(0)) for b in bins]
            else:
                # decreasing bins: number of bins b with b > x (right=False) or b >= x (right=True)
                terms = [X.ite(X.cmp('lt' if not right else 'le', d, X.num(b)), X.num(1), X.num(0)) for b in bins]
            out.append(El(count_sum(terms), e.m))
        return Vec.fresh(out, kind='nd', dtype='i8')
    E['numpy.digitize'] = digitize

    def count_sum(terms):
        """sum of 0/1 ite terms as a nested ite over the count (keeps the element an ite tree over formulas)"""
        def go(i, acc):
            if i == len(terms):
                return X.num(acc)
            t = terms[i]
            if X.is_num(t):
                return go(i + 1, acc + int(t[1]))
            return X.ite(t[1], go(i + 1, acc + 1), go(i + 1, acc))
        return go(0, 0)

    # searchsorted on concrete, sorted-or-not data: numpy bisects assuming sorted input
    def searchsorted(interp, arr, value, side, node):
        import bisect
        xs = conc_list(interp, arr, node, 'searchsorted')
        vv = as_vec(interp, value, node) if not isinstance(value, (int, Fr, float, Sc)) else None
        if vv is not None:
            # an array of values: one insertion point each
            return Vec.fresh([El(X.num(searchsorted(interp, arr, Sc(e.d, vv.dtype, vv.unit), side, node)), False) for e in vv.els()], kind='nd', dtype='i8')
        o = as_operand(value)
        if o is None or not X.is_num(o[1]):
            raise AnalysisError('searchsorted needs a concrete value', node)
        v = o[1][1]
        lo, hi = 0, len(xs)
        while lo < hi:          # the bisection numpy performs, also on unsorted input
            mid = (lo + hi) // 2
            if (xs[mid] < v) if side == 'left' else (xs[mid] <= v):
                lo = mid + 1
            else:
                hi = mid
        return lo
    E['numpy.searchsorted'] = lambda it, a, k, n: searchsorted(it, a[0], a[1], kwarg(a, k, 2, 'side', 'left'), n)
    MT[(Vec, 'searchsorted')] = lambda it, v, a, k, n: searchsorted(it, v, a[0], kwarg(a, k, 1, 'side', 'left'), n)

    def accumulate(fn):
        def f(interp, args, kw, node):
            a = as_vec(interp, args[0], node)
            out, acc = [], None
            for e in a.els():
                d = num_of_el(e.d)
                acc = d if acc is None else fn(acc, d)
                out.append(El(acc, e.m))
            return a.like(out)
        return f
    E['numpy.maximum.accumulate'] = accumulate(X.max_)
    E['numpy.minimum.accumulate'] = accumulate(X.min_)
    E['numpy.add.accumulate'] = accumulate(X.add)

    def sliding_window_view(interp, args, kw, node):
        a = as_vec(interp, args[0], node)
        w = kwarg(args, kw, 1, 'window_shape')
        if isinstance(w, (tuple, list)):
            w = w[0]
        w = concrete_int(M, w, node)
        n = len(a)
        if w > n:
            raise AbsRaise(ExcVal('ValueError', ('window_shape cannot be larger than input array shape',)), node)
        if w <= 0:
            raise AbsRaise(ExcVal('ValueError', ('window_shape must be positive',)), node)
        rows = [a.view(a.idx[i:i + w]) for i in range(n - w + 1)]
        return Vec2(rows, w, a.kind, a.dtype)
    E['numpy.lib.stride_tricks.sliding_window_view'] = sliding_window_view

    def convolve(interp, args, kw, node):
        a = as_vec(interp, args[0], node)
        v = conc_list(interp, args[1], node, 'np.convolve kernel')
        mode = kwarg(args, kw, 2, 'mode', 'full')
        n, m = len(a), len(v)
        if n == 0 or m == 0:
            raise AbsRaise(ExcVal('ValueError', ('a cannot be empty' if n == 0 else 'v cannot be empty',)), node)
        els = [num_of_el(e.d) for e in a.els()]
        full = []
        for k in range(n + m - 1):
            acc = X.num(0)
            for j in range(m):
                i = k - j
                if 0 <= i < n and v[j] != 0:
                    acc = X.add(acc, X.scale(els[i], v[j]))
                elif 0 <= i < n and els[i] in (X.NAN, X.ANY):
                    acc = X.add(acc, els[i])      # 0 * nan = nan
            full.append(El(acc, False))
        if mode == 'full':
            out = full
        elif mode == 'same':
            ln = max(n, m)
            start = (len(full) - ln) // 2
            out = full[start:start + ln]
        elif mode == 'valid':
            ln = max(n, m) - min(n, m) + 1
            start = min(n, m) - 1
            out = full[start:start + ln]
        else:
            raise AbsRaise(ExcVal('ValueError', ('mode must be full, same or valid',)), node)
        return Vec.fresh(out, kind='nd', dtype='f8')
    E['numpy.convolve'] = convolve

    def fix_invalid(interp, args, kw, node):
        """np.ma.fix_invalid(a, copy=True, fill_value=None): masks NaN/inf AND overwrites the data there with the fill value;
        with copy=False an ndarray argument is modified in place (library fact)"""
        a = args[0]
        copy = kwarg(args, kw, 2, 'copy', True)
        fv = kwarg(args, kw, 3, 'fill_value', None)
        v = as_vec(interp, a, node)
        fill = X.num(10 ** 20) if fv is None else num_of_el(as_operand(fv)[1])
        target = v if (copy is False and isinstance(a, Vec)) else v.copy()
        if target is v and getattr(v.back, 'readonly', False):
            raise AbsRaise(ExcVal('ValueError', ('assignment destination is read-only',)), node)
        out = Vec(target.back, list(target.idx), 'ma', target.dtype, target.unit)
        for i in range(len(out)):
            e = out.el(i)
            if e.d == X.NAN:
                if target is v and v.back.owner is not None:
                    interp.event('mutation', owner=v.back.owner, what='np.ma.fix_invalid(copy=False) overwrites NaN in place', node=node)
                out.set(i, El(fill, True))
            else:
                out.set(i, El(e.d, e.m if v.kind == 'ma' else False))
        return out
    E['numpy.ma.fix_invalid'] = fix_invalid

    # pandas Series reductions (NaN skipped; std is the sample deviation)
    def series_reduce(name):
        def f(interp, v, args, kw, node):
            vals = [num_of_el(e.d) for e in v.els() if e.d != X.NAN and e.m is not True]
            if v.kind not in ('series', 'index', 'dtindex'):
                return E['numpy.' + {'std': 'std'}.get(name, name)](interp, [v] + list(args), kw, node)
            if not vals:
                return Sc(X.NAN, 'f8')
            if name == 'std':
                ddof = kw.get('ddof', 1)
                if len(vals) - ddof <= 0:
                    return Sc(X.NAN, 'f8')
                return Sc(X.red('std_sample' if ddof == 1 else 'std', vals), 'f8')
            return Sc(X.red(name, vals), v.dtype, v.unit)
        return f
    for nm in ('min', 'max', 'mean', 'std', 'sum', 'median'):
        MT[(Vec, nm)] = series_reduce(nm)

    class FInfo:
        def __init__(self, bits=64):
            self.eps = Fr(2) ** -52 if bits == 64 else Fr(2) ** -23
            self.max = Fr(2) ** 1023 if bits == 64 else Fr(2) ** 127
            self.tiny = Fr(2) ** -1022

        def abs_getattr(self, interp, name, node):
            if name in ('eps', 'max', 'tiny', 'resolution'):
                return getattr(self, name if name != 'resolution' else 'eps')
            if name == 'min':
                return -self.max
            raise AnalysisError(f'finfo.{name} not modelled', node)
    E['numpy.finfo'] = lambda it, a, k, n: FInfo()
    E['numpy.spacing'] = lambda it, a, k, n: (_ for _ in ()).throw(AnalysisError('np.spacing (float spacing) is outside the exact-arithmetic model', n))

    def _attrgetter(it, a, k, n):
        # stdlib fact: dotted names are followed attribute by attribute; several names give a tuple
        if not a or not all(isinstance(x, str) for x in a):
            raise AbsRaise(ExcVal('TypeError', ('attribute name must be a string',)), n)

        def one(it2, obj, path, n2):
            for part in path.split('.'):
                obj = it2.getattr(obj, part, n2)
            return obj
        if len(a) == 1:
            return PyCallable(lambda it2, a2, k2, n2: one(it2, a2[0], a[0], n2), 'attrgetter')
        return PyCallable(lambda it2, a2, k2, n2: tuple(one(it2, a2[0], p, n2) for p in a), 'attrgetter')
    E['operator.attrgetter'] = _attrgetter

    def _itemgetter(it, a, k, n):
        if len(a) == 1:
            return PyCallable(lambda it2, a2, k2, n2: it2.models.getitem(it2, a2[0], a[0], n2), 'itemgetter')
        return PyCallable(lambda it2, a2, k2, n2: tuple(it2.models.getitem(it2, a2[0], key, n2) for key in a), 'itemgetter')
    E['operator.itemgetter'] = _itemgetter

    def _property_call(it, a, k, n):
        # property(fget[, fset[, fdel[, doc]]]) called as a function: the getter becomes the property object
        from .interp import FuncVal
        fget = a[0] if a else k.get('fget')
        fset = a[1] if len(a) > 1 else k.get('fset')
        if not isinstance(fget, FuncVal) or (fset is not None and not isinstance(fset, FuncVal)) or len(a) > 2 and a[2] is not None or k.get('fdel') is not None:
            raise AnalysisError('property(...) form not modelled', n)
        fget.is_property = True
        fget.setter = fset
        return fget
    E['builtins.property'] = _property_call

    def groupby(interp, args, kw, node):
        """itertools.groupby: consecutive runs of equal keys"""
        items = interp.iterate(args[0], node)
        key = kwarg(args, kw, 1, 'key')
        out = []
        from .models_np import eq_model
        for x in items:
            k = interp.call(key, [x], {}, node) if key is not None else x
            if out and (out[-1][0] is k or eq_model(M, interp, out[-1][0], k, node)):
                out[-1][1].append(x)
            else:
                out.append((k, [x]))
        return [(k, list(g)) for k, g in out]
    E['itertools.groupby'] = groupby

    # ---- itertools / operator / functools on interpreter values (stdlib; results are materialised lists) --------------------
    import itertools as _it

    def _lists(interp, args, node):
        return [list(interp.iterate(a, node)) for a in args]
    E['itertools.product'] = lambda it, a, k, n: [tuple(t) for t in _it.product(*_lists(it, a, n), repeat=k.get('repeat', 1))]
    E['itertools.chain'] = lambda it, a, k, n: [x for l in _lists(it, a, n) for x in l]
    E['itertools.chain.from_iterable'] = lambda it, a, k, n: [x for l in it.iterate(a[0], n) for x in it.iterate(l, n)]
    E['itertools.zip_longest'] = lambda it, a, k, n: [tuple(t) for t in _it.zip_longest(*_lists(it, a, n), fillvalue=k.get('fillvalue'))]
    E['itertools.permutations'] = lambda it, a, k, n: [tuple(t) for t in _it.permutations(list(it.iterate(a[0], n)), *a[1:])]
    E['itertools.combinations'] = lambda it, a, k, n: [tuple(t) for t in _it.combinations(list(it.iterate(a[0], n)), a[1])]
    E['itertools.pairwise'] = lambda it, a, k, n: [tuple(t) for t in _it.pairwise(list(it.iterate(a[0], n)))]
    E['itertools.repeat'] = lambda it, a, k, n: ([a[0]] * a[1] if len(a) > 1 else (_ for _ in ()).throw(AnalysisError('unbounded itertools.repeat', n)))
    E['itertools.starmap'] = lambda it, a, k, n: [it.call(a[0], list(it.iterate(t, n)), {}, n) for t in it.iterate(a[1], n)]
    E['itertools.islice'] = lambda it, a, k, n: list(_it.islice(list(it.iterate(a[0], n)), *a[1:]))
    E['itertools.compress'] = lambda it, a, k, n: [x for x, c in zip(it.iterate(a[0], n), it.iterate(a[1], n)) if it.truth(c, n) is True]
    E['itertools.takewhile'] = lambda it, a, k, n: list(_it.takewhile(lambda x: it.truth(it.call(a[0], [x], {}, n), n) is True, list(it.iterate(a[1], n))))
    E['itertools.dropwhile'] = lambda it, a, k, n: list(_it.dropwhile(lambda x: it.truth(it.call(a[0], [x], {}, n), n) is True, list(it.iterate(a[1], n))))
    E['itertools.filterfalse'] = lambda it, a, k, n: [x for x in it.iterate(a[1], n) if it.truth(it.call(a[0], [x], {}, n) if a[0] is not None else x, n) is not True]

    def _accumulate(interp, args, kw, node):
        items = list(interp.iterate(args[0], node))
        f = args[1] if len(args) > 1 else kw.get('func')
        out = []
        for x in items:
            out.append(x if not out else (interp.call(f, [out[-1], x], {}, node) if f is not None else M.binop(interp, 'Add', out[-1], x, node)))
        return out
    E['itertools.accumulate'] = _accumulate

    def _reduce(interp, args, kw, node):
        items = list(interp.iterate(args[1], node))
        if len(args) > 2:
            acc = args[2]
        elif items:
            acc, items = items[0], items[1:]
        else:
            raise AbsRaise(ExcVal('TypeError', ('reduce() of empty iterable with no initial value',)), node)
        for x in items:
            acc = interp.call(args[0], [acc, x], {}, node)
        return acc
    E['functools.reduce'] = _reduce

    def _chainmap(interp, args, kw, node):
        """collections.ChainMap read as a mapping: the first map holding a key wins (modelled as the merged dict; writes through it are not)"""
        out = {}
        for m in reversed(args):
            data = getattr(m, 'dict_data', m)
            if not isinstance(data, dict):
                raise AnalysisError('ChainMap over a non-dict mapping', node)
            out.update(data)
        return out
    E['collections.ChainMap'] = _chainmap

    def _counter(interp, args, kw, node):
        import collections as _c
        try:
            return dict(_c.Counter(list(interp.iterate(args[0], node)) if args else []))
        except TypeError:
            raise AnalysisError('Counter over unhashable interpreter values', node)
    E['collections.Counter'] = _counter

    class CachedFn:
        """functools.lru_cache / cache: results are kept per argument tuple and handed back as the same object"""
        def __init__(self, fn):
            self.fn, self.store = fn, {}

        def __call__(self, interp, args, kw, node):
            try:
                key = (tuple(args), tuple(sorted(kw.items())))
                hash(key)
            except TypeError:
                raise AbsRaise(ExcVal('TypeError', ('unhashable type',)), node)
            if key not in self.store:
                self.store[key] = interp.call(self.fn, list(args), dict(kw), node)
            return self.store[key]

    def _lru_cache(interp, args, kw, node):
        if args and not isinstance(args[0], (int, type(None))) and not kw:
            c = CachedFn(args[0])                  # @lru_cache without parentheses / @cache
            return PyCallable(c, 'cached')
        return PyCallable(lambda it, a, k, n: PyCallable(CachedFn(a[0]), 'cached'), 'lru_cache(...)')
    E['functools.lru_cache'] = E['functools.cache'] = _lru_cache
    for _nm, _op in (('lt', 'Lt'), ('le', 'LtE'), ('gt', 'Gt'), ('ge', 'GtE'), ('eq', 'Eq'), ('ne', 'NotEq'), ('is_', 'Is'), ('is_not', 'IsNot')):
        E['operator.' + _nm] = (lambda it, a, k, n, _op=_op: M.compare(it, _op, a[0], a[1], n))
    E['operator.contains'] = lambda it, a, k, n: M.compare(it, 'In', a[1], a[0], n)
    for _nm, _op in (('and_', 'BitAnd'), ('or_', 'BitOr'), ('xor', 'BitXor'), ('matmul', 'MatMult')):
        E['operator.' + _nm] = (lambda it, a, k, n, _op=_op: M.binop(it, _op, a[0], a[1], n))
    E['operator.not_'] = lambda it, a, k, n: (lambda t: (not t) if isinstance(t, bool) else (_ for _ in ()).throw(AnalysisError('operator.not_ on an undecided value', n)))(it.truth(a[0], n))
    E['operator.invert'] = E['operator.inv'] = lambda it, a, k, n: M.unaryop(it, 'Invert', a[0], n)
    E['operator.pos'] = lambda it, a, k, n: a[0]
    E['operator.abs'] = lambda it, a, k, n: it.call(ExtRef('builtins.abs'), [a[0]], {}, n)
    E['operator.getitem'] = lambda it, a, k, n: M.getitem(it, a[0], a[1], n)
    E['operator.truth'] = lambda it, a, k, n: it.truth(a[0], n)
    E['operator.methodcaller'] = lambda it, a, k, n: PyCallable(lambda it2, a2, k2, n2, _nm=a[0], _a=a[1:], _k=k: it2.call(it2.getattr(a2[0], _nm, n2), list(_a), dict(_k), n2), 'methodcaller')

    # transcendental functions: uninterpreted (exact arithmetic cannot evaluate them); identity is structural
    def uninterpreted(name):
        def f(interp, args, kw, node):
            vs = [as_vec(interp, a, node) for a in args]
            if any(v is not None for v in vs):
                n = max(len(v) for v in vs if v is not None)
                out = []
                for i in range(n):
                    es = [(v.el(i) if v is not None else El(as_operand(a)[1], False)) for v, a in zip(vs, args)]
                    m = False
                    for e in es:
                        m = m_or(m, e.m)
                    out.append(El(X.fn(name, *[num_of_el(e.d) for e in es]), m))
                tmpl = next(v for v in vs if v is not None)
                return tmpl.like(out, dtype='f8')
            ds = [num_of_el(as_operand(a)[1]) for a in args]
            return Sc(X.fn(name, *ds), 'f8')
        return f
    for nm in ('sin', 'cos', 'tan', 'arcsin', 'arccos', 'arctan', 'arctan2', 'radians', 'deg2rad', 'degrees', 'rad2deg', 'exp', 'log', 'log10',
               'hypot', 'power', 'sinh', 'cosh', 'tanh'):
        E['numpy.' + nm] = uninterpreted(nm)
    for nm in ('sin', 'cos', 'tan', 'asin', 'acos', 'atan', 'atan2', 'radians', 'degrees', 'exp', 'log', 'hypot'):
        E['math.' + nm] = uninterpreted(nm)
