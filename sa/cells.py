"""Order-cell tables: exhaustive evaluation of a flag expression over the finite set of orderings of
the quantities it compares, and comparison with a specification table.

A *quantity* is the non-constant side q of a canonical comparison atom ('cmp', op, q, ('num', r)).
For every quantity the candidate ranks are: each breakpoint r it is compared with (by the code or
by the spec), the midpoints between neighbouring breakpoints, and one value below / above all of
them.  A *cell* assigns one candidate rank to every quantity.  Evaluation is three-valued, so an
unknown comparison (data left under a numpy mask) yields a *set* of possible flags.

When code and spec disagree on a cell, the cell is confirmed by searching exact rational values of
the data atoms that realise it (the statistic forms are closed expressions, so this is evaluation
of the *extracted* expressions, not of repository code).  A realised cell is a violation with a
concrete witness; an unrealisable cell (e.g. product of two steps == 0 while their minimum modulus
is > 0) is an equivalent spelling and is not reported.
"""
import itertools
import random
from fractions import Fraction as Fr

from . import expr as X


def candidate_ranks(breaks):
    bs = sorted(set(breaks))
    if not bs:
        return [Fr(0)]
    out = [bs[0] - 1]
    for i, b in enumerate(bs):
        out.append(b)
        if i + 1 < len(bs):
            out.append((b + bs[i + 1]) / 2)
    out.append(bs[-1] + 1)
    return out


def collect_quantities(exprs, extra=()):
    """-> dict q -> set of breakpoints"""
    qs = {}
    for e in exprs:
        for a in X.atoms_of(e):
            qs.setdefault(a[2], set()).add(a[3][1])
    for q, bs in extra:
        qs.setdefault(q, set()).update(Fr(b) for b in bs)
    return qs


def numeric_evaluable(q):
    t = q[0]
    if t in ('num', 'x'):
        return True
    if t == 'lin':
        return all(numeric_evaluable(g) for g, _ in q[1])
    if t in ('abs', 'sign'):
        return numeric_evaluable(q[1])
    if t in ('min', 'max', 'mul'):
        return all(numeric_evaluable(a) for a in q[1])
    if t == 'div':
        return numeric_evaluable(q[1]) and numeric_evaluable(q[2])
    return False


def identity_evaluable(q):
    if numeric_evaluable(q):
        return True
    # a top-level (possibly scaled) standard deviation of evaluable arguments
    if q[0] == 'red' and q[1] in ('std', 'std_sample', 'std_pop', 'median'):
        return all(numeric_evaluable(a) for a in q[2])
    return False


def same_function(q1, q2, rng, trials=24):
    """polynomial-identity style test: do two closed forms agree on random rational points?"""
    if q1 == q2:
        return True
    if not (identity_evaluable(q1) and identity_evaluable(q2)):
        return False
    atoms = sorted(X.data_atoms(q1) | X.data_atoms(q2), key=repr)
    for _ in range(trials):
        env = {a: Fr(rng.randint(-40, 40), rng.choice((1, 2, 3, 4))) for a in atoms}
        env['__identity__'] = True
        try:
            if X.eval_num(q1, env) != X.eval_num(q2, env):
                return False
        except ZeroDivisionError:
            continue
    return True


def alias_quantities(code_qs, spec_qs, rng):
    """map code quantities onto equal spec quantities. -> dict code_q -> spec_q (identity if none)"""
    alias = {}
    for cq in code_qs:
        for sq in spec_qs:
            if same_function(cq, sq, rng):
                alias[cq] = sq
                break
    return alias


def substitute_alias(e, alias):
    """rewrite cmp atoms whose quantity has an alias"""
    if not alias or not isinstance(e, tuple) or not e:
        return e
    t = e[0]
    if t == 'cmp':
        if e[2] in alias:
            return ('cmp', e[1], alias[e[2]], e[3])
        return e
    if t == 'not':
        return ('not', substitute_alias(e[1], alias))
    if t in ('and', 'or'):
        return (t, tuple(substitute_alias(f, alias) for f in e[1]))
    if t == 'ite':
        return ('ite', substitute_alias(e[1], alias), substitute_alias(e[2], alias), substitute_alias(e[3], alias))
    return e


def flags_of(values):
    out = set()
    for v in values:
        if isinstance(v, tuple) and v and v[0] == 'num':
            f = v[1]
            out.add(int(f) if f.denominator == 1 else float(f))
        elif v == ('uninit',):
            out.add('uninit')
        elif v == X.NAN:
            out.add('nan')
        elif v == X.ANY:
            out.add('any')
        else:
            out.add(X.show(v))
    return out


_REALISE_CACHE = {}


def order_class(v, bps):
    """position of a value among sorted breakpoints: (number of breakpoints below it, whether it sits on one)"""
    below = sum(1 for b in bps if b < v)
    return (below, v in bps)


UNREALISED_CAP = 12      # per comparison: after this many disagreeing-but-unrealisable cells, switch to exact-data sampling


def axioms_ok(cell, env):
    """Facts about the named uninterpreted functions that a witness must respect: the geodesic distance between two equal
    positions is zero (and only then).  A cell whose witness contradicts them is infeasible, not a counter-example."""
    for q, r in cell.items():
        g = q[1] if q[0] == 'abs' else q
        if g[0] == 'fn' and g[1] in ('trunc', 'floor', 'ceil', 'rint') and len(g[2]) == 1:
            inner = g[2][0]
            for q2, r2 in cell.items():
                if q2 == inner or (q[0] == 'abs' and q2 == ('abs', inner)) or (q2[0] == 'abs' and q2[1] == inner and q[0] == 'abs'):
                    lo, hi = {'trunc': (-1, 1), 'floor': (-1, 0), 'ceil': (0, 1), 'rint': (Fr(-1, 2), Fr(1, 2))}[g[1]]
                    if not (lo <= r - r2 <= hi) or (g[1] == 'trunc' and abs(r) > abs(r2)):
                        return False
    if env is None:
        return True
    for q, r in cell.items():
        g = q[1] if q[0] == 'abs' else q
        if g[0] == 'fn' and g[1] == 'geodist' and len(g[2]) == 4:
            try:
                a = [X.eval_num(x, env) for x in g[2]]
            except Exception:
                continue
            same = a[0] == a[2] and a[1] == a[3]
            if same != (r == 0):
                return False
    return True


def realise(cell, rng, budget=1500, breaks=None):
    """breaks: dict q -> breakpoints.  With breaks a cell is realised by data that puts every quantity in the same
    *order class* (same side of every breakpoint), which is all a cell means; without, the exact ranks are required."""
    key = (tuple(sorted((repr(q), r) for q, r in cell.items() if numeric_evaluable(q))),
           None if breaks is None else tuple(sorted((repr(q), tuple(sorted(b))) for q, b in breaks.items() if q in cell)))
    if key not in _REALISE_CACHE:
        _REALISE_CACHE[key] = _realise(cell, rng, budget, breaks)
    return _REALISE_CACHE[key]


def _realise(cell, rng, budget=1500, breaks=None):
    """search exact rational atom values putting every numerically evaluable quantity on its rank.
    -> env dict or None.  Quantities that are not closed arithmetic forms (std, geodesic) are
    independent uninterpreted values and are always realisable (they get the rank itself)."""
    qs = [(q, r) for q, r in cell.items() if numeric_evaluable(q)]
    atoms = sorted({a for q, _ in qs for a in X.data_atoms(q)}, key=repr)
    if not atoms:
        for q, r in qs:
            if X.eval_num(q, {}) != r:
                return None
        return {}
    ranks = [r for _, r in qs]
    units = {Fr(1), Fr(1, 2)}
    for r in ranks:
        if r != 0:
            units.add(abs(r))
            units.add(abs(r) / 2)
    # coefficients far from 1 (e.g. a relative tolerance 1e-5) need data of the reciprocal magnitude to matter
    def coeffs(e, acc):
        if isinstance(e, tuple):
            if e and e[0] == 'lin':
                for g, k in e[1]:
                    if k != 0 and (abs(k) < Fr(1, 50) or abs(k) > 50):
                        acc.add(abs(1 / k))
                    coeffs(g, acc)
            else:
                for a in e:
                    if isinstance(a, tuple):
                        coeffs(a, acc)
        return acc
    big = set()
    for q, _ in qs:
        coeffs(q, big)
    units = sorted(units)[:4] + sorted(big)[:2]
    # 1. single-atom quantities: direct assignment
    env0 = {}
    for q, r in qs:
        if q[0] == 'x':
            env0[q] = r
    free = [a for a in atoms if a not in env0]

    classes = None
    if breaks is not None:
        classes = {q: (sorted(breaks.get(q, ())), order_class(r, sorted(breaks.get(q, ())))) for q, r in qs}

    def ok(env):
        for q, r in qs:
            try:
                v = X.eval_num(q, env)
            except ZeroDivisionError:
                return False
            if classes is None:
                if v != r:
                    return False
            else:
                bps, want = classes[q]
                if order_class(v, bps) != want:
                    return False
        return True
    if not free:
        return env0 if ok(env0) else None
    tried = 0
    # 2. small exhaustive grids, then random
    for u in units:
        span = 4 if len(free) <= 3 else (2 if len(free) == 4 else 1)
        grid = [u * k for k in range(-span, span + 1)]
        if len(grid) ** len(free) <= 1000:
            for combo in itertools.product(grid, repeat=len(free)):
                env = dict(env0)
                env.update(zip(free, combo))
                tried += 1
                if ok(env):
                    return env
                if tried > budget * 3:
                    break
    while tried < budget * 5:
        u = rng.choice(units)
        mixed = rng.random() < 0.5        # mixed magnitudes: every atom draws its own unit
        env = dict(env0)
        for a in free:
            ua = rng.choice(units) if mixed else u
            env[a] = ua * rng.randint(-12, 12) / rng.choice((1, 1, 2))
        tried += 1
        if ok(env):
            return env
    return None


class TableResult:
    def __init__(self):
        self.cells = 0
        self.distinct = set()
        self.mismatches = []      # dicts
        self.unrealised = 0
        self.samples = []


def compare_position(flag_expr, spec_quantities, allowed_fn, rng, result, label, max_cells=20000, extra_exprs=()):
    """flag_expr: ite tree of one output element.  spec_quantities: [(q, [breakpoints])].
    allowed_fn(cell) -> set of allowed flags (cell: dict q -> Fraction, containing every spec quantity)."""
    code_qs = collect_quantities([flag_expr, *extra_exprs])
    spec_qs = [q for q, _ in spec_quantities]
    alias = alias_quantities([q for q in code_qs if q not in spec_qs], spec_qs, rng)
    fexpr = substitute_alias(flag_expr, alias)
    qs = collect_quantities([fexpr], spec_quantities)
    order = sorted(qs, key=repr)
    cands = [candidate_ranks(qs[q]) for q in order]
    total = 1
    for c in cands:
        total *= len(c)
    if total > max_cells:
        from .repo import AnalysisError
        raise AnalysisError(f'{label}: {total} order cells exceed the enumeration bound {max_cells} '
                            f'({len(order)} compared quantities)')
    foreign = [q for q in order if q not in spec_qs]
    odd = [q for q in foreign if not numeric_evaluable(q) and not identity_evaluable(q)]
    spec_unint = [q for q in spec_qs if q[0] == 'fn' or (q[0] == 'abs' and q[1][0] == 'fn')]
    if odd and not spec_unint:
        # the code compares an expression with uninterpreted functions (sqrt, sin, ...) that the spec does not know: cells over it
        # are meaningless (it is not independent of the other quantities).  Decide by exact-data sampling of both sides instead.
        try:
            hit = sample_disagreement(fexpr, allowed_fn, rng, spec_quantities=spec_quantities, trials=150)
        except KeyError as e:
            from .repo import AnalysisError
            raise AnalysisError(f'{label}: the code compares {X.show(odd[0])[:80]}, which cannot be related to the specification ({e})')
        result.cells += 150
        result.sampled = getattr(result, 'sampled', 0) + 1
        if hit is not None:
            env, fa, fb = hit
            result.mismatches.append(dict(where=label, cell={'(sampled data)': ''}, got=sorted(map(str, fa)), allowed=sorted(map(str, fb)),
                                          witness={X.show(a): str(v) for a, v in env.items()}, foreign=[X.show(q) for q in foreign],
                                          expr=X.show(flag_expr)[:600]))
        return
    local_unrealised = 0
    for combo in itertools.product(*cands):
        cell = dict(zip(order, combo))
        got = flags_of(X.eval_values(fexpr, cell))
        want = allowed_fn(cell)
        result.cells += 1
        result.distinct.add((frozenset(got), tuple(combo)))
        if want is None:        # spec declares the cell impossible / out of scope
            continue
        if not got <= set(want):
            env = realise(cell, rng, breaks=qs)
            if (env is None and all(numeric_evaluable(q) for q in order)) or not axioms_ok(cell, env):
                result.unrealised += 1
                local_unrealised += 1
                if local_unrealised >= UNREALISED_CAP:
                    try:
                        hit = sample_disagreement(fexpr, allowed_fn, rng, spec_quantities=spec_quantities, trials=400)
                    except KeyError:
                        hit = None
                    result.cells += 400
                    if hit is not None:
                        env2, fa, fb = hit
                        result.mismatches.append(dict(where=label, cell={'(sampled data)': ''}, got=sorted(map(str, fa)), allowed=sorted(map(str, fb)),
                                                      witness={X.show(a): str(v) for a, v in env2.items()}, foreign=[X.show(q) for q in foreign],
                                                      expr=X.show(flag_expr)[:600]))
                    return
                continue
            if env is None:
                # a cell over quantities that cannot be evaluated exactly.  If the *code* compares a quantity the spec does not
                # know and that is an uninterpreted expression (sqrt, sin, ...), equality with the spec's quantity cannot be
                # excluded symbolically: hand the scenario to the concretised run instead of reporting.  The geodesic distance is
                # the exception: the property names the function, so a different expression is a difference.
                odd = [q for q in foreign if not numeric_evaluable(q) and not identity_evaluable(q)]
                spec_unint = [q for q in spec_qs if q[0] == 'fn' or (q[0] == 'abs' and q[1][0] == 'fn')]
                if odd and not spec_unint:
                    try:
                        hit = sample_disagreement(fexpr, allowed_fn, rng, spec_quantities=spec_quantities)
                    except KeyError as e:
                        from .repo import AnalysisError
                        raise AnalysisError(f'{label}: the code compares {X.show(odd[0])[:80]}, which cannot be related to the specification ({e})')
                    if hit is None:
                        result.unrealised += 1
                        result.sampled = getattr(result, 'sampled', 0) + 1
                        return        # no concrete disagreement found: treated as an equivalent spelling (sampled, not proved)
                    env, fa, fb = hit
                    result.mismatches.append(dict(where=label, cell={X.show(q): str(r) for q, r in cell.items()}, got=sorted(map(str, fa)),
                                                  allowed=sorted(map(str, fb)), witness={X.show(a): str(v) for a, v in env.items()},
                                                  foreign=[X.show(q) for q in foreign], expr=X.show(flag_expr)[:600]))
                    return
            result.mismatches.append(dict(
                where=label,
                cell={X.show(q): str(r) for q, r in cell.items()},
                got=sorted(map(str, got)), allowed=sorted(map(str, want)),
                witness=None if env is None else {X.show(a): str(v) for a, v in env.items()},
                foreign=[X.show(q) for q in foreign],
                expr=X.show(flag_expr)[:600],
            ))
            if len(result.mismatches) > 40:
                return
    if len(result.samples) < 3:
        result.samples.append(dict(where=label, flag=X.show(flag_expr)[:300], quantities=[X.show(q) for q in order], cells=total))


def fval(e, env):
    """floating-point value of an expression, uninterpreted functions evaluated with the math module (used only to look for
    a concrete witness when a cell contains quantities that exact arithmetic cannot evaluate)"""
    import math
    t = e[0]
    if t == 'num':
        return float(e[1])
    if t == 'x':
        return float(env[e])
    if t == 'nan':
        return float('nan')
    if t == 'lin':
        return sum(fval(g, env) * float(k) for g, k in e[1]) + float(e[2])
    if t == 'abs':
        return abs(fval(e[1], env))
    if t == 'sign':
        v = fval(e[1], env)
        return float((v > 0) - (v < 0))
    if t in ('min', 'max'):
        vs = [fval(a, env) for a in e[1]]
        return min(vs) if t == 'min' else max(vs)
    if t == 'mul':
        r = 1.0
        for a in e[1]:
            r *= fval(a, env)
        return r
    if t == 'div':
        return fval(e[1], env) / fval(e[2], env)
    if t == 'ite':
        return fval(e[2], env) if fbool(e[1], env) else fval(e[3], env)
    if t == 'red':
        vs = [fval(a, env) for a in e[2]]
        if e[1] in ('std', 'std_pop', 'std_sample'):
            m = sum(vs) / len(vs)
            return math.sqrt(sum((v - m) ** 2 for v in vs) / (len(vs) - (1 if e[1] == 'std_sample' else 0)))
        if e[1] == 'median':
            vs.sort()
            k = len(vs)
            return vs[k // 2] if k % 2 else (vs[k // 2 - 1] + vs[k // 2]) / 2
        if e[1] == 'mean':
            return sum(vs) / len(vs)
        if e[1] == 'sum':
            return sum(vs)
    if t == 'fn':
        a = [fval(x, env) for x in e[2]]
        name = e[1]
        table = {'sqrt': math.sqrt, 'sin': math.sin, 'cos': math.cos, 'tan': math.tan, 'arcsin': math.asin, 'asin': math.asin, 'arccos': math.acos,
                 'acos': math.acos, 'arctan': math.atan, 'atan': math.atan, 'arctan2': math.atan2, 'atan2': math.atan2, 'radians': math.radians,
                 'deg2rad': math.radians, 'degrees': math.degrees, 'rad2deg': math.degrees, 'exp': math.exp, 'log': math.log, 'log10': math.log10,
                 'hypot': math.hypot, 'power': math.pow, 'pow': math.pow, 'sinh': math.sinh, 'cosh': math.cosh, 'tanh': math.tanh,
                 'trunc': lambda v: float(math.trunc(v)), 'floor': lambda v: float(math.floor(v)), 'ceil': lambda v: float(math.ceil(v)),
                 'rint': lambda v: float(round(v)), 'floordiv': lambda x, y: float(math.floor(x / y)), 'mod': lambda x, y: x - y * math.floor(x / y)}
        if name in table:
            return table[name](*a)
        if name == 'inf':
            return math.inf if a[0] >= 0 else -math.inf
        if name == 'geodist':
            from geographiclib.geodesic import Geodesic
            return Geodesic.WGS84.Inverse(*a)['s12']
    raise KeyError(f'no float evaluation for {e[:2]!r}')


def fbool(f, env):
    t = f[0]
    if t == 'true':
        return True
    if t == 'false':
        return False
    if t == 'cmp':
        a, b = fval(f[2], env), fval(f[3], env)
        return {'lt': a < b, 'le': a <= b, 'gt': a > b, 'ge': a >= b, 'eq': a == b, 'ne': a != b}[f[1]]
    if t == 'not':
        return not fbool(f[1], env)
    if t == 'and':
        return all(fbool(g, env) for g in f[1])
    if t == 'or':
        return any(fbool(g, env) for g in f[1])
    raise KeyError(f'no float evaluation for formula {t}')


def fflag(e, env):
    """concrete flag of an ite tree under float evaluation"""
    while isinstance(e, tuple) and e and e[0] == 'ite':
        e = e[2] if fbool(e[1], env) else e[3]
    return flags_of([e])


def sample_disagreement(expr_a, expr_b_or_allowed, rng, spec_quantities=None, trials=80):
    """look for concrete data on which two flag expressions differ (or on which one leaves the allowed set of a spec).
    -> (env, flags_a, flags_b/allowed) or None;  raises KeyError when an expression cannot be evaluated numerically"""
    atoms = sorted(X.data_atoms(expr_a) | (X.data_atoms(expr_b_or_allowed) if isinstance(expr_b_or_allowed, tuple) else set()), key=repr)
    if spec_quantities:
        for q, _ in spec_quantities:
            atoms = sorted(set(atoms) | X.data_atoms(q), key=repr)
    scales = [1, 1, 2, 5, 30, 1000, 100000]
    for k in range(trials):
        sc = rng.choice(scales)
        env = {a: Fr(rng.randint(-8 * sc, 8 * sc), rng.choice((1, 2, 4))) for a in atoms}
        try:
            fa = fflag(expr_a, env)
            if isinstance(expr_b_or_allowed, tuple):
                fb = fflag(expr_b_or_allowed, env)
                if fa != fb:
                    return env, fa, fb
            else:
                cell = {q: fval(q, env) for q, _ in spec_quantities}
                want = expr_b_or_allowed(cell)
                if want is not None and not fa <= set(want):
                    return env, fa, set(want)
        except (ZeroDivisionError, ValueError, OverflowError):
            continue
    return None


def compare_pair(expr_a, expr_b, relation, rng, result, label, max_cells=20000):
    """joint cell enumeration of two flag expressions over the same data; relation(flags_a, flags_b) -> bool"""
    qs = collect_quantities([expr_a, expr_b])
    # identify equal functions between the two runs (e.g. |x| spelled differently)
    order = sorted(qs, key=repr)
    alias = {}
    canon = []
    for q in order:
        for c in canon:
            if same_function(q, c, rng):
                alias[q] = c
                break
        else:
            canon.append(q)
    ea, eb = substitute_alias(expr_a, alias), substitute_alias(expr_b, alias)
    qs = collect_quantities([ea, eb])
    order = sorted(qs, key=repr)
    cands = [candidate_ranks(qs[q]) for q in order]
    total = 1
    for c in cands:
        total *= len(c)
    if total > max_cells:
        from .repo import AnalysisError
        raise AnalysisError(f'{label}: {total} joint order cells exceed the bound')
    qa, qb = set(collect_quantities([ea])), set(collect_quantities([eb]))
    lone = [q for q in order if not numeric_evaluable(q) and not identity_evaluable(q) and not (q in qa and q in qb)
            and not (q[0] == 'fn' and q[1] == 'geodist') and not (q[0] == 'abs' and q[1][0] == 'fn' and q[1][1] == 'geodist')]
    if lone:
        # an uninterpreted expression that occurs in only one of the two runs: decide by exact-data sampling
        try:
            hit = None
            for _ in range(150):
                h = sample_disagreement(ea, eb, rng, trials=1)
                if h is not None and not relation(h[1], h[2]):
                    hit = h
                    break
        except KeyError as e:
            from .repo import AnalysisError
            raise AnalysisError(f'{label}: quantities that cannot be evaluated ({e})')
        result.cells += 150
        if hit is not None:
            result.mismatches.append(dict(where=label, cell={'(sampled data)': ''}, got=sorted(map(str, hit[1])), allowed=sorted(map(str, hit[2])),
                                          witness={X.show(a): str(v) for a, v in hit[0].items()}))
        return
    local_unrealised = 0
    for combo in itertools.product(*cands):
        cell = dict(zip(order, combo))
        fa = flags_of(X.eval_values(ea, cell))
        fb = flags_of(X.eval_values(eb, cell))
        result.cells += 1
        result.distinct.add((frozenset(fa), frozenset(fb), tuple(combo)))
        if not relation(fa, fb):
            env = realise(cell, rng, breaks=qs)
            if (env is None and all(numeric_evaluable(q) for q in order)) or not axioms_ok(cell, env):
                result.unrealised += 1
                local_unrealised += 1
                if local_unrealised >= UNREALISED_CAP:
                    # many disagreeing cells, none realisable so far (dependent quantities): the witness search costs about a second per
                    # cell, so the remaining cells are decided by exact-data sampling of both expressions instead
                    try:
                        for _ in range(400):
                            h = sample_disagreement(ea, eb, rng, trials=1)
                            if h is not None and not relation(h[1], h[2]):
                                result.mismatches.append(dict(where=label, cell={'(sampled data)': ''}, got=sorted(map(str, h[1])), allowed=sorted(map(str, h[2])),
                                                              witness={X.show(a): str(v) for a, v in h[0].items()}))
                                break
                    except KeyError:
                        pass
                    result.cells += 400
                    return
                continue
            if env is None and any(not numeric_evaluable(q) and not identity_evaluable(q) and not (q[0] == 'fn' and q[1] == 'geodist')
                                   and not (q[0] == 'abs' and q[1][0] == 'fn' and q[1][1] == 'geodist') for q in order):
                # uninterpreted quantities (sqrt, sin, ...): look for a concrete witness instead of trusting the symbolic cell
                try:
                    hit = None
                    for _ in range(80):
                        h = sample_disagreement(ea, eb, rng, trials=1)
                        if h is not None and not relation(h[1], h[2]):
                            hit = h
                            break
                except KeyError as e:
                    from .repo import AnalysisError
                    raise AnalysisError(f'{label}: quantities that cannot be evaluated ({e})')
                if hit is None:
                    result.unrealised += 1
                    return
                env = hit[0]
                fa, fb = hit[1], hit[2]
            result.mismatches.append(dict(where=label, cell={X.show(q): str(r) for q, r in cell.items()},
                                          got=sorted(map(str, fa)), allowed=sorted(map(str, fb)),
                                          witness=None if env is None else {X.show(a): str(v) for a, v in env.items()}))
            if len(result.mismatches) > 20:
                return
