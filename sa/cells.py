"""Order-cell tables: exhaustive evaluation of a flag expression over the finite set of orderings of
the quantities it compares, and comparison with a specification table.

A *quantity* is the non-constant side q of a canonical comparison atom ('cmp', op, q, ('num', r)).
For every quantity the candidate ranks are: each breakpoint r it is compared with (by the code or
by the spec), the midpoints between neighbouring breakpoints, and one value below / above all of
them.  A *cell* assigns one candidate rank to every quantity.  Evaluation is three-valued, so an
unknown comparison (data left under a numpy mask) yields a *set* of possible flags.

When code and spec disagree on a cell, the cell is confirmed by searching exact rational values of
the data atoms that realise it (the statistic forms are closed expressions, so this is evaluation
of the *extracted* expressions, not of repository code).  A realised cell is a violation with a
concrete witness; an unrealisable cell (e.g. product of two steps == 0 while their minimum modulus
is > 0) is an equivalent spelling and is not reported.
"""
import itertools
import random
from fractions import Fraction as Fr

from . import expr as X


def candidate_ranks(breaks):
    bs = sorted(set(breaks))
    if not bs:
        return [Fr(0)]
    out = [bs[0] - 1]
    for i, b in enumerate(bs):
        out.append(b)
        if i + 1 < len(bs):
            out.append((b + bs[i + 1]) / 2)
    out.append(bs[-1] + 1)
    return out


def collect_quantities(exprs, extra=()):
    """-> dict q -> set of breakpoints"""
    qs = {}
    for e in exprs:
        for a in X.atoms_of(e):
            qs.setdefault(a[2], set()).add(a[3][1])
    for q, bs in extra:
        qs.setdefault(q, set()).update(Fr(b) for b in bs)
    return qs


def numeric_evaluable(q):
    t = q[0]
    if t in ('num', 'x'):
        return True
    if t == 'lin':
        return all(numeric_evaluable(g) for g, _ in q[1])
    if t in ('abs', 'sign'):
        return numeric_evaluable(q[1])
    if t in ('min', 'max', 'mul'):
        return all(numeric_evaluable(a) for a in q[1])
    if t == 'div':
        return numeric_evaluable(q[1]) and numeric_evaluable(q[2])
    return False


def identity_evaluable(q):
    if numeric_evaluable(q):
        return True
    # a top-level (possibly scaled) standard deviation of evaluable arguments
    if q[0] == 'red' and q[1] in ('std', 'std_sample', 'std_pop', 'median'):
        return all(numeric_evaluable(a) for a in q[2])
    return False


def same_function(q1, q2, rng, trials=24):
    """polynomial-identity style test: do two closed forms agree on random rational points?"""
    if q1 == q2:
        return True
    if not (identity_evaluable(q1) and identity_evaluable(q2)):
        return False
    atoms = sorted(X.data_atoms(q1) | X.data_atoms(q2), key=repr)
    for _ in range(trials):
        env = {a: Fr(rng.randint(-40, 40), rng.choice((1, 2, 3, 4))) for a in atoms}
        env['__identity__'] = True
        try:
            if X.eval_num(q1, env) != X.eval_num(q2, env):
                return False
        except ZeroDivisionError:
            continue
    return True


def alias_quantities(code_qs, spec_qs, rng):
    """map code quantities onto equal spec quantities. -> dict code_q -> spec_q (identity if none)"""
    alias = {}
    for cq in code_qs:
        for sq in spec_qs:
            if same_function(cq, sq, rng):
                alias[cq] = sq
                break
    return alias


def substitute_alias(e, alias):
    """rewrite cmp atoms whose quantity has an alias"""
    if not alias or not isinstance(e, tuple) or not e:
        return e
    t = e[0]
    if t == 'cmp':
        if e[2] in alias:
            return ('cmp', e[1], alias[e[2]], e[3])
        return e
    if t == 'not':
        return ('not', substitute_alias(e[1], alias))
    if t in ('and', 'or'):
        return (t, tuple(substitute_alias(f, alias) for f in e[1]))
    if t == 'ite':
        return ('ite', substitute_alias(e[1], alias), substitute_alias(e[2], alias), substitute_alias(e[3], alias))
    return e


def flags_of(values):
    out = set()
    for v in values:
        if isinstance(v, tuple) and v and v[0] == 'num':
            f = v[1]
            out.add(int(f) if f.denominator == 1 else float(f))
        elif v == ('uninit',):
            out.add('uninit')
        elif v == X.NAN:
            out.add('nan')
        elif v == X.ANY:
            out.add('any')
        else:
            out.add(X.show(v))
    return out


_REALISE_CACHE = {}


def order_class(v, bps):
    """position of a value among sorted breakpoints: (number of breakpoints below it, whether it sits on one)"""
    below = sum(1 for b in bps if b < v)
    return (below, v in bps)


def realise(cell, rng, budget=1500, breaks=None):
    """breaks: dict q -> breakpoints.  With breaks a cell is realised by data that puts every quantity in the same
    *order class* (same side of every breakpoint), which is all a cell means; without, the exact ranks are required."""
    key = (tuple(sorted((repr(q), r) for q, r in cell.items() if numeric_evaluable(q))),
           None if breaks is None else tuple(sorted((repr(q), tuple(sorted(b))) for q, b in breaks.items() if q in cell)))
    if key not in _REALISE_CACHE:
        _REALISE_CACHE[key] = _realise(cell, rng, budget, breaks)
    return _REALISE_CACHE[key]


def _realise(cell, rng, budget=1500, breaks=None):
    """search exact rational atom values putting every numerically evaluable quantity on its rank.
    -> env dict or None.  Quantities that are not closed arithmetic forms (std, geodesic) are
    independent uninterpreted values and are always realisable (they get the rank itself)."""
    qs = [(q, r) for q, r in cell.items() if numeric_evaluable(q)]
    atoms = sorted({a for q, _ in qs for a in X.data_atoms(q)}, key=repr)
    if not atoms:
        for q, r in qs:
            if X.eval_num(q, {}) != r:
                return None
        return {}
    ranks = [r for _, r in qs]
    units = {Fr(1), Fr(1, 2)}
    for r in ranks:
        if r != 0:
            units.add(abs(r))
            units.add(abs(r) / 2)
    # coefficients far from 1 (e.g. a relative tolerance 1e-5) need data of the reciprocal magnitude to matter
    def coeffs(e, acc):
        if isinstance(e, tuple):
            if e and e[0] == 'lin':
                for g, k in e[1]:
                    if k != 0 and (abs(k) < Fr(1, 50) or abs(k) > 50):
                        acc.add(abs(1 / k))
                    coeffs(g, acc)
            else:
                for a in e:
                    if isinstance(a, tuple):
                        coeffs(a, acc)
        return acc
    big = set()
    for q, _ in qs:
        coeffs(q, big)
    units = sorted(units)[:4] + sorted(big)[:2]
    # 1. single-atom quantities: direct assignment
    env0 = {}
    for q, r in qs:
        if q[0] == 'x':
            env0[q] = r
    free = [a for a in atoms if a not in env0]

    classes = None
    if breaks is not None:
        classes = {q: (sorted(breaks.get(q, ())), order_class(r, sorted(breaks.get(q, ())))) for q, r in qs}

    def ok(env):
        for q, r in qs:
            try:
                v = X.eval_num(q, env)
            except ZeroDivisionError:
                return False
            if classes is None:
                if v != r:
                    return False
            else:
                bps, want = classes[q]
                if order_class(v, bps) != want:
                    return False
        return True
    if not free:
        return env0 if ok(env0) else None
    tried = 0
    # 2. small exhaustive grids, then random
    for u in units:
        span = 4 if len(free) <= 3 else (2 if len(free) == 4 else 1)
        grid = [u * k for k in range(-span, span + 1)]
        if len(grid) ** len(free) <= 1000:
            for combo in itertools.product(grid, repeat=len(free)):
                env = dict(env0)
                env.update(zip(free, combo))
                tried += 1
                if ok(env):
                    return env
                if tried > budget * 3:
                    break
    while tried < budget * 5:
        u = rng.choice(units)
        mixed = rng.random() < 0.5        # mixed magnitudes: every atom draws its own unit
        env = dict(env0)
        for a in free:
            ua = rng.choice(units) if mixed else u
            env[a] = ua * rng.randint(-12, 12) / rng.choice((1, 1, 2))
        tried += 1
        if ok(env):
            return env
    return None


class TableResult:
    def __init__(self):
        self.cells = 0
        self.distinct = set()
        self.mismatches = []      # dicts
        self.unrealised = 0
        self.samples = []


def compare_position(flag_expr, spec_quantities, allowed_fn, rng, result, label, max_cells=20000, extra_exprs=()):
    """flag_expr: ite tree of one output element.  spec_quantities: [(q, [breakpoints])].
    allowed_fn(cell) -> set of allowed flags (cell: dict q -> Fraction, containing every spec quantity)."""
    code_qs = collect_quantities([flag_expr, *extra_exprs])
    spec_qs = [q for q, _ in spec_quantities]
    alias = alias_quantities([q for q in code_qs if q not in spec_qs], spec_qs, rng)
    fexpr = substitute_alias(flag_expr, alias)
    qs = collect_quantities([fexpr], spec_quantities)
    order = sorted(qs, key=repr)
    cands = [candidate_ranks(qs[q]) for q in order]
    total = 1
    for c in cands:
        total *= len(c)
    if total > max_cells:
        from .repo import AnalysisError
        raise AnalysisError(f'{label}: {total} order cells exceed the enumeration bound {max_cells} '
                            f'({len(order)} compared quantities)')
    foreign = [q for q in order if q not in spec_qs]
    for combo in itertools.product(*cands):
        cell = dict(zip(order, combo))
        got = flags_of(X.eval_values(fexpr, cell))
        want = allowed_fn(cell)
        result.cells += 1
        result.distinct.add((frozenset(got), tuple(combo)))
        if want is None:        # spec declares the cell impossible / out of scope
            continue
        if not got <= set(want):
            env = realise(cell, rng, breaks=qs)
            if env is None and all(numeric_evaluable(q) for q in order):
                result.unrealised += 1
                continue
            result.mismatches.append(dict(
                where=label,
                cell={X.show(q): str(r) for q, r in cell.items()},
                got=sorted(map(str, got)), allowed=sorted(map(str, want)),
                witness=None if env is None else {X.show(a): str(v) for a, v in env.items()},
                foreign=[X.show(q) for q in foreign],
                expr=X.show(flag_expr)[:600],
            ))
            if len(result.mismatches) > 40:
                return
    if len(result.samples) < 3:
        result.samples.append(dict(where=label, flag=X.show(flag_expr)[:300], quantities=[X.show(q) for q in order], cells=total))


def compare_pair(expr_a, expr_b, relation, rng, result, label, max_cells=20000):
    """joint cell enumeration of two flag expressions over the same data; relation(flags_a, flags_b) -> bool"""
    qs = collect_quantities([expr_a, expr_b])
    # identify equal functions between the two runs (e.g. |x| spelled differently)
    order = sorted(qs, key=repr)
    alias = {}
    canon = []
    for q in order:
        for c in canon:
            if same_function(q, c, rng):
                alias[q] = c
                break
        else:
            canon.append(q)
    ea, eb = substitute_alias(expr_a, alias), substitute_alias(expr_b, alias)
    qs = collect_quantities([ea, eb])
    order = sorted(qs, key=repr)
    cands = [candidate_ranks(qs[q]) for q in order]
    total = 1
    for c in cands:
        total *= len(c)
    if total > max_cells:
        from .repo import AnalysisError
        raise AnalysisError(f'{label}: {total} joint order cells exceed the bound')
    for combo in itertools.product(*cands):
        cell = dict(zip(order, combo))
        fa = flags_of(X.eval_values(ea, cell))
        fb = flags_of(X.eval_values(eb, cell))
        result.cells += 1
        result.distinct.add((frozenset(fa), frozenset(fb), tuple(combo)))
        if not relation(fa, fb):
            env = realise(cell, rng, breaks=qs)
            if env is None and all(numeric_evaluable(q) for q in order):
                result.unrealised += 1
                continue
            result.mismatches.append(dict(where=label, cell={X.show(q): str(r) for q, r in cell.items()},
                                          got=sorted(map(str, fa)), allowed=sorted(map(str, fb)),
                                          witness=None if env is None else {X.show(a): str(v) for a, v in env.items()}))
            if len(result.mismatches) > 20:
                return
