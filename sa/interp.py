"""Abstract interpreter for the Python subset used by ioos_qc.

It walks the AST of repository functions (never imports or executes them) over abstract values:
concrete Python data for configuration-like values, Vec/Sc (vec.py) for arrays and numpy scalars
whose elements are canonical expressions, FB for undecided booleans.  Library calls are answered by
the model table (models.py).  Anything outside the modelled subset raises AnalysisError, which the
checks map to exit 2 (inconclusive) — never to a violation.
"""
import ast
import collections
import operator

from . import expr as X
from .repo import AnalysisError, unparse
from .vec import MASKED, Sc, Vec, Vec2

# ------------------------------------------------------------------------------------------------
# values


class FB:
    """undecided boolean (formula)"""
    __slots__ = ('f',)

    def __init__(self, f):
        self.f = f

    def __repr__(self):
        return f'FB({X.show(self.f)})'


def mkbool(f):
    if f == X.TRUE:
        return True
    if f == X.FALSE:
        return False
    return FB(f)


class FuncVal:
    def __init__(self, node, frame, module, qualname):
        self.node = node
        self.frame = frame          # defining frame (closure) or None
        self.module = module        # ModuleNS
        self.qualname = qualname
        self.attrs = {}
        self.is_property = False
        self.is_static = False
        self.is_classmethod = False
        self.default_vals = None      # positional defaults, evaluated when the def / lambda is executed (Python semantics); None = not yet
        self.kwdefault_vals = None
        self.setter = None            # for a property: the function given to @x.setter

    @property
    def name(self):
        return self.node.name if hasattr(self.node, 'name') else '<lambda>'

    def __repr__(self):
        return f'<func {self.qualname}>'


class BoundMethod:
    def __init__(self, self_val, func):
        self.self_val = self_val
        self.func = func

    def __repr__(self):
        return f'<bound {self.func.qualname}>'


class ClassVal:
    def __init__(self, node, module, qualname, bases, attrs):
        self.node = node
        self.module = module
        self.qualname = qualname
        self.bases = bases
        self.attrs = attrs
        self.record_fields = None   # for dataclass / NamedTuple style classes: [(name, default or _NODEFAULT)]
        self.frozen = False
        self.is_namedtuple = False

    @property
    def name(self):
        return self.node.name

    def lookup(self, name):
        if name in self.attrs:
            return self.attrs[name]
        for b in self.bases:
            if isinstance(b, ClassVal):
                try:
                    return b.lookup(name)
                except KeyError:
                    pass
        raise KeyError(name)

    def is_subclass(self, other):
        if self is other:
            return True
        return any(isinstance(b, ClassVal) and b.is_subclass(other) for b in self.bases)

    def __repr__(self):
        return f'<class {self.qualname}>'


class Instance:
    """instance of a repository class; hashing / equality follow the class's own __hash__ / __eq__ (interpreted)"""
    def __init__(self, cls):
        self.cls = cls
        self.attrs = {}

    def tuple_items(self):
        """fields of a typing.NamedTuple instance, in order (None for any other instance)"""
        c = next((k for k in [self.cls] + [b for b in self.cls.bases if isinstance(b, ClassVal)] if getattr(k, 'is_namedtuple', False)), None)
        if c is None:
            return None
        return [self.attrs[n] for n, _ in c.record_fields]

    def _dunder(self, name):
        try:
            f = self.cls.lookup(name)
        except KeyError:
            return None
        return f if isinstance(f, FuncVal) else None

    def __hash__(self):
        f = self._dunder('__hash__')
        if f is not None and Interp.current is not None:
            r = Interp.current.call_function(f, [self], {}, None)
            return hash(r)
        cls = self.cls
        if f is None and getattr(cls, 'record_fields', None) is not None and not getattr(cls, 'is_namedtuple', False):
            # dataclass: eq=True (the default) with frozen=True (or unsafe_hash=True) generates __hash__ from the compared fields;
            # eq=True without frozen sets __hash__ to None (unhashable); eq=False keeps identity hashing
            if getattr(cls, 'dataclass_eq', True) and self._dunder('__eq__') is None:
                if cls.frozen or getattr(cls, 'dataclass_unsafe_hash', False):
                    return hash(tuple(_hashable(self.attrs.get(n)) for n in compare_fields(cls)))
                raise TypeError(f"unhashable type: '{cls.name}'")
        if f is None and self.tuple_items() is not None:
            return hash(tuple(_hashable(x) for x in self.tuple_items()))
        return id(self)

    def __eq__(self, other):
        if self is other:
            return True
        ti = self.tuple_items() if self.cls is not None and hasattr(self.cls, 'bases') else None
        if ti is not None and self._dunder('__eq__') is None:
            # a typing.NamedTuple instance is a tuple
            oi = other.tuple_items() if isinstance(other, Instance) else (list(other) if isinstance(other, tuple) else None)
            return oi is not None and list(ti) == list(oi)
        f = self._dunder('__eq__')
        if f is not None and Interp.current is not None:
            r = Interp.current.call_function(f, [self, other], {}, None)
            if isinstance(r, bool):
                return r
            return False
        if f is None and getattr(self.cls, 'record_fields', None) is not None and getattr(self.cls, 'dataclass_eq', True) and not getattr(self.cls, 'is_namedtuple', False):
            # dataclass equality (eq=True is the default): same class, compared fields equal - also when Python containers (set, dict keys) compare
            if not (isinstance(other, Instance) and other.cls is self.cls):
                return False
            return all(self.attrs.get(n) == other.attrs.get(n) for n in compare_fields(self.cls))
        return False

    def __repr__(self):
        return f'<{self.cls.name} instance {self.attrs}>'


class SuperProxy:
    def __init__(self, self_val, cls):
        self.self_val = self_val
        self.cls = cls


class ExtRef:
    """reference into an external library (numpy, pandas, ...), resolved by the model table"""
    __slots__ = ('path',)

    def __init__(self, path):
        self.path = path

    def __repr__(self):
        return f'<ext {self.path}>'

    def __eq__(self, other):
        return isinstance(other, ExtRef) and other.path == self.path

    def __hash__(self):
        return hash(self.path)


class ModelMethod:
    """bound method of a modelled object"""
    def __init__(self, obj, name):
        self.obj = obj
        self.name = name

    def __repr__(self):
        return f'<method {type(self.obj).__name__}.{self.name}>'


class ExcVal:
    def __init__(self, tname, args=()):
        self.tname = tname
        self.args = args

    def __repr__(self):
        return f'{self.tname}{self.args}'


class AbsRaise(Exception):
    def __init__(self, exc, node=None):
        self.exc = exc
        self.node = node


EXC_PARENT = {
    'ValueError': 'Exception', 'TypeError': 'Exception', 'IndexError': 'LookupError',
    'KeyError': 'LookupError', 'LookupError': 'Exception', 'AttributeError': 'Exception',
    'ImportError': 'Exception', 'ModuleNotFoundError': 'ImportError',
    'NotImplementedError': 'RuntimeError', 'RuntimeError': 'Exception',
    'AssertionError': 'Exception', 'ZeroDivisionError': 'ArithmeticError',
    'ArithmeticError': 'Exception', 'Exception': 'BaseException', 'NumbaTypeError': 'TypeError',
    'OverflowError': 'ArithmeticError', 'StopIteration': 'Exception', 'OSError': 'Exception',
    'FileNotFoundError': 'OSError', 'UnicodeDecodeError': 'ValueError',
    'FrozenInstanceError': 'AttributeError', 'OutOfBoundsRead': 'BaseException', 'ParseException': 'Exception', 'ParseSyntaxException': 'ParseException', 'DeprecationWarning': 'Warning', 'Warning': 'Exception', 'KeyboardInterrupt': 'BaseException',
}


def exc_isa(tname, target):
    while tname is not None:
        if tname == target:
            return True
        tname = EXC_PARENT.get(tname)
    return False


class ExcType:
    def __init__(self, tname):
        self.tname = tname

    def __repr__(self):
        return f'<exc-type {self.tname}>'


class _Return(Exception):
    def __init__(self, value):
        self.value = value


class _Break(Exception):
    pass


class _Continue(Exception):
    pass


class ModuleNS:
    def __init__(self, name, mod):
        self.name = name
        self.mod = mod
        self.globals = {}
        self.loaded = False

    def __repr__(self):
        return f'<module {self.name}>'


class Frame:
    def __init__(self, module, func=None, closure=None):
        self.module = module
        self.func = func
        self.closure = closure
        self.locals = {}
        self.returns = []      # (guard formula, value) for returns under undecided guards
        self.globals_decl = set()
        self.nonlocal_decl = set()

    def lookup(self, name):
        f = self
        while f is not None:
            if name in f.locals:
                return f.locals[name]
            f = f.closure
        raise KeyError(name)


_NODEFAULT = object()

EXTERNAL_ROOTS = {
    'numpy', 'pandas', 'xarray', 'warnings', 'logging', 'geographiclib', 'numba', 'json', 're',
    'ruamel', 'geojson', 'shapely', 'io', 'pathlib', 'datetime', 'numbers', 'typing', 'copy',
    'functools', 'importlib', 'inspect', 'dataclasses', 'collections', 'math', 'operator',
    'pyparsing', 'h5netcdf', 'calendar', 'jsonschema', 'scipy', '__future__', 'os', 'sys',
    'itertools', 'abc', 'netCDF4', 'pocean', 'dask', 'bokeh', 'matplotlib', 'cartopy',
}


def size_threshold(test):
    """the largest numeric constant an `if` test compares a length / size against (len(x), x.size, x.shape[0], np.size(x)), or None"""
    best = None
    for node in ast.walk(test):
        if not isinstance(node, ast.Compare):
            continue
        sides = [node.left] + list(node.comparators)
        def is_size(e):
            if isinstance(e, ast.Call) and isinstance(e.func, ast.Name) and e.func.id == 'len':
                return True
            if isinstance(e, ast.Call) and isinstance(e.func, ast.Attribute) and e.func.attr in ('size', 'count_nonzero'):
                return True
            if isinstance(e, ast.Attribute) and e.attr == 'size':
                return True
            if isinstance(e, ast.Subscript) and isinstance(e.value, ast.Attribute) and e.value.attr == 'shape':
                return True
            return False
        if any(is_size(e) for e in sides):
            for e in sides:
                if isinstance(e, ast.Constant) and isinstance(e.value, (int, float)) and not isinstance(e.value, bool):
                    best = e.value if best is None else max(best, e.value)
    return best


def size_like(e):
    if isinstance(e, ast.Call) and isinstance(e.func, ast.Name) and e.func.id == 'len':
        return True
    if isinstance(e, ast.Attribute) and e.attr == 'size':
        return True
    if isinstance(e, ast.Subscript) and isinstance(e.value, ast.Attribute) and e.value.attr == 'shape':
        return True
    if isinstance(e, ast.BinOp) and isinstance(e.op, (ast.Sub, ast.Add)):
        return size_like(e.left) or size_like(e.right)
    return False


class Interp:
    quotients = {}  # id(`size // K` node) -> [node, K, largest quotient seen, function]
    arms = {}       # id(If node) -> [node, then-arm reached, else-arm reached, function]
    fn_calls = {}   # 'file:qualname' -> number of abstract interpretations of that repository function in this run
    strides = {}    # id(range(...) call with a step) -> [node, largest step, most blocks ever produced, function]

    MAX_DEPTH = 40
    current = None

    def __init__(self, repo, models):
        self.repo = repo
        self.models = models
        self.modules = {}
        self.live = X.TRUE          # path guard of the statement being interpreted
        self.events = []            # analysis events: dicts(kind=..., ...)
        self.depth = 0
        self.steps = 0
        self.call_stack = []
        self.hooks = {}             # qualname -> python callable(interp, args, kwargs) overriding a repo function
        Interp.current = self
        self.trace_calls = []

    # -------------------------------------------------------------------------------------------
    def event(self, kind, **kw):
        ev = dict(kind=kind, guard=self.live, stack=list(self.call_stack), **kw)
        self.events.append(ev)
        return ev

    def fail(self, msg, node=None):
        where = None
        if node is not None and hasattr(node, 'lineno'):
            fn = self.call_stack[-1] if self.call_stack else '?'
            where = f'{fn}:{node.lineno}: {unparse(node, 80)}'
        raise AnalysisError(msg, node, where)

    # -------------------------------------------------------------------------------------------
    # modules
    def module(self, name):
        if name in self.modules:
            ns = self.modules[name]
            return ns
        mod = self.repo.module(name)
        ns = ModuleNS(name, mod)
        self.modules[name] = ns
        ns.globals['__name__'] = name
        frame = Frame(ns)
        frame.locals = ns.globals
        saved = self.call_stack
        self.call_stack = [f'{name}:<module>']
        try:
            self.exec_block(mod.tree.body, frame)
        finally:
            self.call_stack = saved
        ns.loaded = True
        return ns

    def get_function(self, modname, qual):
        ns = self.module(modname)
        parts = qual.split('.')
        v = ns.globals.get(parts[0])
        if v is None:
            raise AnalysisError(f'anchor {modname}.{qual} not found')
        for p in parts[1:]:
            v = self.getattr(v, p, None)
        return v

    # -------------------------------------------------------------------------------------------
    # statements
    def exec_block(self, stmts, frame):
        for st in stmts:
            self.exec_stmt(st, frame)

    def exec_stmt(self, st, frame):
        self.steps += 1
        if self.steps > 2_000_000:
            self.fail('step budget exceeded', st)
        m = getattr(self, 'st_' + type(st).__name__, None)
        if m is None:
            self.fail(f'unsupported statement {type(st).__name__}', st)
        return m(st, frame)

    def st_Pass(self, st, frame):
        pass

    def st_Expr(self, st, frame):
        self.eval(st.value, frame)

    def st_Global(self, st, frame):
        frame.globals_decl.update(st.names)

    def st_Nonlocal(self, st, frame):
        frame.nonlocal_decl.update(st.names)

    def st_Import(self, st, frame):
        for a in st.names:
            root = a.name.split('.')[0]
            if a.asname:
                self.bind(frame, a.asname, self.import_path(a.name, st))
            else:
                self.bind(frame, root, self.import_path(root, st))

    def st_ImportFrom(self, st, frame):
        modname = st.module or ''
        if st.level:
            base = frame.module.name.split('.')
            if not frame.module.mod.path.name == '__init__.py':
                base = base[:-1]
            base = base[:len(base) - (st.level - 1)]
            modname = '.'.join(base + ([modname] if modname else []))
        for a in st.names:
            if a.name == '*':
                self.fail('star import', st)
            target = a.asname or a.name
            if modname.split('.')[0] == 'ioos_qc':
                full = modname + '.' + a.name
                if full in self.repo.modules:
                    self.bind(frame, target, self.module(full))
                    continue
                if modname in self.repo.modules:
                    ns = self.module(modname)
                    if a.name in ns.globals:
                        self.bind(frame, target, ns.globals[a.name])
                        continue
                    if not ns.loaded:
                        # circular import in progress
                        self.fail(f'circular import of {a.name} from {modname}', st)
                raise AbsRaise(ExcVal('ImportError', (f'cannot import {a.name} from {modname}',)), st)
            self.bind(frame, target, self.models.import_from(self, modname, a.name, st))

    def import_path(self, dotted, node):
        root = dotted.split('.')[0]
        if root == 'ioos_qc':
            if dotted in self.repo.modules:
                return self.module(dotted)
            raise AbsRaise(ExcVal('ModuleNotFoundError', (dotted,)), node)
        return self.models.import_module(self, dotted, node)

    def bind(self, frame, name, value):
        if name in frame.globals_decl:
            frame.module.globals[name] = value
            self.event('global-write', name=name)
            return
        if name in frame.nonlocal_decl:
            f = frame.closure
            while f is not None:
                if name in f.locals:
                    f.locals[name] = value
                    return
                f = f.closure
        frame.locals[name] = value

    def st_FunctionDef(self, st, frame):
        qual = (frame.func.qualname + '.' if frame.func else '') + st.name
        if frame.func is None and getattr(frame, 'class_qual', None):
            qual = frame.class_qual + '.' + st.name
        fv = FuncVal(st, frame if frame.func is not None else None, frame.module, qual)
        self.eval_defaults(fv, frame)
        val = fv
        for dec in reversed(st.decorator_list):
            d = self.eval(dec, frame)
            val = self.apply_decorator(d, val, dec, frame)
        self.bind(frame, self.mangle(st.name, frame) if getattr(frame, 'class_qual', None) else st.name, val)

    def apply_decorator(self, d, val, node, frame):
        if isinstance(d, ExtRef):
            if d.path == 'builtins.property':
                val.is_property = True
                return val
            if d.path == 'functools.cached_property':
                # a property whose first result is kept in the instance dictionary under the same name
                val.is_property = True
                val.cached = True
                return val
            if d.path == 'builtins.staticmethod':
                val.is_static = True
                return val
            if d.path == 'builtins.classmethod':
                val.is_classmethod = True
                return val
            if d.path in ('functools.wraps', 'functools.lru_cache', 'functools.cache'):
                self.fail(f'decorator {d.path} not modelled', node)
        return self.call(d, [val], {}, node, frame)

    def st_ClassDef(self, st, frame):
        bases = [self.eval(b, frame) for b in st.bases]
        qual = st.name
        cframe = Frame(frame.module)
        cframe.class_qual = qual
        cframe.closure = frame if frame.func is not None else None
        cframe.locals = {}
        annotations = []
        for s in st.body:
            if isinstance(s, ast.AnnAssign) and isinstance(s.target, ast.Name):
                default = _NODEFAULT
                if s.value is not None:
                    default = ('expr', s.value)
                annotations.append((s.target.id, default))
                if s.value is not None:
                    try:
                        cframe.locals[s.target.id] = self.eval(s.value, cframe)
                    except AnalysisError:
                        cframe.locals[s.target.id] = ('unevaluated-default', s.value)
                continue
            self.exec_stmt(s, cframe)
        cls = ClassVal(st, frame.module, qual, bases, cframe.locals)
        for v in cframe.locals.values():
            if isinstance(v, FuncVal):
                v.owner = cls
        is_record = any(isinstance(b, ExtRef) and b.path == 'typing.NamedTuple' for b in bases)
        for dec in st.decorator_list:
            d = dec.func if isinstance(dec, ast.Call) else dec
            dv = self.eval(d, frame)
            if isinstance(dv, ExtRef) and dv.path == 'dataclasses.dataclass':
                is_record = True
                if isinstance(dec, ast.Call):
                    for kw in dec.keywords:
                        if kw.arg == 'frozen':
                            cls.frozen = bool(self.eval(kw.value, frame))
                        elif kw.arg == 'eq':
                            cls.dataclass_eq = bool(self.eval(kw.value, frame))
                        elif kw.arg == 'unsafe_hash':
                            cls.dataclass_unsafe_hash = bool(self.eval(kw.value, frame))
                        elif kw.arg not in ('repr', 'init'):
                            self.fail(f'dataclass({kw.arg}=...) not modelled', dec)
            else:
                self.fail('unsupported class decorator', dec)
        kinds = [ENUM_BASES.get(b.path) for b in bases if isinstance(b, ExtRef)] + [getattr(b, 'enum_kind', None) for b in bases if isinstance(b, ClassVal)]
        kinds = [k for k in kinds if k]
        if any(isinstance(b, ExtRef) and b.path.startswith('enum.') and b.path not in ENUM_BASES for b in bases):
            self.fail('enum base class not modelled', st)
        if kinds:
            self.make_enum(cls, kinds[0], st)
        if is_record:
            cls.record_fields = annotations
            cls.record_frame = cframe
            cls.is_namedtuple = any(isinstance(b, ExtRef) and b.path == 'typing.NamedTuple' for b in bases)
        self.bind(frame, st.name, cls)

    def make_enum(self, cls, kind, node):
        """class attributes of an Enum class become its members (singletons; IntEnum members are ints)"""
        cls.enum_kind = kind
        cls.enum_members = collections.OrderedDict()
        auto = 0
        for name, val in list(cls.attrs.items()):
            if name.startswith('_') or isinstance(val, (FuncVal, ClassVal, BoundMethod)):
                continue
            if isinstance(val, tuple) and val[:1] == ('enum-auto',):
                val = auto + 1
            if isinstance(val, int) and not isinstance(val, bool):
                auto = int(val)
            if kind == 'int':
                if not isinstance(val, int) or isinstance(val, bool):
                    self.fail('IntEnum member whose value is not an int', node)
                member = next((m for m in cls.enum_members.values() if int(m) == val), None) or EnumInt(val, name, cls)
            else:
                member = next((m for m in cls.enum_members.values() if m.attrs['value'] == val), None)      # an alias of an earlier member
                if member is None:
                    member = Instance(cls)
                    member.attrs.update(name=name, value=val, _name_=name, _value_=val)
            cls.enum_members[name] = member
            cls.attrs[name] = member

    def enum_lookup(self, cls, value, node):
        for m in cls.enum_members.values():
            mv = int(m) if isinstance(m, EnumInt) else m.attrs['value']
            try:
                same = (mv == value) is True
            except Exception:
                same = False
            if same or m is value:
                return m
        raise AbsRaise(ExcVal('ValueError', (f'{value!r} is not a valid {cls.name}',)), node)

    def st_Return(self, st, frame):
        v = self.eval(st.value, frame) if st.value is not None else None
        raise _Return(v)

    def st_Delete(self, st, frame):
        for t in st.targets:
            if isinstance(t, ast.Name):
                frame.locals.pop(t.id, None)
            elif isinstance(t, ast.Subscript):
                obj = self.eval(t.value, frame)
                key = self.eval_index(t.slice, frame)
                self.models.delitem(self, obj, key, st)
            else:
                self.fail('unsupported del target', st)

    def st_Assign(self, st, frame):
        v = self.eval(st.value, frame)
        for t in st.targets:
            self.assign(t, v, frame, st)

    def st_AnnAssign(self, st, frame):
        if st.value is not None:
            self.assign(st.target, self.eval(st.value, frame), frame, st)

    def st_AugAssign(self, st, frame):
        cur = self.eval(_load(st.target), frame)
        rhs = self.eval(st.value, frame)
        if isinstance(cur, list) and isinstance(st.op, ast.Add):
            # in-place list extension (aliasing matters: Config._calls += ...)
            items = self.iterate(rhs, st)
            self.models.mutation(self, cur, 'list +=', st)
            cur.extend(items)
            self.assign(st.target, cur, frame, st)
            return
        if isinstance(cur, (Vec,)) :
            res = self.models.binop(self, type(st.op).__name__, cur, rhs, st)
            if cur.dtype in ('i8', 'u1') and getattr(res, 'dtype', None) == 'f8' and cur.kind in ('nd', 'ma'):
                # library fact (numpy 1.26): an in-place operation whose result is float64 cannot be written back into an integer array
                # (UFuncTypeError, a TypeError: "Cannot cast ufunc output from float64 to int64 with casting rule 'same_kind'")
                raise AbsRaise(ExcVal('TypeError', ("Cannot cast ufunc output from dtype('float64') to an integer dtype with casting rule 'same_kind'",)), st)
            self.models.store(self, cur, slice(None), res, st)
            return
        res = self.models.binop(self, type(st.op).__name__, cur, rhs, st)
        self.assign(st.target, res, frame, st)

    def assign(self, target, v, frame, st):
        if isinstance(target, ast.Name):
            self.bind(frame, target.id, v)
        elif isinstance(target, (ast.Tuple, ast.List)):
            items = self.iterate(v, st)
            star = [i for i, e in enumerate(target.elts) if isinstance(e, ast.Starred)]
            if star:
                i = star[0]
                after = len(target.elts) - i - 1
                if len(items) < len(target.elts) - 1:
                    raise AbsRaise(ExcVal('ValueError', ('not enough values to unpack',)), st)
                for t, x in zip(target.elts[:i], items[:i]):
                    self.assign(t, x, frame, st)
                self.assign(target.elts[i].value, list(items[i:len(items) - after]), frame, st)
                for t, x in zip(target.elts[i + 1:], items[len(items) - after:]):
                    self.assign(t, x, frame, st)
            else:
                if len(items) != len(target.elts):
                    raise AbsRaise(ExcVal('ValueError', ('unpack length mismatch',)), st)
                for t, x in zip(target.elts, items):
                    self.assign(t, x, frame, st)
        elif isinstance(target, ast.Subscript):
            obj = self.eval(target.value, frame)
            key = self.eval_index(target.slice, frame)
            self.models.store(self, obj, key, v, st)
        elif isinstance(target, ast.Attribute):
            obj = self.eval(target.value, frame)
            self.setattr(obj, self.mangle(target.attr, frame), v, st)
        else:
            self.fail('unsupported assignment target', st)

    def st_If(self, st, frame):
        c = self.truth(self.eval(st.test, frame), st.test)
        # which arms of which `if` the scenarios reached (class-level: accumulated over every interpretation of a check run)
        taken = Interp.arms.setdefault(id(st), [st, False, False, self.call_stack[-1] if self.call_stack else '?'])
        if c is True:
            taken[1] = True
            self.exec_block(st.body, frame)
        elif c is False:
            taken[2] = True
            self.exec_block(st.orelse, frame)
        else:
            taken[1] = taken[2] = True
            self.guarded_if(c, st, frame)

    def guarded_if(self, f, st, frame):
        """both arms under complementary guards; effects on arrays are guarded stores, name
        bindings are merged with ite"""
        live0 = self.live
        before = dict(frame.locals)
        results = []
        for guard, body in ((f, st.body), (X.f_not(f), st.orelse)):
            frame.locals = dict(before)
            self.live = X.f_and(live0, guard)
            terminated = False
            try:
                self.exec_block(body, frame)
            except _Return as r:
                frame.returns.append((self.live, self.snapshot(r.value)))
                terminated = True
            except AbsRaise as r:
                self.event('raise', exc=r.exc.tname, node=r.node)
                terminated = True
            results.append((guard, frame.locals, terminated))
        self.live = live0
        (g1, l1, t1), (g2, l2, t2) = results
        if t1 and t2:
            self.live = X.FALSE
            frame.locals = before
            raise _Return(_DEAD)
        if t1:
            frame.locals = l2
            self.live = X.f_and(live0, g2)
        elif t2:
            frame.locals = l1
            self.live = X.f_and(live0, g1)
        else:
            merged = {}
            for k in set(l1) | set(l2):
                if k in l1 and k in l2:
                    merged[k] = self.merge(f, l1[k], l2[k], st)
                else:
                    merged[k] = l1.get(k, l2.get(k))
            frame.locals = merged

    def snapshot(self, v):
        if isinstance(v, Vec):
            return v.copy()
        return v

    def merge(self, f, a, b, node):
        if a is b:
            return a
        try:
            if a == b:
                return a
        except Exception:
            pass
        return self.models.ite_value(self, f, a, b, node)

    def st_With(self, st, frame):
        suppressed = []
        if any(isinstance(self._peek_instance_cm(item, frame), Instance) for item in st.items):
            return self.with_instances(st, frame, 0)
        if any(isinstance(item.context_expr, ast.Call) for item in st.items):
            vals = [self.eval(item.context_expr, frame) for item in st.items]
            if any(isinstance(v, GenContext) or (isinstance(v, Instance) and v._dunder('__enter__') is not None and v._dunder('__exit__') is not None) for v in vals):
                return self.with_values(st, frame, vals, 0)
            return self.with_entered(st, frame, vals)
        for item in st.items:
            v = self.eval(item.context_expr, frame)
            entered = self.models.enter_context(self, v, st)
            if getattr(v, 'suppresses', None):
                suppressed.extend(v.suppresses)
            if item.optional_vars is not None:
                self.assign(item.optional_vars, entered, frame, st)
        if not suppressed:
            self.exec_block(st.body, frame)
            return
        try:
            self.exec_block(st.body, frame)
        except AbsRaise as r:
            # contextlib.suppress(E, ...): an exception of one of the named types ends the block silently
            for x in suppressed:
                name = x.tname if isinstance(x, ExcType) else (x.name if isinstance(x, ClassVal) else None)
                if name is None:
                    self.fail(f'contextlib.suppress of {x!r}', st)
                if exc_isa(r.exc.tname, name):
                    self.event('caught', exc=r.exc.tname, handler=st, node=r.node)
                    return
            raise

    def with_entered(self, st, frame, vals):
        """the rest of st_With for already evaluated context expressions (none of them generator based)"""
        suppressed = []
        for item, v in zip(st.items, vals):
            entered = self.models.enter_context(self, v, st)
            if getattr(v, 'suppresses', None):
                suppressed.extend(v.suppresses)
            if item.optional_vars is not None:
                self.assign(item.optional_vars, entered, frame, st)
        if not suppressed:
            self.exec_block(st.body, frame)
            return
        try:
            self.exec_block(st.body, frame)
        except AbsRaise as r:
            for x in suppressed:
                name = x.tname if isinstance(x, ExcType) else (x.name if isinstance(x, ClassVal) else None)
                if name is None:
                    self.fail(f'contextlib.suppress of {x!r}', st)
                if exc_isa(r.exc.tname, name):
                    self.event('caught', exc=r.exc.tname, handler=st, node=r.node)
                    return
            raise

    def with_values(self, st, frame, vals, i):
        """with-statement in which some context managers come from @contextlib.contextmanager generators: the generator runs to its yield on entry
        and is resumed on exit - with the exception thrown in at the yield if the body raised (swallowed if the generator then ends normally)"""
        if i == len(vals):
            return self.exec_block(st.body, frame)
        item, v = st.items[i], vals[i]
        if isinstance(v, Instance) and v._dunder('__enter__') is not None and v._dunder('__exit__') is not None:
            # an instance of a repository class: __enter__, the rest, __exit__(type, value, tb) - a true result swallows the exception
            entered = self.call_function(v._dunder('__enter__'), [v], {}, st)
            if item.optional_vars is not None:
                self.assign(item.optional_vars, entered, frame, st)
            try:
                self.with_values(st, frame, vals, i + 1)
            except AbsRaise as r:
                et = getattr(r.exc, 'cls', None) or ExcType(r.exc.tname)
                t = self.truth(self.call_function(v._dunder('__exit__'), [v, et, r.exc, None], {}, st), st)
                if t is True:
                    self.event('caught', exc=r.exc.tname, handler=st, node=r.node)
                    return
                if t is not False:
                    self.fail('__exit__ returns an undecided value', st)
                raise
            except (_Return, _Break, _Continue):
                self.call_function(v._dunder('__exit__'), [v, None, None, None], {}, st)
                raise
            self.call_function(v._dunder('__exit__'), [v, None, None, None], {}, st)
            return
        if not isinstance(v, GenContext):
            entered = self.models.enter_context(self, v, st)
            if getattr(v, 'suppresses', None):
                self.fail('contextlib.suppress next to a generator-based context manager not modelled', st)
            if item.optional_vars is not None:
                self.assign(item.optional_vars, entered, frame, st)
            return self.with_values(st, frame, vals, i + 1)
        g = v.gen
        if not g.pull(st):
            raise AbsRaise(ExcVal('RuntimeError', ("generator didn't yield",)), st)
        entered = g.items[-1]
        g.pos = len(g.items)
        if item.optional_vars is not None:
            self.assign(item.optional_vars, entered, frame, st)
        try:
            self.with_values(st, frame, vals, i + 1)
        except AbsRaise as r:
            if g.throw(r, st):
                raise AbsRaise(ExcVal('RuntimeError', ("generator didn't stop after throw()",)), st)
            self.event('caught', exc=r.exc.tname, handler=st, node=r.node)
            return
        except (_Return, _Break, _Continue):
            if g.pull(st):
                raise AbsRaise(ExcVal('RuntimeError', ("generator didn't stop",)), st)
            raise
        if g.pull(st):
            raise AbsRaise(ExcVal('RuntimeError', ("generator didn't stop",)), st)

    def _peek_instance_cm(self, item, frame):
        """is the context expression a plain name bound to an instance of a repository class with __enter__ / __exit__? (names only: nothing is
        evaluated twice)"""
        e = item.context_expr
        if isinstance(e, ast.Name):
            try:
                v = frame.lookup(e.id)
            except KeyError:
                v = frame.module.globals.get(e.id)
            if isinstance(v, Instance) and v._dunder('__enter__') is not None and v._dunder('__exit__') is not None:
                return v
        return None

    def with_instances(self, st, frame, i):
        """with-statement over context managers that are instances of repository classes: __enter__, the body, __exit__(type, value, tb) on the
        way out - a true result swallows the exception (nested like the statement nests its items)"""
        if i == len(st.items):
            return self.exec_block(st.body, frame)
        item = st.items[i]
        v = self.eval(item.context_expr, frame)
        if not (isinstance(v, Instance) and v._dunder('__enter__') is not None and v._dunder('__exit__') is not None):
            self.fail('with-statement mixing repository context managers with others not modelled', st)
        entered = self.call_function(v._dunder('__enter__'), [v], {}, st)
        if item.optional_vars is not None:
            self.assign(item.optional_vars, entered, frame, st)
        try:
            self.with_instances(st, frame, i + 1)
        except AbsRaise as r:
            et = getattr(r.exc, 'cls', None) or ExcType(r.exc.tname)
            res = self.call_function(v._dunder('__exit__'), [v, et, r.exc, None], {}, st)
            t = self.truth(res, st)
            if t is True:
                self.event('caught', exc=r.exc.tname, handler=st, node=r.node)
                return
            if t is not False:
                self.fail('__exit__ returns an undecided value', st)
            raise
        except (_Return, _Break, _Continue):
            self.call_function(v._dunder('__exit__'), [v, None, None, None], {}, st)
            raise
        self.call_function(v._dunder('__exit__'), [v, None, None, None], {}, st)

    def st_Match(self, st, frame):
        subject = self.eval(st.subject, frame)
        for case in st.cases:
            binds = {}
            if not self.match_pattern(case.pattern, subject, binds, frame, st):
                continue
            saved = dict(frame.locals)
            for k, v in binds.items():
                self.bind(frame, k, v)
            if case.guard is not None:
                g = self.truth(self.eval(case.guard, frame), case.guard)
                if g is False:
                    frame.locals = saved
                    continue
                if g is not True:
                    self.fail('match guard on an undecided condition', st)
            self.exec_block(case.body, frame)
            return

    def match_pattern(self, pat, v, binds, frame, st):
        """structural pattern matching on interpreter values (PEP 634); -> bool"""
        if isinstance(pat, ast.MatchAs):
            if pat.pattern is not None and not self.match_pattern(pat.pattern, v, binds, frame, st):
                return False
            if pat.name is not None:
                binds[pat.name] = v
            return True
        if isinstance(pat, ast.MatchOr):
            return any(self.match_pattern(p, v, binds, frame, st) for p in pat.patterns)
        if isinstance(pat, ast.MatchSingleton):
            return v is pat.value
        if isinstance(pat, ast.MatchValue):
            r = self.models.compare(self, 'Eq', v, self.eval(pat.value, frame), st)
            t = self.truth(r, st)
            if t not in (True, False):
                self.fail('match value pattern on an undecided comparison', st)
            return t
        if isinstance(pat, ast.MatchClass):
            cls = self.eval(pat.cls, frame)
            if not self.models.isinstance_abs(self, v, cls, st):
                return False
            if pat.patterns:
                self.fail('positional sub-patterns in a class pattern not modelled', st)
            for name, sub in zip(pat.kwd_attrs, pat.kwd_patterns):
                try:
                    av = self.getattr(v, name, st)
                except AbsRaise:
                    return False
                if not self.match_pattern(sub, av, binds, frame, st):
                    return False
            return True
        if isinstance(pat, ast.MatchSequence):
            if not isinstance(v, (list, tuple)):
                return False
            stars = [i for i, p in enumerate(pat.patterns) if isinstance(p, ast.MatchStar)]
            if not stars:
                return len(v) == len(pat.patterns) and all(self.match_pattern(p, x, binds, frame, st) for p, x in zip(pat.patterns, v))
            i = stars[0]
            after = len(pat.patterns) - i - 1
            if len(v) < len(pat.patterns) - 1:
                return False
            ok = all(self.match_pattern(p, x, binds, frame, st) for p, x in zip(pat.patterns[:i], v[:i]))
            ok = ok and all(self.match_pattern(p, x, binds, frame, st) for p, x in zip(pat.patterns[i + 1:], v[len(v) - after:]))
            if ok and pat.patterns[i].name is not None:
                binds[pat.patterns[i].name] = list(v[i:len(v) - after])
            return ok
        if isinstance(pat, ast.MatchMapping):
            data = getattr(v, 'dict_data', v)
            if not isinstance(data, dict):
                return False
            for k, sub in zip(pat.keys, pat.patterns):
                key = self.eval(k, frame)
                if key not in data or not self.match_pattern(sub, data[key], binds, frame, st):
                    return False
            if pat.rest is not None:
                used = [self.eval(k, frame) for k in pat.keys]
                binds[pat.rest] = {k: x for k, x in data.items() if k not in used}
            return True
        self.fail(f'match pattern {type(pat).__name__} not modelled', st)

    def st_Raise(self, st, frame):
        if st.exc is None:
            cur = getattr(frame, 'current_exc', None)
            if cur is None:
                self.fail('bare raise outside handler', st)
            raise AbsRaise(cur, st)
        v = self.eval(st.exc, frame)
        if isinstance(v, ExcType):
            v = ExcVal(v.tname)
        if isinstance(v, ClassVal) and self.class_is_exception(v):
            v = ExcVal(v.name)
        if not isinstance(v, ExcVal):
            self.fail('raise of non-exception value', st)
        raise AbsRaise(v, st)

    def class_is_exception(self, cls):
        return any(isinstance(b, ExcType) or (isinstance(b, ClassVal) and self.class_is_exception(b))
                   for b in cls.bases)

    def st_Assert(self, st, frame):
        c = self.truth(self.eval(st.test, frame), st.test)
        if c is True:
            return
        if c is False:
            msg = (self.eval(st.msg, frame),) if st.msg is not None else ()
            raise AbsRaise(ExcVal('AssertionError', msg), st)
        self.fail('assert on undecided condition', st)

    def st_Try(self, st, frame):
        try:
            try:
                self.exec_block(st.body, frame)
            except AbsRaise as r:
                handled = False
                for h in st.handlers:
                    if self.handler_matches(h, r.exc, frame):
                        handled = True
                        if h.name:
                            frame.locals[h.name] = r.exc
                        prev = getattr(frame, 'current_exc', None)
                        frame.current_exc = r.exc
                        self.event('caught', exc=r.exc.tname, handler=h, node=r.node)
                        try:
                            self.exec_block(h.body, frame)
                        finally:
                            frame.current_exc = prev
                        break
                if not handled:
                    raise
            else:
                self.exec_block(st.orelse, frame)
        finally:
            if st.finalbody:
                self.exec_block(st.finalbody, frame)

    def handler_matches(self, h, exc, frame):
        if h.type is None:
            return True
        t = self.eval(h.type, frame)
        ts = t if isinstance(t, tuple) else (t,)
        for x in ts:
            if isinstance(x, ExcType):
                if exc_isa(exc.tname, x.tname):
                    return True
            elif isinstance(x, ClassVal):
                if exc_isa(exc.tname, x.name):
                    return True
            else:
                self.fail(f'unsupported exception type in handler: {x!r}', h)
        return False

    def lazy_items(self, it, node):
        """items of a generator object, produced as they are asked for"""
        while True:
            if it.pos < len(it.items):
                x = it.items[it.pos]
                it.pos += 1
                yield x
            elif not it.pull(node):
                return

    def st_For(self, st, frame):
        it = self.eval(st.iter, frame)
        items = self.lazy_items(it, st) if isinstance(it, LazyGen) else self.iterate(it, st)
        broke = False
        for x in items:
            self.assign(st.target, x, frame, st)
            try:
                self.exec_block(st.body, frame)
            except _Continue:
                continue
            except _Break:
                broke = True
                break
        if not broke:
            self.exec_block(st.orelse, frame)

    def st_While(self, st, frame):
        n = 0
        while True:
            c = self.truth(self.eval(st.test, frame), st.test)
            if c is False:
                break
            if c is not True:
                self.fail('while on undecided condition', st)
            n += 1
            if n > 10000:
                self.fail('while loop budget', st)
            try:
                self.exec_block(st.body, frame)
            except _Continue:
                continue
            except _Break:
                return
        self.exec_block(st.orelse, frame)

    def st_Break(self, st, frame):
        raise _Break()

    def st_Continue(self, st, frame):
        raise _Continue()

    # -------------------------------------------------------------------------------------------
    # expressions
    def eval(self, node, frame):
        m = getattr(self, 'ex_' + type(node).__name__, None)
        if m is None:
            self.fail(f'unsupported expression {type(node).__name__}', node)
        return m(node, frame)

    def ex_Constant(self, node, frame):
        return node.value

    def ex_Name(self, node, frame):
        name = node.id
        try:
            return frame.lookup(name)
        except KeyError:
            pass
        g = frame.module.globals
        if name in g:
            return g[name]
        b = self.models.builtin(self, name)
        if b is not None:
            return b
        import builtins as _b
        if hasattr(_b, name):
            self.fail(f'builtin {name} not modelled', node)      # Python knows the name: a NameError would be an invention
        raise AbsRaise(ExcVal('NameError', (name,)), node)

    def mangle(self, name, frame):
        """private name mangling inside class bodies: __x -> _Class__x"""
        if not (name.startswith('__') and not name.endswith('__')):
            return name
        f = frame
        while f is not None:
            owner = getattr(f.func, 'owner', None) if f.func is not None else None
            if owner is not None:
                return f'_{owner.name.lstrip("_")}{name}'
            cq = getattr(f, 'class_qual', None)
            if cq:
                return f'_{cq.split(".")[-1].lstrip("_")}{name}'
            f = f.closure
        return name

    def ex_Attribute(self, node, frame):
        obj = self.eval(node.value, frame)
        return self.getattr(obj, self.mangle(node.attr, frame), node)

    def getattr(self, obj, name, node, default=_NODEFAULT):
        try:
            return self._getattr(obj, name, node)
        except AbsRaise as r:
            if default is not _NODEFAULT and r.exc.tname == 'AttributeError':
                return default
            raise

    def _getattr(self, obj, name, node):
        if isinstance(obj, ModuleNS):
            if name in obj.globals:
                return obj.globals[name]
            sub = obj.name + '.' + name
            if sub in self.repo.modules:
                return self.module(sub)
            raise AbsRaise(ExcVal('AttributeError', (f'module {obj.name} has no attribute {name}',)), node)
        if isinstance(obj, Instance):
            if name in obj.attrs:
                return obj.attrs[name]
            try:
                v = obj.cls.lookup(name)
            except KeyError:
                if hasattr(obj, 'dict_data') and name in ('update', 'get', 'items', 'keys', 'values', 'pop', 'setdefault', 'copy'):
                    return ModelMethod(obj.dict_data, name)
                if name == '__class__':
                    return obj.cls
                if name == '__dict__':
                    return obj.attrs
                if obj.tuple_items() is not None and name in ('_fields', '_asdict', '_replace', 'index', 'count'):
                    from .models import PyCallable
                    names = [n for n, _ in obj.cls.record_fields]
                    if name == '_fields':
                        return tuple(names)
                    if name == '_asdict':
                        return PyCallable(lambda interp, a, k, nd: dict(zip(names, obj.tuple_items())))
                    if name == '_replace':
                        return PyCallable(lambda interp, a, k, nd: interp.instantiate(obj.cls, [], dict(dict(zip(names, obj.tuple_items())), **k), nd))
                    return ModelMethod(tuple(obj.tuple_items()), name)
                if not self.all_repo_bases(obj.cls) and not (name.startswith('__') and name.endswith('__')):
                    # the class inherits from a library class: what that base offers under this name was not written down
                    self.fail(f'attribute {name!r} of an instance of {obj.cls.name} (library base class)', node)
                raise AbsRaise(ExcVal('AttributeError', (f'{obj.cls.name} has no attribute {name}',)), node)
            if isinstance(v, FuncVal):
                if v.is_property:
                    r = self.call_function(v, [obj], {}, node)
                    if getattr(v, 'cached', False):
                        obj.attrs[name] = r
                    return r
                if v.is_static:
                    return v
                if v.is_classmethod:
                    return BoundMethod(obj.cls, v)
                return BoundMethod(obj, v)
            return v
        if isinstance(obj, ClassVal):
            try:
                v = obj.lookup(name)
            except KeyError:
                if name == '__name__':
                    return obj.name
                if name == '__members__' and getattr(obj, 'enum_members', None) is not None:
                    return dict(obj.enum_members)
                if name == '_fields' and getattr(obj, 'is_namedtuple', False):
                    return tuple(n for n, _ in obj.record_fields)
                if not self.all_repo_bases(obj):
                    self.fail(f'attribute {name!r} of class {obj.name} (library base class)', node)
                raise AbsRaise(ExcVal('AttributeError', (f'class {obj.name} has no attribute {name}',)), node)
            if isinstance(v, FuncVal) and v.is_classmethod:
                return BoundMethod(obj, v)
            return v
        if isinstance(obj, FuncVal):
            if name in obj.attrs:
                return obj.attrs[name]
            if name == '__name__':
                return obj.name
            if name == '__module__':
                return obj.module.name
            if name == '__qualname__':
                return obj.qualname
            if obj.is_property and name in ('setter', 'getter', 'deleter'):
                from .models import PyCallable
                prop = obj

                def deco(it, a, k, n):
                    if name == 'setter':
                        prop.setter = a[0]
                    elif name == 'getter':
                        a[0].is_property = True
                        a[0].setter = prop.setter
                        return a[0]
                    else:
                        it.fail('property deleter not modelled', n)
                    return prop
                return PyCallable(deco, f'property.{name}')
            if name in ('__doc__', '__dict__', '__defaults__', '__kwdefaults__', '__code__', '__closure__', '__annotations__', '__wrapped__', '__call__', '__get__'):
                if name == '__doc__':
                    return ast.get_docstring(obj.node) if hasattr(obj.node, 'body') and isinstance(obj.node.body, list) else None
                if name == '__dict__':
                    return obj.attrs
                if name == '__wrapped__':
                    raise AbsRaise(ExcVal('AttributeError', (f"'function' object has no attribute '__wrapped__'",)), node)
                self.fail(f'function attribute {name} not modelled', node)
            raise AbsRaise(ExcVal('AttributeError', (f'function has no attribute {name}',)), node)
        if isinstance(obj, BoundMethod):
            return self._getattr(obj.func, name, node)
        if isinstance(obj, SuperProxy):
            for b in obj.cls.bases:
                if isinstance(b, ClassVal):
                    try:
                        v = b.lookup(name)
                    except KeyError:
                        continue
                    if isinstance(v, FuncVal) and not v.is_static:
                        return BoundMethod(obj.self_val, v)
                    return v
            if name == '__init__':
                if isinstance(obj.self_val, ExcVal):
                    from .models import PyCallable
                    ev = obj.self_val
                    return PyCallable(lambda it, a, k, n: setattr(ev, 'args', tuple(a)), 'BaseException.__init__')
                return self.models.noop_callable()
            if not self.all_repo_bases(obj.cls):
                self.fail(f'super().{name} of a class with a library base', node)
            raise AbsRaise(ExcVal('AttributeError', (f"'super' object has no attribute '{name}'",)), node)
        return self.models.getattr(self, obj, name, node)

    def setattr(self, obj, name, v, node):
        if isinstance(obj, ExcVal):
            if not hasattr(obj, 'attrs'):
                obj.attrs = {}
            obj.attrs[name] = v
            return
        if isinstance(obj, Instance):
            if obj.cls.frozen and not getattr(obj, '_constructing', False):
                raise AbsRaise(ExcVal('FrozenInstanceError', (f"cannot assign to field '{name}'",)), node)
            try:
                cv = obj.cls.lookup(name)
            except KeyError:
                cv = None
            if isinstance(cv, FuncVal) and cv.is_property:
                # a data descriptor on the class wins over the instance dictionary
                if cv.setter is None:
                    raise AbsRaise(ExcVal('AttributeError', (f"property '{name}' of '{obj.cls.name}' object has no setter",)), node)
                self.call_function(cv.setter, [obj, v], {}, node)
                return
            slots = self.class_slots(obj.cls)
            if slots is not None and name not in slots:
                raise AbsRaise(ExcVal('AttributeError', (f"'{obj.cls.name}' object has no attribute '{name}'",)), node)
            self.models.mutation(self, obj, f'.{name} =', node)
            obj.attrs[name] = v
            return
        if isinstance(obj, FuncVal):
            obj.attrs[name] = v
            return
        if isinstance(obj, ClassVal):
            self.event('class-attr-write', cls=obj.qualname, name=name, node=node)
            obj.attrs[name] = v
            return
        if isinstance(obj, ModuleNS):
            self.event('global-write', name=f'{obj.name}.{name}', node=node)
            obj.globals[name] = v
            return
        self.models.setattr(self, obj, name, v, node)

    def ex_Subscript(self, node, frame):
        obj = self.eval(node.value, frame)
        key = self.eval_index(node.slice, frame)
        return self.models.getitem(self, obj, key, node)

    def eval_index(self, sl, frame):
        if isinstance(sl, ast.Slice):
            lo = self.eval(sl.lower, frame) if sl.lower is not None else None
            hi = self.eval(sl.upper, frame) if sl.upper is not None else None
            stp = self.eval(sl.step, frame) if sl.step is not None else None
            return slice(lo, hi, stp)
        if isinstance(sl, ast.Tuple):
            out = []
            for e in sl.elts:
                if isinstance(e, ast.Starred):
                    out.extend(self.iterate(self.eval(e.value, frame), e))
                else:
                    out.append(self.eval_index(e, frame))
            return tuple(out)
        return self.eval(sl, frame)

    def ex_Slice(self, node, frame):
        return self.eval_index(node, frame)

    def ex_Tuple(self, node, frame):
        return tuple(self.eval_seq(node.elts, frame))

    def ex_List(self, node, frame):
        return list(self.eval_seq(node.elts, frame))

    def ex_Set(self, node, frame):
        return set(self.eval_seq(node.elts, frame))

    def eval_seq(self, elts, frame):
        out = []
        for e in elts:
            if isinstance(e, ast.Starred):
                out.extend(self.iterate(self.eval(e.value, frame), e))
            else:
                out.append(self.eval(e, frame))
        return out

    def ex_Dict(self, node, frame):
        d = {}
        for k, v in zip(node.keys, node.values):
            if k is None:
                sub = self.eval(v, frame)
                if not isinstance(sub, dict):
                    self.fail('** of non-dict', node)
                d.update(sub)
            else:
                d[self.hashable(self.eval(k, frame), node)] = self.eval(v, frame)
        return d

    def hashable(self, k, node):
        try:
            hash(k)
        except TypeError:
            self.fail(f'unhashable dict key {k!r}', node)
        return k

    def ex_JoinedStr(self, node, frame):
        parts = []
        for v in node.values:
            if isinstance(v, ast.Constant):
                parts.append(str(v.value))
            else:
                parts.append(self.ex_FormattedValue(v, frame))
        return ''.join(parts)

    def ex_FormattedValue(self, node, frame):
        val = self.eval(node.value, frame)
        spec = self.eval(node.format_spec, frame) if node.format_spec is not None else ''
        if node.conversion in (-1, None) and not spec:
            return self.models.to_str(self, val, node)
        from .models_lib import plain_for_format
        pv = plain_for_format(self.models, self, val, node)
        if node.conversion == ord('r'):
            pv = repr(pv)
        elif node.conversion == ord('s'):
            pv = str(pv)
        elif node.conversion == ord('a'):
            pv = ascii(pv)
        try:
            return format(pv, spec)
        except (ValueError, TypeError) as e:
            raise AbsRaise(ExcVal(type(e).__name__, (str(e),)), node)

    def ex_Lambda(self, node, frame):
        qual = (frame.func.qualname + '.' if frame.func else '') + '<lambda>'
        fv = FuncVal(node, frame, frame.module, qual)
        self.eval_defaults(fv, frame)
        return fv

    def ex_IfExp(self, node, frame):
        c = self.truth(self.eval(node.test, frame), node.test)
        if c is True:
            return self.eval(node.body, frame)
        if c is False:
            return self.eval(node.orelse, frame)
        a = self.eval(node.body, frame)
        b = self.eval(node.orelse, frame)
        return self.merge(c, a, b, node)

    def ex_BoolOp(self, node, frame):
        is_and = isinstance(node.op, ast.And)
        pending = []      # undecided formulas seen so far
        last = None
        for i, e in enumerate(node.values):
            v = self.eval(e, frame)
            last = v
            t = self.truth(v, e)
            if t is True:
                if not is_and:
                    if pending:
                        return True if not pending else mkbool(X.TRUE)
                    return v
                continue
            if t is False:
                if is_and:
                    if pending:
                        return False
                    return v
                continue
            pending.append(t)
        if pending:
            f = X.f_and(*pending) if is_and else X.f_or(*pending)
            return mkbool(f)
        return last

    def ex_UnaryOp(self, node, frame):
        v = self.eval(node.operand, frame)
        if isinstance(node.op, ast.Not):
            t = self.truth(v, node)
            if t is True:
                return False
            if t is False:
                return True
            return mkbool(X.f_not(t))
        return self.models.unaryop(self, type(node.op).__name__, v, node)

    def ex_BinOp(self, node, frame):
        a = self.eval(node.left, frame)
        b = self.eval(node.right, frame)
        res = self.models.binop(self, type(node.op).__name__, a, b, node)
        if isinstance(node.op, ast.FloorDiv) and isinstance(a, int) and isinstance(b, int) and not isinstance(a, bool) and b > 3 and isinstance(res, int) \
                and size_like(node.left):
            # `n // K` with n a length / size: how large the quotient ever became (see Check.check_length_branches)
            rec = Interp.quotients.setdefault(id(node), [node, b, 0, self.call_stack[-1] if self.call_stack else '?'])
            rec[2] = max(rec[2], res)
        return res

    def ex_Compare(self, node, frame):
        left = self.eval(node.left, frame)
        result = None
        for op, rnode in zip(node.ops, node.comparators):
            right = self.eval(rnode, frame)
            r = self.models.compare(self, type(op).__name__, left, right, node)
            if len(node.ops) == 1:
                return r
            t = self.truth(r, node)
            if t is False:
                return False
            if t is not True:
                result = t if result is None else X.f_and(result, t)
            left = right
        if result is None:
            return True
        return mkbool(result)

    def ex_Starred(self, node, frame):
        self.fail('starred expression in unsupported position', node)

    def ex_ListComp(self, node, frame):
        out = []
        self._comp(node.generators, 0, frame, lambda fr: out.append(self.eval(node.elt, fr)))
        return out

    def ex_GeneratorExp(self, node, frame):
        # evaluated eagerly (the repository's generator expressions have no side effects); still an iterator for next()
        return GenList(self.ex_ListComp(node, frame))

    def ex_SetComp(self, node, frame):
        return set(self.ex_ListComp(node, frame))

    def ex_DictComp(self, node, frame):
        out = {}

        def add(fr):
            out[self.hashable(self.eval(node.key, fr), node)] = self.eval(node.value, fr)
        self._comp(node.generators, 0, frame, add)
        return out

    def _comp(self, gens, i, frame, emit):
        if i == len(gens):
            emit(frame)
            return
        g = gens[i]
        sub = Frame(frame.module, frame.func, frame)
        sub.func = frame.func
        sub.is_comprehension = True
        src = self.eval(g.iter, frame)
        items = self.lazy_items(src, g.iter) if isinstance(src, LazyGen) else self.iterate(src, g.iter)
        for x in items:
            self.assign(g.target, x, sub, g.iter)
            ok = True
            for cond in g.ifs:
                t = self.truth(self.eval(cond, sub), cond)
                if t is False:
                    ok = False
                    break
                if t is not True:
                    self.fail('comprehension filter on undecided condition', cond)
            if ok:
                self._comp(gens, i + 1, sub, emit)

    def ex_Call(self, node, frame):
        if isinstance(node.func, ast.Name) and node.func.id == 'super' and not node.args and not node.keywords:
            f = frame
            while f is not None and (f.func is None or getattr(f.func, 'owner', None) is None):
                f = f.closure
            if f is None:
                self.fail('super() outside a method', node)
            params = f.func.node.args.posonlyargs + f.func.node.args.args
            return SuperProxy(f.locals[params[0].arg], f.func.owner)
        fn = self.eval(node.func, frame)
        if isinstance(fn, ExtRef) and fn.path in ('builtins.any', 'builtins.all', 'builtins.next') and node.args and isinstance(node.args[0], ast.GeneratorExp) \
                and not node.keywords and len(node.args) <= (2 if fn.path == 'builtins.next' else 1):
            return self.lazy_genexp_call(fn.path, node, frame)
        args = []
        for a in node.args:
            if isinstance(a, ast.Starred):
                args.extend(self.iterate(self.eval(a.value, frame), a))
            else:
                args.append(self.eval(a, frame))
        kwargs = {}
        for kw in node.keywords:
            if kw.arg is None:
                d = self.eval(kw.value, frame)
                if not isinstance(d, dict):
                    self.fail('** of non-dict in call', node)
                for k, v in d.items():
                    kwargs[k] = v
            else:
                kwargs[kw.arg] = self.eval(kw.value, frame)
        return self.call(fn, args, kwargs, node, frame)

    def lazy_genexp_call(self, path, node, frame):
        """any(<genexp>) / all(<genexp>) / next(<genexp>[, default]): the items are produced one by one and production stops at the deciding one -
        items after it are never evaluated (they may have side effects, or raise)"""
        gen = node.args[0]

        class _Stop(Exception):
            pass
        found = []

        def emit(fr):
            v = self.eval(gen.elt, fr)
            if path == 'builtins.next':
                found.append(v)
                raise _Stop()
            t = self.truth(v, gen.elt)
            if t is not True and t is not False:
                found.append(('undecided', t))
                raise _Stop()
            if (path == 'builtins.any') == t:
                found.append(t)
                raise _Stop()
        try:
            self._comp(gen.generators, 0, frame, emit)
        except _Stop:
            pass
        if found and isinstance(found[0], tuple) and found[0][:1] == ('undecided',):
            # an item whose truth depends on the data: fall back to the eager evaluation of all items (the models combine the formulas)
            args = [self.eval(gen, frame)] + [self.eval(a, frame) for a in node.args[1:]]
            return self.call(self.eval(node.func, frame), args, {}, node, frame)
        if path == 'builtins.next':
            if found:
                return found[0]
            if len(node.args) > 1:
                return self.eval(node.args[1], frame)
            raise AbsRaise(ExcVal('StopIteration'), node)
        if found:
            return found[0]
        return path == 'builtins.all'

    def ex_NamedExpr(self, node, frame):
        v = self.eval(node.value, frame)
        f = frame
        while getattr(f, 'is_comprehension', False) and f.closure is not None:
            f = f.closure           # PEP 572: the target is bound in the scope containing the comprehension
        self.bind(f, node.target.id, v)
        return v

    # -------------------------------------------------------------------------------------------
    def call(self, fn, args, kwargs, node, frame=None):
        if isinstance(fn, FuncVal):
            return self.call_function(fn, args, kwargs, node)
        if isinstance(fn, BoundMethod):
            return self.call_function(fn.func, [fn.self_val] + list(args), kwargs, node)
        if isinstance(fn, ClassVal) and getattr(fn, 'enum_members', None) is not None:
            if len(args) != 1 or kwargs:
                self.fail('functional Enum API not modelled', node)
            return self.enum_lookup(fn, args[0], node)
        if isinstance(fn, ClassVal):
            return self.instantiate(fn, args, kwargs, node)
        if isinstance(fn, Instance):
            try:
                f = fn.cls.lookup('__call__')
            except KeyError:
                raise AbsRaise(ExcVal('TypeError', (f"'{fn.cls.name}' object is not callable",)), node)
            if isinstance(f, FuncVal):
                return self.call_function(f, [fn] + list(args), kwargs, node)
        if type(fn).__name__ == 'PartialVal':
            return self.call(fn.func, list(fn.args) + list(args), dict(fn.keywords, **kwargs), node, frame)
        return self.models.call(self, fn, args, kwargs, node, frame)

    def class_slots(self, cls):
        """the attribute names instances may carry if the class and all its bases declare __slots__ (None: instances have a __dict__)"""
        names = set()
        for k in [cls] + [b for b in cls.bases]:
            if isinstance(k, ExtRef) and k.path == 'builtins.object':
                continue
            if not isinstance(k, ClassVal) or '__slots__' not in k.attrs:
                return None
            sl = k.attrs['__slots__']
            if isinstance(sl, str):
                sl = (sl,)
            if not isinstance(sl, (tuple, list)) or not all(isinstance(x, str) for x in sl):
                return None
            names |= set(sl)
            if k is not cls:
                sub = self.class_slots(k)
                if sub is None:
                    return None
                names |= sub
        if '__dict__' in names:
            return None
        # private names are mangled
        return {(f'_{cls.name.lstrip("_")}{n}' if n.startswith('__') and not n.endswith('__') else n) for n in names} | names

    def all_repo_bases(self, cls):
        return all(isinstance(b, ClassVal) and self.all_repo_bases(b) or (isinstance(b, ExtRef) and b.path in ('builtins.object',)) for b in cls.bases)

    def exception_base_name(self, cls):
        """name of the nearest built-in exception a repository exception class derives from"""
        for b in cls.bases:
            if isinstance(b, ExcType):
                return b.tname
            if isinstance(b, ClassVal) and self.class_is_exception(b):
                return self.exception_base_name(b)
        return 'Exception'

    def instantiate(self, cls, args, kwargs, node):
        if self.class_is_exception(cls):
            EXC_PARENT.setdefault(cls.name, self.exception_base_name(cls) if not any(isinstance(b, ClassVal) and self.class_is_exception(b) for b in cls.bases)
                                  else next(b.name for b in cls.bases if isinstance(b, ClassVal) and self.class_is_exception(b)))
            for b in cls.bases:
                if isinstance(b, ClassVal) and self.class_is_exception(b):
                    EXC_PARENT.setdefault(b.name, self.exception_base_name(b))
            ev = ExcVal(cls.name, tuple(args))
            ev.cls = cls
            try:
                init = cls.lookup('__init__')
            except KeyError:
                init = None
            if isinstance(init, FuncVal):
                # the class's own __init__ runs on the exception object (attributes such as .code); super().__init__(msg) sets .args
                ev.attrs = {}
                ev.args = ()
                self.call_function(init, [ev] + list(args), kwargs, node)
            elif kwargs:
                raise AbsRaise(ExcVal('TypeError', (f'{cls.name}() takes no keyword arguments',)), node)
            return ev
        inst = Instance(cls)
        inst._constructing = True
        if self.models.is_dict_subclass(cls):
            inst.dict_data = {}
        if cls.record_fields is not None:
            names = [n for n, _ in cls.record_fields]
            if len(args) > len(names):
                raise AbsRaise(ExcVal('TypeError', ('too many positional arguments',)), node)
            vals = dict(zip(names, args))
            for k, v in kwargs.items():
                if k not in names or k in vals:
                    raise AbsRaise(ExcVal('TypeError', (f'unexpected argument {k}',)), node)
                vals[k] = v
            for n, d in cls.record_fields:
                if n not in vals:
                    if d is _NODEFAULT:
                        raise AbsRaise(ExcVal('TypeError', (f'missing argument {n}',)), node)
                    dv = self.eval(d[1], cls.record_frame)
                    dv = self.models.dataclass_default(self, dv, node)
                    vals[n] = dv
            inst.attrs.update(vals)
            if not cls.is_namedtuple:
                try:
                    post = cls.lookup('__post_init__')
                except KeyError:
                    post = None
                if isinstance(post, FuncVal):
                    self.call_function(post, [inst], {}, node)
            inst._constructing = False
            return inst
        try:
            init = cls.lookup('__init__')
        except KeyError:
            init = None
        if init is not None:
            if isinstance(init, FuncVal):
                self.call_function(init, [inst] + list(args), kwargs, node)
            else:
                self.fail('unsupported __init__', node)
        elif self.models.is_dict_subclass(cls):
            pass
        elif args or kwargs:
            raise AbsRaise(ExcVal('TypeError', ('object() takes no arguments',)), node)
        inst._constructing = False
        return inst

    def call_function(self, fv, args, kwargs, node):
        hook = self.hooks.get(fv.qualname) or self.hooks.get(f'{fv.module.name}.{fv.qualname}')
        if hook is not None:
            return hook(self, fv, args, kwargs, node)
        if self.depth > self.MAX_DEPTH:
            self.fail('call depth exceeded (recursion?)', node)
        frame = Frame(fv.module, fv, fv.frame)
        self.bind_params(fv, frame, args, kwargs, node)
        self.depth += 1
        self.call_stack.append(f'{fv.module.mod.rel()}:{fv.qualname}')
        Interp.fn_calls[self.call_stack[-1]] = Interp.fn_calls.get(self.call_stack[-1], 0) + 1
        live0 = self.live
        try:
            if isinstance(fv.node, ast.Lambda):
                return self.eval(fv.node.body, frame)
            if self.is_generator(fv.node):
                return self.run_generator(fv, frame)
            try:
                self.exec_block(fv.node.body, frame)
                result = None
            except _Return as r:
                result = r.value
            if frame.returns:
                if result is _DEAD:
                    result = None
                    chain = frame.returns
                else:
                    chain = frame.returns + [(self.live, result)]
                # ite-chain of guarded returns
                self.last_return_chain = chain
                val = chain[-1][1]
                for g, v in reversed(chain[:-1]):
                    val = self.merge(g, v, val, fv.node)
                return val
            if result is _DEAD:
                return None
            self.last_return_chain = [(X.TRUE, result)]
            return result
        finally:
            self.live = live0
            self.depth -= 1
            self.call_stack.pop()

    def is_generator(self, fnode):
        cached = getattr(fnode, '_is_gen', None)
        if cached is None:
            cached = False
            stack = list(fnode.body)
            while stack:
                n = stack.pop()
                if isinstance(n, (ast.Yield, ast.YieldFrom)):
                    cached = True
                    break
                if isinstance(n, (ast.FunctionDef, ast.Lambda, ast.ClassDef)):
                    continue
                stack.extend(ast.iter_child_nodes(n))
            fnode._is_gen = cached
        return cached

    def run_generator(self, fv, frame):
        import os
        if not os.environ.get('VERIF_EAGER_GEN'):
            g = LazyGen(self, fv, frame)
            frame.gen = g
            frame.yielded = g.items
            return g
        return self.run_generator_eagerly(fv, frame)

    def close_generators(self):
        gens = self.__dict__.get('live_generators', [])
        for g in gens:
            if not g.done:
                g.close()
        del gens[:]

    def run_generator_eagerly(self, fv, frame):
        """(VERIF_EAGER_GEN=1) the body is run to its end at the call; the yielded values are collected into a list"""
        frame.yielded = []
        pending = None
        retval = None
        try:
            self.exec_block(fv.node.body, frame)
        except _Return as r:
            retval = r.value if hasattr(r, 'value') else (r.args[0] if r.args else None)
        except AbsRaise as e:
            # the body of a generator runs when it is iterated, not when it is called: the exception belongs to the consumer
            pending = e
        g = GenResult(frame.yielded)
        g.pending = pending
        g.retval = retval           # the value of `yield from` in a delegating generator
        return g

    def ex_Yield(self, node, frame):
        v = self.eval(node.value, frame) if node.value is not None else None
        f = frame
        while not hasattr(f, 'yielded'):
            f = f.closure
            if f is None:
                self.fail('yield outside generator', node)
        f.yielded.append(v)
        self.suspend_generator(f)
        return None

    def suspend_generator(self, f):
        g = getattr(f, 'gen', None)
        if g is None:
            return                      # eager mode
        live = self.live
        g._yielded.release()            # the consumer goes on ...
        g._resume.acquire()             # ... until it asks for the next item
        self.live = live
        if g._closing:
            raise _GenClose()
        thrown = getattr(g, '_throw', None)
        if thrown is not None:
            g._throw = None
            raise thrown                # generator.throw(): the exception appears at the yield

    def ex_YieldFrom(self, node, frame):
        v = self.eval(node.value, frame)
        f = frame
        while not hasattr(f, 'yielded'):
            f = f.closure
            if f is None:
                self.fail('yield outside generator', node)
        if isinstance(v, LazyGen) and getattr(f, 'gen', None) is not None:
            # delegate item by item: each inner item is handed on before the next one is produced
            while True:
                if v.pos < len(v.items):
                    x = v.items[v.pos]
                    v.pos += 1
                elif v.pull(node):
                    continue
                else:
                    break
                f.yielded.append(x)
                self.suspend_generator(f)
            return v.retval
        for x in self.iterate(v, node):
            f.yielded.append(x)
            self.suspend_generator(f)
        return getattr(v, 'retval', None) if isinstance(v, GenResult) else None

    _LAZY = object()

    def eval_defaults(self, fv, frame):
        """default values are evaluated once, when the def / lambda is executed, in the defining scope; the objects are kept (a mutable default is
        state shared by all calls).  A default the analyser cannot evaluate is left for the call that needs it."""
        a = fv.node.args
        def one(d):
            if d is None:
                return None
            try:
                return self.eval(d, frame)
            except AnalysisError:
                return self._LAZY
        fv.default_vals = [one(d) for d in a.defaults]
        fv.kwdefault_vals = [one(d) for d in a.kw_defaults]
        reg = self.__dict__.setdefault('default_objects', {})
        for v in fv.default_vals + fv.kwdefault_vals:
            if isinstance(v, (list, dict, set)):
                reg[id(v)] = (v, f'module-state:default argument of {fv.qualname}')

    def bind_params(self, fv, frame, args, kwargs, node):
        a = fv.node.args
        params = [p.arg for p in a.posonlyargs + a.args]
        defaults = a.defaults
        kwargs = dict(kwargs)
        args = list(args)
        ndef = len(defaults)
        first_def = len(params) - ndef
        for i, p in enumerate(params):
            if i < len(args):
                if p in kwargs:
                    raise AbsRaise(ExcVal('TypeError', (f'multiple values for {p}',)), node)
                frame.locals[p] = args[i]
            elif p in kwargs:
                frame.locals[p] = kwargs.pop(p)
            elif i >= first_def:
                dv = fv.default_vals[i - first_def] if fv.default_vals is not None else self._LAZY
                frame.locals[p] = self.eval(defaults[i - first_def], self.def_frame(fv)) if dv is self._LAZY else dv
            else:
                raise AbsRaise(ExcVal('TypeError', (f'{fv.name}() missing argument {p}',)), node)
        extra = args[len(params):]
        if a.vararg:
            frame.locals[a.vararg.arg] = tuple(extra)
        elif extra:
            raise AbsRaise(ExcVal('TypeError', (f'{fv.name}() takes {len(params)} positional arguments',)), node)
        for j, (p, d) in enumerate(zip(a.kwonlyargs, a.kw_defaults)):
            if p.arg in kwargs:
                frame.locals[p.arg] = kwargs.pop(p.arg)
            elif d is not None:
                dv = fv.kwdefault_vals[j] if fv.kwdefault_vals is not None else self._LAZY
                frame.locals[p.arg] = self.eval(d, self.def_frame(fv)) if dv is self._LAZY else dv
            else:
                raise AbsRaise(ExcVal('TypeError', (f'missing keyword-only argument {p.arg}',)), node)
        if a.kwarg:
            frame.locals[a.kwarg.arg] = kwargs
        elif kwargs:
            raise AbsRaise(ExcVal('TypeError', (f'{fv.name}() got unexpected keyword {sorted(kwargs)[0]}',)), node)

    def def_frame(self, fv):
        if fv.frame is not None:
            return fv.frame
        f = Frame(fv.module)
        f.locals = fv.module.globals
        return f

    # -------------------------------------------------------------------------------------------
    def truth(self, v, node):
        """True / False / formula"""
        if isinstance(v, FB):
            return v.f
        if isinstance(v, bool) or v is None:
            return bool(v)
        if isinstance(v, (int, float, str, tuple, list, dict, set, frozenset, collections.OrderedDict)):
            return bool(v)
        return self.models.truth(self, v, node)

    def iterate(self, v, node):
        if isinstance(v, GenList):
            rest = list(v[v.pos:])
            v.pos = len(v)
            return rest
        if isinstance(v, ClassVal) and getattr(v, 'enum_members', None) is not None:
            seen, out = set(), []
            for m in v.enum_members.values():       # aliases are not listed
                if id(m) not in seen:
                    seen.add(id(m))
                    out.append(m)
            return out
        if isinstance(v, (list, tuple)):
            return list(v)
        if isinstance(v, (dict, set, frozenset, str, range)):
            return list(v)
        if isinstance(v, LazyGen):
            v.drain(node)
        if isinstance(v, GenResult):
            # what next() has taken is gone, and a full pass uses the generator up: a second pass finds nothing
            rest = list(v.items[getattr(v, 'pos', 0):])
            if getattr(v, 'pending', None) is not None:
                if rest:
                    self.fail('a generator that raises after yielding is consumed item by item: not modelled', node)
                raise v.pending
            v.pos = len(v.items)
            return rest
        if isinstance(v, Instance) and v.tuple_items() is not None:
            return v.tuple_items()
        if isinstance(v, (type({}.items()), type({}.values()), type({}.keys()), zip, map, enumerate,
                          reversed, filter)):
            return list(v)
        return self.models.iterate(self, v, node)


def _hashable(x):
    if isinstance(x, list):
        raise TypeError("unhashable type: 'list'")
    if isinstance(x, dict):
        raise TypeError("unhashable type: 'dict'")
    return x


def compare_fields(cls):
    """names of the dataclass fields that take part in == / hash (field(compare=False) is left out)"""
    out = []
    for n, d in cls.record_fields:
        keep = True
        if isinstance(d, tuple) and d[:1] == ('expr',) and isinstance(d[1], ast.Call):
            for kw in d[1].keywords:
                if kw.arg == 'compare' and isinstance(kw.value, ast.Constant) and kw.value.value is False:
                    keep = False
        if keep:
            out.append(n)
    return out


class EnumInt(int):
    """a member of an enum.IntEnum / IntFlag class of the repository: an int for every purpose (as in Python), with a name and its class"""
    def __new__(cls, value, name, owner):
        o = int.__new__(cls, value)
        o.enum_name, o.enum_cls = name, owner
        return o

    def __repr__(self):
        return f'<{self.enum_cls.name}.{self.enum_name}: {int(self)}>'


ENUM_BASES = {'enum.Enum': 'plain', 'enum.IntEnum': 'int', 'enum.IntFlag': 'int', 'enum.Flag': 'plain'}


class GenList(list):
    """the items of a generator expression: a list for every consumer, an iterator (with a position) for next()"""
    pos = 0


class GenResult:
    def __init__(self, items):
        self.items = items

    def __repr__(self):
        return f'<generator result {len(self.items)} items>'


class GenContext:
    """what a function decorated with contextlib.contextmanager returns when called: a context manager around a fresh generator"""
    def __init__(self, gen):
        self.gen = gen


class _GenClose(BaseException):
    """unwinds the body of a generator the analyser closes (the consumer is gone)"""


class LazyGen(GenResult):
    """The result of calling a generator function.  The body runs in a thread of its own that is handed control only while the consumer waits for
    the next item (strict alternation, like a coroutine): it starts at the first request, stops at each `yield`, and what the consumer does between two
    requests (e.g. writing into an object the generator reads) is seen by the rest of the body - as in Python."""
    def __init__(self, interp, fv, frame):
        import threading
        self.items, self.pos, self.pending, self.retval = [], 0, None, None
        self.done = False
        self._interp, self._fv, self._frame = interp, fv, frame
        self._thread = None
        self._resume, self._yielded = threading.Semaphore(0), threading.Semaphore(0)
        self._closing = False
        self._raised = None           # AbsRaise out of the body
        self._error = None            # anything else out of the body (AnalysisError ...)
        self._finished = False
        self._label = f'{fv.module.mod.rel()}:{fv.qualname}'
        interp.__dict__.setdefault('live_generators', []).append(self)

    def _run(self):
        it = self._interp
        try:
            it.exec_block(self._fv.node.body, self._frame)
        except _Return as r:
            self.retval = r.value
        except _GenClose:
            pass
        except AbsRaise as e:
            self._raised = e
        except BaseException as e:        # AnalysisError and internal errors surface in the consumer
            self._error = e
        finally:
            self._finished = True
            self._yielded.release()

    def pull(self, node=None):
        """run the body up to its next yield; True if an item was appended to .items"""
        if self.done:
            return False
        if self._closing:
            raise AnalysisError('a generator the analyser had closed is asked for more items', node)
        import threading
        it = self._interp
        n0 = len(self.items)
        it.call_stack.append(self._label)
        it.depth += 1
        try:
            if self._thread is None:
                import sys
                try:
                    threading.stack_size(256 * 1024 * 1024)       # the interpreter recurses deeply; virtual memory only
                except (ValueError, RuntimeError):
                    pass
                self._thread = threading.Thread(target=self._run, daemon=True)
                self._thread.start()
            else:
                self._resume.release()
            self._yielded.acquire()
        finally:
            it.depth -= 1
            it.call_stack.pop()
        if self._finished:
            self.done = True
            if self._error is not None:
                e, self._error = self._error, None
                raise e
            if self._raised is not None:
                e, self._raised = self._raised, None
                raise e
            return False
        return len(self.items) > n0

    def drain(self, node=None):
        while self.pull(node):
            pass

    def throw(self, exc, node=None):
        """generator.throw(exc): True if the generator yielded again, False if it finished; what it raises propagates"""
        if self.done or self._thread is None:
            raise exc
        self._throw = exc
        return self.pull(node)

    def close(self):
        if self._thread is not None and not self._finished:
            self._closing = True
            self._resume.release()
            self._thread.join(5)
        self._closing = True
        self.done = True


_DEAD = object()


def _load(target):
    """copy of an assignment target usable as an expression"""
    if isinstance(target, ast.Name):
        return ast.copy_location(ast.Name(id=target.id, ctx=ast.Load()), target)
    if isinstance(target, ast.Subscript):
        return ast.copy_location(ast.Subscript(value=target.value, slice=target.slice, ctx=ast.Load()), target)
    if isinstance(target, ast.Attribute):
        return ast.copy_location(ast.Attribute(value=target.value, attr=target.attr, ctx=ast.Load()), target)
    raise AnalysisError('unsupported augmented-assignment target')
