"""Abstract arrays: concrete (small) length, abstract elements.

An element is El(d, m): d = canonical expression (expr.py), m = concrete mask bit.
A Vec is a 1-D view onto a shared backing list (so that `a[1:][M] = v` writes through, like numpy
basic slicing), with a numpy-ish `kind` and `dtype`.  Vec2 is the small 2-D case needed for the
strided rolling windows.
"""
from collections import namedtuple
from fractions import Fraction as Fr

from . import expr as X

El = namedtuple('El', 'd m')


class Masked:
    """np.ma.masked singleton"""
    def __repr__(self):
        return 'masked'


MASKED = Masked()
NONE_EL = ('none',)      # a Python None inside an object array
OOB = ('oob',)           # memory outside the buffer (as_strided overrun)


class Backing:
    __slots__ = ('cells', 'owner', 'readonly', 'label', 'serial')
    counter = 0                     # allocation order: tells memory allocated during a call from memory that existed before it

    def __init__(self, cells, owner=None, label=None):
        Backing.counter += 1
        self.serial = Backing.counter
        self.cells = cells          # list[El]
        self.owner = owner          # None = fresh memory allocated by the analysed code; else the caller-owned input name
        self.label = label


class Sc:
    """abstract numpy scalar"""
    __slots__ = ('d', 'dtype', 'unit', 'narrow')

    def __init__(self, d, dtype='f8', unit=None, narrow=False):
        self.d = d
        self.dtype = dtype
        self.unit = unit
        self.narrow = narrow        # np.float32 / np.float16 scalar

    def concrete(self):
        return X.is_num(self.d)

    def value(self):
        if not X.is_num(self.d):
            raise ValueError('symbolic scalar')
        return self.d[1]

    def __repr__(self):
        return f'Sc({X.show(self.d)}:{self.dtype})'


class Vec:

    def __init__(self, back, idx, kind='nd', dtype='f8', unit=None, index=None, tz=None):
        self.back = back
        self.idx = idx            # list of positions in back.cells (or None entries = OOB)
        self.kind = kind          # 'nd' | 'ma' | 'series' | 'index' | 'dtindex'
        self.dtype = dtype
        self.unit = unit          # for m8 / M8
        self.index = index        # for series: a Vec of index labels
        self.tz = tz
        self.shape2 = None
        # a *lazy boolean selection* x[m] with an undecided mask m: the full-length elements are kept and `sel_mask` holds
        # the formulas; only element-wise use and `target[m] = x[m]` (same m) are meaningful
        self.sel_mask = None
        # numpy's writeable flag of this array object (views of a read-only array are read-only, copies are writable)
        self.ro = False
        # a float array narrower than float64 (float32 / float16): values are modelled exactly, but arithmetic or comparisons carried out
        # in that width round differently from float64 - recorded as an event, see models_np.note_int_arith
        self.narrow = False
        # the `.data` / np.ma.getdata view of a masked array: shares the memory, reads see no mask and writes keep the cell's mask bit
        self.dview = False

    # ---- construction ----
    @classmethod
    def fresh(cls, els, kind='nd', dtype='f8', unit=None, owner=None, label=None, **kw):
        b = Backing(list(els), owner=owner, label=label)
        return cls(b, list(range(len(b.cells))), kind, dtype, unit, **kw)

    def like(self, els, **kw):
        args = dict(kind=self.kind, dtype=self.dtype, unit=self.unit, index=self.index, tz=self.tz)
        args.update(kw)
        out = Vec.fresh(els, **args)
        out.narrow = self.narrow and out.dtype == 'f8'
        return out

    def view(self, idx, **kw):
        v = Vec(self.back, idx, self.kind, self.dtype, self.unit, self.index, self.tz)
        v.ro = self.ro
        v.narrow = self.narrow
        v.dview = self.dview
        for k, val in kw.items():
            setattr(v, k, val)
        return v

    def copy(self, **kw):
        return self.like(self.els(), **kw)

    # ---- access ----
    def __len__(self):
        if self.sel_mask is not None:
            from .repo import AnalysisError
            raise AnalysisError('length of a data-dependent boolean selection (symbolic)')
        return len(self.idx)

    def full_len(self):
        return len(self.idx)

    def els(self):
        cells = self.back.cells
        out = []
        for i in self.idx:
            if i is None or i < 0 or i >= len(cells):
                out.append(El(OOB, False))
            elif self.dview:
                out.append(El(cells[i].d, False))
            else:
                out.append(cells[i])
        return out

    def el(self, i):
        j = self.idx[i]
        cells = self.back.cells
        if j is None or j < 0 or j >= len(cells):
            return El(OOB, False)
        if self.dview:
            return El(cells[j].d, False)
        return cells[j]

    def set(self, i, el):
        if self.dview:
            el = El(el.d, self.back.cells[self.idx[i]].m)
        self.back.cells[self.idx[i]] = el

    def is_ma(self):
        return self.kind == 'ma'

    def masks(self):
        return [e.m for e in self.els()]

    def __repr__(self):
        body = ', '.join(('--' if e.m is True else ('' if e.m is False else '?')) + X.show(e.d) for e in self.els())
        return f'{self.kind}<{self.dtype}>[{body}]'


class Vec2:
    """2-D array as a list of row Vecs (all the same width)"""
    __slots__ = ('rows', 'width', 'kind', 'dtype')

    def __init__(self, rows, width, kind='nd', dtype='f8'):
        self.rows = rows
        self.width = width
        self.kind = kind
        self.dtype = dtype

    @property
    def shape(self):
        return (len(self.rows), self.width)

    def __repr__(self):
        return f'Vec2{self.shape}' + repr(self.rows)


def norm_index(i, n):
    """python index -> position or None when out of range"""
    if i < 0:
        i += n
    if i < 0 or i >= n:
        return None
    return i


def to_fr(v):
    if isinstance(v, Sc):
        return v.value()
    if isinstance(v, bool):
        return Fr(int(v))
    if isinstance(v, (int, Fr)):
        return Fr(v)
    if isinstance(v, float):
        return Fr(v)
    raise TypeError(v)


# ---- masks may be data dependent: a mask bit is True / False or a formula (expr.py) --------------

def m_norm(m):
    from . import expr as X
    if m is True or m is False:
        return m
    if m == X.TRUE:
        return True
    if m == X.FALSE:
        return False
    return m


def m_or(a, b):
    from . import expr as X
    if a is True or b is True:
        return True
    if a is False:
        return b
    if b is False:
        return a
    return m_norm(X.f_or(a, b))


def m_and(a, b):
    from . import expr as X
    if a is False or b is False:
        return False
    if a is True:
        return b
    if b is True:
        return a
    return m_norm(X.f_and(a, b))


def m_formula(m):
    from . import expr as X
    if m is True:
        return X.TRUE
    if m is False:
        return X.FALSE
    return m


def m_ite(g, a, b):
    """mask after a store guarded by formula g"""
    from . import expr as X
    if a is b or a == b:
        return a
    return m_norm(X.f_or(X.f_and(g, m_formula(a)), X.f_and(X.f_not(g), m_formula(b))))


def m_conc(m, node=None, what='operation'):
    """concrete mask bit or AnalysisError"""
    if m is True or m is False:
        return m
    from .repo import AnalysisError
    raise AnalysisError(f'{what} needs a concrete mask but the mask is data dependent', node)
