"""Scenario construction and the driver that runs one repository function in the abstract interpreter."""
from fractions import Fraction as Fr

from . import expr as X
from .interp import AbsRaise, Interp
from .models import Models
from .repo import AnalysisError, Repo
from .vec import El, Sc, Vec

_MODELS = None


def models():
    global _MODELS
    if _MODELS is None:
        _MODELS = Models()
    return _MODELS


class Outcome:
    def __init__(self, kind, value=None, exc=None, events=None, node=None, interp=None):
        self.kind = kind          # 'return' | 'raise'
        self.value = value
        self.exc = exc
        self.events = events or []
        self.node = node
        self.interp = interp

    def __repr__(self):
        return f'<Outcome {self.kind} {self.value if self.kind == "return" else self.exc}>'


def x(name, i):
    return ('x', name, i)


INF = X.fn('inf', X.num(1))


def data_input(name, pattern, carrier='list_none', symbolic=True, values=None):
    """A caller-owned data series.

    pattern: string over {'p' present, 'm' missing}
    carrier: list_none | list_nan | tuple_nan | ndarray | masked | series
    values:  optional list of concrete numbers for present cells (else symbolic atoms x(name,i))
    returns (python value for the call, registry of owned objects)
    """
    els = []
    for i, c in enumerate(pattern):
        if c == 'p':
            els.append(Sc(x(name, i)) if values is None else values[i])
        elif c == 'i':
            # an infinite entry: a value every float carrier can hold, which the tests treat as invalid (masked_invalid)
            els.append(Sc(INF))
        else:
            els.append(None)
    if carrier in ('list_none', 'list_nan', 'tuple_nan'):
        out = []
        for e in els:
            if e is None:
                out.append(None if carrier == 'list_none' else float('nan'))
            elif isinstance(e, Sc) and e.d == INF:
                out.append(float('inf'))
            else:
                out.append(e)
        return tuple(out) if carrier == 'tuple_nan' else out
    if carrier in ('ndarray', 'series'):
        cells = [El(X.NAN, False) if e is None else El(e.d if isinstance(e, Sc) else X.num(e), False) for e in els]
        v = Vec.fresh(cells, kind='nd' if carrier == 'ndarray' else 'series', dtype='f8', owner=name)
        return v
    if carrier == 'ndarray_f4':
        # a float32 array: the values are the same numbers, the width is what differs
        cells = [El(X.NAN, False) if e is None else El(e.d if isinstance(e, Sc) else X.num(e), False) for e in els]
        v = Vec.fresh(cells, kind='nd', dtype='f8', owner=name)
        v.narrow = True
        return v
    if carrier == 'ndarray_int':
        # an integer-typed array cannot hold missing values
        cells = [El(e.d if isinstance(e, Sc) else X.num(e), False) for e in els if e is not None]
        if len(cells) != len(els):
            raise ValueError('integer carrier with missing values')
        return Vec.fresh(cells, kind='nd', dtype='i8', owner=name)
    if carrier == 'ndarray_u1':
        cells = [El(e.d if isinstance(e, Sc) else X.num(e), False) for e in els if e is not None]
        if len(cells) != len(els):
            raise ValueError('integer carrier with missing values')
        return Vec.fresh(cells, kind='nd', dtype='u1', owner=name)
    if carrier == 'masked_nan':
        # a masked array (no element masked) in which the missing values are NaN
        cells = [El(X.NAN, False) if e is None else El(e.d if isinstance(e, Sc) else X.num(e), False) for e in els]
        return Vec.fresh(cells, kind='ma', dtype='f8', owner=name)
    if carrier == 'masked':
        # the data under a caller's mask is an arbitrary real number
        cells = [El(x(name + '~masked', i), True) if e is None else El(e.d if isinstance(e, Sc) else X.num(e), False)
                 for i, e in enumerate(els)]
        return Vec.fresh(cells, kind='ma', dtype='f8', owner=name)
    raise ValueError(carrier)


def time_input(name, seconds, carrier='dt64'):
    """A caller-owned time axis; `seconds` are concrete positions on the scenario's time line."""
    from .models_pd import TS
    secs = [Fr(s) for s in seconds]
    cells = [El(X.num(s), False) for s in secs]
    if carrier == 'dt64':
        return Vec.fresh(cells, kind='nd', dtype='M8', unit='ns', owner=name)
    if carrier == 'dt64_s':
        return Vec.fresh(cells, kind='nd', dtype='M8', unit='s', owner=name)
    if carrier == 'dt64_m':
        if any(x % 60 for x in secs):
            raise ValueError('minute carrier needs whole minutes')
        return Vec.fresh(cells, kind='nd', dtype='M8', unit='m', owner=name)
    if carrier in ('dt64_scalar_list', 'dt64_scalar_tuple'):
        # np.datetime64 scalars (second resolution) in a plain list / tuple: no dtype on the container
        if any(x.denominator != 1 for x in secs):
            raise ValueError('second-resolution scalars need whole seconds')
        out = [Sc(X.num(s), 'M8', 's') for s in secs]
        return out if carrier == 'dt64_scalar_list' else tuple(out)
    if carrier == 'epoch_list':
        return [int(s) if s.denominator == 1 else s for s in secs]
    if carrier == 'epoch_array':
        return Vec.fresh(cells, kind='nd', dtype='f8', owner=name)
    if carrier in ('epoch_series_u', 'epoch_index_u', 'epoch_array_u'):
        # whole epoch seconds in an unsigned integer container (uint8 here: the instants of the scenarios are small numbers)
        if any(x.denominator != 1 or not 0 <= x < 256 for x in secs):
            raise ValueError('unsigned 8-bit carrier needs whole seconds below 256')
        kind = {'epoch_series_u': 'series', 'epoch_index_u': 'index', 'epoch_array_u': 'nd'}[carrier]
        return Vec.fresh(cells, kind=kind, dtype='u1', owner=name)
    if carrier in ('epoch_series', 'epoch_index'):
        # numbers of seconds since the epoch held in a pandas Series / Index
        return Vec.fresh(cells, kind='series' if carrier == 'epoch_series' else 'index', dtype='f8', owner=name)
    if carrier == 'series':
        return Vec.fresh(cells, kind='series', dtype='M8', unit='ns', owner=name)
    if carrier == 'series_tz':
        v = Vec.fresh(cells, kind='series', dtype='M8', unit='ns', owner=name)
        v.tz = 'UTC'
        return v
    if carrier == 'dtindex':
        return Vec.fresh(cells, kind='dtindex', dtype='M8', unit='ns', owner=name)
    if carrier == 'dtindex_tz':
        v = Vec.fresh(cells, kind='dtindex', dtype='M8', unit='ns', owner=name)
        v.tz = 'UTC'
        return v
    if carrier in ('dtindex_s', 'dtindex_ms', 'series_s', 'series_us'):
        # pandas >= 2 keeps non-nanosecond resolutions (e.g. an index built from datetime64[s] data)
        unit = carrier.split('_')[1]
        from .models import UNIT_SECONDS
        if any((x / UNIT_SECONDS[unit]).denominator != 1 for x in secs):
            raise ValueError('instants not representable in the carrier unit')
        return Vec.fresh(cells, kind='dtindex' if carrier.startswith('dtindex') else 'series', dtype='M8', unit=unit, owner=name)
    if carrier == 'pydatetime':
        return [TS(s, py=True) for s in secs]
    if carrier == 'timestamp_list':
        return [TS(s) for s in secs]
    raise ValueError(carrier)


def register_owned(interp, name, value):
    if isinstance(value, (list, dict)):
        interp.owned[id(value)] = name


class Runner:
    """One Repo + Interp per check process; module namespaces are loaded once."""

    def __init__(self, repo=None):
        self.repo = repo or Repo()
        self.interp = Interp(self.repo, models())
        self.interp.owned = {}

    def function(self, modname, qual):
        return self.interp.get_function(modname, qual)

    def run(self, fn, args=(), kwargs=None, time_features=None, owned=None, parse_time=None):
        it = self.interp
        it.close_generators()          # generators left half-consumed by an earlier run
        it.events = []
        it.live = X.TRUE
        it.steps = 0
        it.depth = 0
        it.call_stack = []
        it.time_features = time_features
        it.parse_time = parse_time
        it.owned = {}
        for name, val in (owned or {}).items():
            register_owned(it, name, val)
        # module-level mutable containers are shared state: writes to them are history dependence
        for mname, ns in it.modules.items():
            for var, val in ns.globals.items():
                if isinstance(val, (list, dict, set)) and not var.startswith('__'):
                    it.owned[id(val)] = f'module-state:{mname}.{var}'
        # so are mutable default arguments (evaluated once, when the def was executed)
        for oid, (obj, label) in getattr(it, 'default_objects', {}).items():
            it.owned.setdefault(oid, label)
        from .vec import Backing
        start = Backing.counter
        try:
            v = it.call(fn, list(args), dict(kwargs or {}), None)
            out = Outcome('return', value=v, events=it.events, interp=it)
            out.start_serial = start
            return out
        except AbsRaise as r:
            return Outcome('raise', exc=r.exc, events=it.events, node=r.node, interp=it)
