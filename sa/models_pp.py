"""Model of the pyparsing combinators used by ioos_qc.config_creator.fx_parser (trusted base for C20).

Semantics encoded (pyparsing 3 without packrat):
  * leaf elements skip leading whitespace, then match at the current position;
  * `a + b` sequence; `a - b` sequence with error stop (a failure after the '-' is fatal, no backtracking);
  * `a | b` ordered choice (MatchFirst): first alternative that matches wins;
  * `e[...]` zero or more, greedy;  Group wraps the tokens of its content into one nested list;  Suppress drops tokens;
  * a parse action runs immediately whenever its element matches — also inside alternatives that are later abandoned —
    with the list of tokens of that element; a non-None return value replaces the tokens;
  * parseString(s, parseAll=True) fails unless the whole string (up to trailing whitespace) is consumed.
"""
import re

from .interp import AbsRaise, ExcVal, ExtRef
from .models import PyCallable
from .repo import AnalysisError

WS = ' \t\n\r'


class ParseFail(Exception):
    def __init__(self, pos, msg=''):
        self.pos = pos
        self.msg = msg


class ParseFatal(ParseFail):
    pass


class Element:
    def __init__(self):
        self.actions = []

    # combinators
    def abs_getattr(self, interp, name, node):
        if name in ('setParseAction', 'set_parse_action', 'addParseAction', 'add_parse_action'):
            def f(it, a, k, n):
                if name.startswith('set') or name.startswith('set_'):
                    self.actions = list(a)
                else:
                    self.actions.extend(a)
                return self
            return PyCallable(f, name)
        if name in ('parseString', 'parse_string'):
            return PyCallable(self.parse_string, name)
        if name in ('setName', 'set_name', 'setDebug', 'leaveWhitespace', 'suppress'):
            if name == 'suppress':
                return PyCallable(lambda it, a, k, n: Suppress(self), name)
            return PyCallable(lambda it, a, k, n: self, name)
        raise AnalysisError(f'pyparsing element attribute {name} not modelled', node)

    def abs_getitem(self, interp, key, node):
        if key is Ellipsis or key == (Ellipsis,):
            return ZeroOrMore(self)
        if isinstance(key, tuple) and len(key) == 2 and key[1] is Ellipsis and key[0] == 1:
            return OneOrMore(self)
        raise AnalysisError('pyparsing repetition form not modelled', node)

    def parse_string(self, interp, args, kw, node):
        s = args[0]
        if not isinstance(s, str):
            raise AbsRaise(ExcVal('TypeError', ('parseString expects a string',)), node)
        parse_all = kw.get('parseAll', kw.get('parse_all', args[1] if len(args) > 1 else False))
        try:
            pos, toks = self.parse(interp, s, 0, node)
        except ParseFail as e:
            raise AbsRaise(ExcVal('ParseException', (f'at char {e.pos}: {e.msg}',)), node)
        if parse_all:
            p = skip_ws(s, pos)
            if p != len(s):
                raise AbsRaise(ExcVal('ParseException', (f'Expected end of text, found {s[p:p + 1]!r} at char {p}',)), node)
        return toks

    def parse(self, interp, s, pos, node):
        pos2, toks = self.match(interp, s, pos, node)
        for act in self.actions:
            r = interp.call(act, [toks], {}, node)
            if r is not None:
                toks = r if isinstance(r, list) else [r]
        return pos2, toks

    def match(self, interp, s, pos, node):
        raise NotImplementedError


def skip_ws(s, pos):
    while pos < len(s) and s[pos] in WS:
        pos += 1
    return pos


class Literal(Element):
    def __init__(self, text):
        super().__init__()
        self.text = text

    def match(self, interp, s, pos, node):
        p = skip_ws(s, pos)
        if s.startswith(self.text, p):
            return p + len(self.text), [self.text]
        raise ParseFail(p, f'Expected {self.text!r}')


class CaselessKeyword(Element):
    IDENT = set('abcdefghijklmnopqrstuvwxyzABCDEFGHIJKLMNOPQRSTUVWXYZ0123456789_$')

    def __init__(self, text):
        super().__init__()
        self.text = text

    def match(self, interp, s, pos, node):
        p = skip_ws(s, pos)
        end = p + len(self.text)
        if s[p:end].upper() == self.text.upper() and (end >= len(s) or s[end] not in self.IDENT) and (p == 0 or s[p - 1] not in self.IDENT):
            return end, [self.text]
        raise ParseFail(p, f'Expected {self.text!r}')


class Word(Element):
    def __init__(self, init, body=None):
        super().__init__()
        self.init = set(init)
        self.body = set(body if body is not None else init)

    def match(self, interp, s, pos, node):
        p = skip_ws(s, pos)
        if p < len(s) and s[p] in self.init:
            q = p + 1
            while q < len(s) and s[q] in self.body:
                q += 1
            return q, [s[p:q]]
        raise ParseFail(p, 'Expected word')


class Regex(Element):
    def __init__(self, pattern):
        super().__init__()
        self.re = re.compile(pattern)

    def match(self, interp, s, pos, node):
        p = skip_ws(s, pos)
        m = self.re.match(s, p)
        if m and m.end() > p:
            return m.end(), [m.group(0)]
        raise ParseFail(p, 'Expected number')


class And(Element):
    def __init__(self, parts, stops=()):
        super().__init__()
        self.parts = list(parts)
        self.stops = set(stops)       # indexes after which a failure is fatal

    def match(self, interp, s, pos, node):
        toks = []
        fatal = False
        for i, part in enumerate(self.parts):
            try:
                pos, t = part.parse(interp, s, pos, node)
            except ParseFatal:
                raise
            except ParseFail as e:
                if fatal:
                    raise ParseFatal(e.pos, e.msg)
                raise
            toks.extend(t)
            if i in self.stops:
                fatal = True
        return pos, toks


class MatchFirst(Element):
    def __init__(self, alts):
        super().__init__()
        self.alts = list(alts)

    def match(self, interp, s, pos, node):
        last = None
        for a in self.alts:
            try:
                return a.parse(interp, s, pos, node)
            except ParseFatal:
                raise
            except ParseFail as e:
                if last is None or e.pos > last.pos:
                    last = e
        raise last or ParseFail(pos, 'no alternative')


class ZeroOrMore(Element):
    def __init__(self, inner, minimum=0):
        super().__init__()
        self.inner = inner
        self.minimum = minimum

    def match(self, interp, s, pos, node):
        toks = []
        n = 0
        while True:
            try:
                p2, t = self.inner.parse(interp, s, pos, node)
            except ParseFatal:
                raise
            except ParseFail as e:
                if n < self.minimum:
                    raise
                break
            if p2 == pos:
                break
            pos = p2
            toks.extend(t)
            n += 1
        return pos, toks


class OneOrMore(ZeroOrMore):
    def __init__(self, inner):
        super().__init__(inner, 1)


class Group(Element):
    def __init__(self, inner):
        super().__init__()
        self.inner = inner

    def match(self, interp, s, pos, node):
        pos, t = self.inner.parse(interp, s, pos, node)
        return pos, [t]


class Suppress(Element):
    def __init__(self, inner):
        super().__init__()
        self.inner = inner if isinstance(inner, Element) else Literal(inner)

    def match(self, interp, s, pos, node):
        pos, _ = self.inner.parse(interp, s, pos, node)
        return pos, []


class Forward(Element):
    def __init__(self):
        super().__init__()
        self.target = None

    def match(self, interp, s, pos, node):
        if self.target is None:
            raise AnalysisError('pyparsing Forward used before definition', node)
        return self.target.parse(interp, s, pos, node)


class DelimitedList(Element):
    def __init__(self, inner, delim=','):
        super().__init__()
        self.inner = inner
        self.delim = Literal(delim)

    def match(self, interp, s, pos, node):
        pos, toks = self.inner.parse(interp, s, pos, node)
        while True:
            try:
                p2, _ = self.delim.parse(interp, s, pos, node)
                p3, t = self.inner.parse(interp, s, p2, node)
            except ParseFatal:
                raise
            except ParseFail:
                break
            pos = p3
            toks.extend(t)
        return pos, toks


def as_element(x):
    if isinstance(x, Element):
        return x
    if isinstance(x, str):
        return Literal(x)
    raise AnalysisError(f'pyparsing operand {type(x).__name__} not modelled')


def binop(op, a, b, node):
    """Element operators: + (And), - (And with error stop), | (MatchFirst), <<= (Forward assignment)"""
    if op in ('Add', 'Sub'):
        a, b = as_element(a), as_element(b)
        parts, stops = [], set()
        if isinstance(a, And) and not a.actions:
            parts, stops = list(a.parts), set(a.stops)
        else:
            parts = [a]
        if op == 'Sub':
            stops.add(len(parts) - 1)
        parts.append(b)
        return And(parts, stops)
    if op == 'BitOr':
        a, b = as_element(a), as_element(b)
        alts = list(a.alts) if isinstance(a, MatchFirst) and not a.actions else [a]
        alts.append(b)
        return MatchFirst(alts)
    if op == 'LShift':
        if not isinstance(a, Forward):
            raise AnalysisError('<<= on a non-Forward', node)
        a.target = as_element(b)
        return a
    raise AnalysisError(f'pyparsing operator {op} not modelled', node)


def register(M):
    E = M.ext_call

    def mk(cls):
        def f(interp, args, kw, node):
            try:
                return cls(*args)
            except TypeError as e:
                raise AnalysisError(f'pyparsing {cls.__name__} arguments not modelled: {e}', node)
        return f
    for name, cls in (('Literal', Literal), ('Word', Word), ('Group', Group), ('Forward', Forward), ('Regex', Regex),
                      ('CaselessKeyword', CaselessKeyword), ('Suppress', Suppress), ('Keyword', CaselessKeyword)):
        E['pyparsing.' + name] = mk(cls)
    E['pyparsing.delimitedList'] = E['pyparsing.delimited_list'] = E['pyparsing.DelimitedList'] = mk(DelimitedList)
    E['pyparsing.ZeroOrMore'] = mk(ZeroOrMore)
    E['pyparsing.OneOrMore'] = mk(OneOrMore)
    E['pyparsing.Optional'] = E['pyparsing.Opt'] = lambda it, a, k, n: MatchFirst([as_element(a[0]), And([])])


CONSTS = {
    'pyparsing.alphas': 'abcdefghijklmnopqrstuvwxyzABCDEFGHIJKLMNOPQRSTUVWXYZ',
    'pyparsing.nums': '0123456789',
    'pyparsing.alphanums': 'abcdefghijklmnopqrstuvwxyzABCDEFGHIJKLMNOPQRSTUVWXYZ0123456789',
}
