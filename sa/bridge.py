"""Fallback for library calls outside the model table: when every argument is *concrete*, the real numpy / pandas
function is called (the library is the trusted base; this is not repository code) and the result is converted back to
abstract values.  Symbolic arguments cannot be bridged -> AnalysisError as before.

Used (a) transparently for concrete sub-computations and (b) by the concretised table rule (qc.py), which re-runs a scenario
with exact representative data for every order cell when the symbolic interpretation is refused.
"""
import importlib
import math
from fractions import Fraction as Fr

from . import expr as X
from .interp import AbsRaise, ExcVal, ExtRef, FB, FuncVal, BoundMethod
from .repo import AnalysisError
from .vec import MASKED, NONE_EL, El, Masked, Sc, Vec, Vec2

try:
    import numpy as np
    import pandas as pd
    HAVE = True
except Exception:      # noqa: BLE001
    HAVE = False


class NotConcrete(Exception):
    pass


class RealObj:
    """an object of the real library that has no abstract counterpart (np.finfo(...), a pandas Grouper, ...)"""
    def __init__(self, obj):
        self.obj = obj

    def abs_getattr(self, interp, name, node):
        try:
            return from_real(getattr(self.obj, name))
        except AttributeError as e:
            raise AbsRaise(ExcVal('AttributeError', (str(e),)), node)

    def abs_truth(self):
        return bool(self.obj)

    def __repr__(self):
        return f'<real {type(self.obj).__name__}>'


def el_to_py(e, dtype):
    d = e.d
    if d == NONE_EL:
        return None
    if X.is_formula(d):
        if d == X.TRUE:
            return True
        if d == X.FALSE:
            return False
        raise NotConcrete('undecided boolean element')
    if d == X.NAN:
        return float('nan')
    if X.is_num(d):
        v = d[1]
        if dtype in ('i8', 'u1'):
            return int(v) if v.denominator == 1 else float(v)
        if dtype == 'b1':
            return bool(v)
        return float(v)
    raise NotConcrete(f'symbolic element {X.show(d)[:40]}')


def to_real(v, interp=None):
    if isinstance(v, (str, bool, int, type(None), bytes)):
        return v
    if isinstance(v, Fr):
        return int(v) if v.denominator == 1 and abs(v) < 2 ** 53 and False else float(v)
    if isinstance(v, float):
        return v
    if isinstance(v, Masked):
        return np.ma.masked
    if isinstance(v, FB):
        raise NotConcrete('undecided boolean')
    if isinstance(v, Sc):
        if not v.concrete():
            if v.d == X.NAN:
                return np.datetime64('NaT') if v.dtype == 'M8' else float('nan')
            raise NotConcrete('symbolic scalar')
        x = v.value()
        if v.dtype == 'M8':
            return np.datetime64(int(round(x * 10 ** 9)), 'ns')
        if v.dtype == 'm8':
            return np.timedelta64(int(round(x * 10 ** 9)), 'ns')
        if v.dtype in ('i8', 'u1'):
            return np.int64(int(x))
        if v.dtype == 'b1':
            return np.bool_(bool(x))
        return np.float64(float(x))
    if isinstance(v, Vec):
        if v.sel_mask is not None:
            raise NotConcrete('lazy selection')
        els = v.els()
        masks = []
        for e in els:
            if e.m not in (True, False):
                raise NotConcrete('data-dependent mask')
            masks.append(e.m)
        vals = [el_to_py(e, v.dtype) for e in els]
        if v.dtype == 'M8':
            arr = np.array([np.datetime64('NaT') if (x is None or x != x) else np.datetime64(int(round(x * 10 ** 9)), 'ns') for x in vals], dtype='datetime64[ns]')
        elif v.dtype == 'm8':
            arr = np.array([np.timedelta64('NaT') if (x is None or x != x) else np.timedelta64(int(round(x * 10 ** 9)), 'ns') for x in vals], dtype='timedelta64[ns]')
        elif v.dtype == 'O':
            arr = np.array(vals, dtype=object)
        else:
            arr = np.array(vals, dtype={'f8': 'float64', 'i8': 'int64', 'u1': 'uint8', 'b1': 'bool'}[v.dtype])
        if v.kind == 'nd':
            return arr
        if v.kind == 'ma':
            return np.ma.array(arr, mask=masks)
        if v.kind == 'series':
            idx = to_real(v.index, interp) if v.index is not None else None
            s = pd.Series(arr, index=idx)
            return s.dt.tz_localize('UTC') if v.tz and v.dtype == 'M8' else s
        if v.kind == 'dtindex':
            ix = pd.DatetimeIndex(arr)
            return ix.tz_localize('UTC') if v.tz else ix
        if v.kind == 'index':
            return pd.Index(arr)
    if isinstance(v, Vec2):
        return np.array([to_real(r, interp) for r in v.rows]).reshape(len(v.rows), v.width)
    if isinstance(v, (list, tuple)) and not hasattr(v, '_fields'):
        out = [to_real(x, interp) for x in v]
        return tuple(out) if isinstance(v, tuple) else out
    if isinstance(v, dict):
        return {k: to_real(x, interp) for k, x in v.items()}
    if isinstance(v, slice):
        return slice(to_real(v.start, interp), to_real(v.stop, interp), to_real(v.step, interp))
    if isinstance(v, RealObj):
        return v.obj
    if isinstance(v, ExtRef):
        return resolve(v.path)
    if v is Ellipsis:
        return v
    if isinstance(v, (FuncVal, BoundMethod)) and interp is not None:
        def callback(*a, **k):
            r = interp.call(v, [from_real(x) for x in a], {kk: from_real(x) for kk, x in k.items()}, None)
            return to_real(r, interp)
        return callback
    from .models_pd import TS
    if isinstance(v, TS):
        return pd.Timestamp(int(round(v.t * 10 ** 9)), unit='ns', tz='UTC' if v.tz else None)
    from .models import DType
    if isinstance(v, DType):
        return np.dtype({'f8': 'float64', 'i8': 'int64', 'u1': 'uint8', 'b1': 'bool', 'O': 'object', 'M8': f'datetime64[{v.unit or "ns"}]', 'm8': f'timedelta64[{v.unit or "ns"}]'}[v.code])
    raise NotConcrete(f'no real counterpart for {type(v).__name__}')


def num_el(x):
    if x is None:
        return El(NONE_EL, False)
    if isinstance(x, (bool, np.bool_)):
        return El(X.TRUE if x else X.FALSE, False)
    if isinstance(x, (int, np.integer)):
        return El(X.num(int(x)), False)
    f = float(x)
    if f != f:
        return El(X.NAN, False)
    if f in (float('inf'), float('-inf')):
        return El(X.fn('inf', X.num(1 if f > 0 else -1)), False)
    return El(X.num(Fr(f)), False)


def array_to_vec(a, kind='nd', mask=None, index=None):
    dt = a.dtype
    unit = None
    if dt.kind == 'M':
        code, unit = 'M8', 'ns'
        ints = a.astype('datetime64[ns]').astype('int64')
        nat = np.isnat(a)
        els = [El(X.NAN, False) if n else El(X.num(Fr(int(i), 10 ** 9)), False) for i, n in zip(ints, nat)]
    elif dt.kind == 'm':
        code, unit = 'm8', 'ns'
        ints = a.astype('timedelta64[ns]').astype('int64')
        nat = np.isnat(a)
        els = [El(X.NAN, False) if n else El(X.num(Fr(int(i), 10 ** 9)), False) for i, n in zip(ints, nat)]
    elif dt.kind == 'b':
        code = 'b1'
        els = [num_el(bool(x)) for x in a]
    elif dt.kind in 'iu':
        code = 'u1' if dt == np.uint8 else 'i8'
        els = [num_el(int(x)) for x in a]
    elif dt.kind == 'f':
        code = 'f8'
        els = [num_el(float(x)) for x in a]
    elif dt.kind == 'O':
        code = 'O'
        els = []
        for x in a:
            if x is None or isinstance(x, (int, float, bool, np.generic)):
                els.append(num_el(x))
            else:
                raise NotConcrete('object array element')
    else:
        raise NotConcrete(f'dtype {dt}')
    if mask is not None:
        els = [El(e.d, bool(m)) for e, m in zip(els, mask)]
    return Vec.fresh(els, kind=kind, dtype=code, unit=unit, index=index)


def from_real(x):
    if x is None or isinstance(x, (str, bool, int, bytes)):
        return x
    if isinstance(x, slice) and all(v is None or isinstance(v, (int, np.integer)) for v in (x.start, x.stop, x.step)):
        return slice(*(None if v is None else int(v) for v in (x.start, x.stop, x.step)))
    if isinstance(x, float):
        return x if x != x or x in (float('inf'), float('-inf')) else Fr(x)
    if x is np.ma.masked:
        return MASKED
    if isinstance(x, np.ma.MaskedArray):
        if x.ndim == 0:
            return MASKED if x.mask else from_real(x.item())
        if x.ndim == 1:
            return array_to_vec(np.ma.getdata(x), 'ma', np.ma.getmaskarray(x))
        if x.ndim == 2:
            rows = [array_to_vec(np.ma.getdata(r), 'ma', np.ma.getmaskarray(r)) for r in x]
            return Vec2(rows, x.shape[1], 'ma', rows[0].dtype if rows else 'f8')
        raise NotConcrete('>2-D array')
    if isinstance(x, np.ndarray):
        if x.ndim == 0:
            return from_real(x[()])
        if x.ndim == 1:
            return array_to_vec(x)
        if x.ndim == 2:
            rows = [array_to_vec(r) for r in x]
            return Vec2(rows, x.shape[1], 'nd', rows[0].dtype if rows else 'f8')
        raise NotConcrete('>2-D array')
    if isinstance(x, np.bool_):
        return bool(x)
    if isinstance(x, np.datetime64):
        if np.isnat(x):
            return Sc(X.NAN, 'M8', 'ns')
        return Sc(X.num(Fr(int(x.astype('datetime64[ns]').astype('int64')), 10 ** 9)), 'M8', 'ns')
    if isinstance(x, np.timedelta64):
        if np.isnat(x):
            return Sc(X.NAN, 'm8', 'ns')
        return Sc(X.num(Fr(int(x.astype('timedelta64[ns]').astype('int64')), 10 ** 9)), 'm8', 'ns')
    if isinstance(x, np.integer):
        return Sc(X.num(int(x)), 'i8')
    if isinstance(x, np.floating):
        f = float(x)
        return Sc(X.NAN if f != f else X.num(Fr(f)) if math.isfinite(f) else X.fn('inf', X.num(1 if f > 0 else -1)), 'f8')
    if isinstance(x, pd.Series):
        idx = from_real(x.index) if not isinstance(x.index, pd.RangeIndex) else None
        arr = x.to_numpy()
        tz = getattr(x.dtype, 'tz', None)
        if tz is not None:
            arr = x.dt.tz_localize(None).to_numpy()
        v = array_to_vec(arr, 'series', index=idx)
        v.tz = 'UTC' if tz is not None else None
        return v
    if isinstance(x, pd.DatetimeIndex):
        tz = x.tz
        v = array_to_vec((x.tz_localize(None) if tz is not None else x).to_numpy(), 'dtindex')
        v.tz = 'UTC' if tz is not None else None
        return v
    if isinstance(x, pd.Index):
        return array_to_vec(x.to_numpy(), 'index')
    if isinstance(x, pd.Timestamp):
        from .models_pd import TS
        return TS(Fr(x.value, 10 ** 9), tz='UTC' if x.tz is not None else None)
    if isinstance(x, pd.Timedelta):
        return Sc(X.num(Fr(x.value, 10 ** 9)), 'm8', 'ns')
    if isinstance(x, tuple):
        return tuple(from_real(a) for a in x)
    if isinstance(x, list):
        return [from_real(a) for a in x]
    if isinstance(x, dict):
        return {k: from_real(a) for k, a in x.items()}
    if isinstance(x, np.dtype):
        from .models import DType
        k = x.kind
        if k in 'Mm':
            unit = np.datetime_data(x)[0]
            return DType('M8' if k == 'M' else 'm8', unit)
        return DType({'f': 'f8', 'i': 'i8', 'u': 'u1' if x == np.uint8 else 'i8', 'b': 'b1', 'O': 'O'}.get(k, 'f8'))
    return RealObj(x)


def resolve(path):
    parts = path.split('.')
    for i in range(len(parts), 0, -1):
        try:
            obj = importlib.import_module('.'.join(parts[:i]))
        except ImportError:
            continue
        for p in parts[i:]:
            obj = getattr(obj, p)
        return obj
    raise NotConcrete(f'cannot resolve {path}')


ALLOWED_ROOTS = {'numpy', 'pandas', 'math', 'operator', 'itertools', 'functools', 'collections', 'datetime', 'statistics', 'bisect', 'builtins', 're',
                 'geographiclib', 'copy', 'unicodedata', 'string', 'textwrap', 'numbers', 'fractions', 'decimal', 'calendar'}


def real_call(interp, fn_desc, target, args, kwargs, node):
    """target: ExtRef | RealObj | (obj, method name).  Calls the real library on concrete arguments."""
    if not HAVE:
        raise AnalysisError(f'call of unmodelled library function {fn_desc} (real-library fallback unavailable)', node)
    try:
        if isinstance(target, ExtRef):
            if target.path.split('.')[0] not in ALLOWED_ROOTS:
                raise NotConcrete(f'library {target.path.split(".")[0]} is not bridged')
            f = resolve(target.path)
        elif isinstance(target, RealObj):
            f = target.obj
        else:
            obj, name = target
            f = getattr(to_real(obj, interp), name)
        rargs = [to_real(a, interp) for a in args]
        rkw = {k: to_real(v, interp) for k, v in kwargs.items()}
    except NotConcrete as e:
        raise AnalysisError(f'call of unmodelled library function {fn_desc} on values that are not concrete ({e})', node)
    except AttributeError as e:
        raise AbsRaise(ExcVal('AttributeError', (str(e),)), node)
    import warnings
    try:
        with warnings.catch_warnings():
            warnings.simplefilter('ignore')
            r = f(*rargs, **rkw)
    except AbsRaise:
        raise
    except AnalysisError:
        raise
    except Exception as e:      # noqa: BLE001  the real library rejected the call
        raise AbsRaise(ExcVal(type(e).__name__ if type(e).__name__ in ('ValueError', 'TypeError', 'IndexError', 'KeyError', 'AttributeError',
                                                                         'ZeroDivisionError', 'OverflowError') else 'ValueError', (str(e)[:200],)), node)
    interp.event('real-library-call', fn=fn_desc, node=node)
    try:
        return from_real(r)
    except NotConcrete as e:
        raise AnalysisError(f'result of {fn_desc} has no abstract counterpart ({e})', node)
