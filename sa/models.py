"""Library model (the trusted base): numpy / numpy.ma / pandas / builtins as used by ioos_qc.

Each function documents the library fact it encodes (rows of DESIGN §3).  Unknown API -> AnalysisError.
"""
import collections
import math
import os
from fractions import Fraction as Fr

from . import expr as X
from .interp import (AbsRaise, BoundMethod, ClassVal, ExcType, ExcVal, ExtRef, FB, FuncVal,
                     GenResult, Instance, ModelMethod, ModuleNS, mkbool)
from .repo import AnalysisError
from .vec import MASKED, NONE_EL, OOB, Backing, El, Masked, Sc, Vec, Vec2, norm_index

FLOAT_DT = {'f8', 'f4'}


class DType:
    def __init__(self, code, unit=None, tz=None):
        self.code = code      # 'f8' 'b1' 'u1' 'i8' 'M8' 'm8' 'O'
        self.unit = unit
        self.tz = tz

    def __eq__(self, other):
        # numpy: dtype == x compares with np.dtype(x) for anything that names a dtype (np.float64, 'float64', float, ...)
        if not isinstance(other, DType):
            try:
                code, unit = parse_dtype(None, other, None)
            except Exception:
                return False
            if code in ('M8', 'm8') and isinstance(other, ExtRef):
                unit = 'generic'
            other = DType(code, unit)
        if self.code != other.code:
            return False
        if self.code in ('M8', 'm8'):
            return (self.unit or 'generic') == (other.unit or 'generic')
        return True

    def __ne__(self, other):
        return not self.__eq__(other)

    def __hash__(self):
        return hash((self.code, self.unit))

    def __repr__(self):
        return f'dtype({self.code}{"[" + self.unit + "]" if self.unit else ""})'


def parse_dtype(interp, d, node):
    """-> (code, unit)"""
    if isinstance(d, DType):
        return d.code, d.unit
    if isinstance(d, ExtRef):
        m = {
            'numpy.float64': 'f8', 'numpy.floating': 'f8', 'numpy.float32': 'f8', 'numpy.double': 'f8',
            'numpy.bool_': 'b1', 'numpy.uint8': 'u1', 'numpy.int64': 'i8', 'numpy.int32': 'i8', 'numpy.intp': 'i8', 'numpy.int_': 'i8',
            'numpy.integer': 'i8', 'numpy.longlong': 'i8', 'numpy.float_': 'f8', 'numpy.number': 'f8', 'numpy.bool': 'b1', 'numpy.object_': 'O',
            'numpy.byte': 'i8', 'numpy.datetime64': 'M8', 'numpy.timedelta64': 'm8',
            'builtins.float': 'f8', 'builtins.int': 'i8', 'builtins.bool': 'b1', 'builtins.object': 'O',
        }
        if d.path in m:
            return m[d.path], ('ns' if m[d.path] in ('M8', 'm8') else None)
    if isinstance(d, str):
        s = d
        m = {'float': 'f8', 'float64': 'f8', 'f8': 'f8', 'float32': 'f8', 'double': 'f8', 'uint8': 'u1', 'u1': 'u1',
             'int': 'i8', 'int64': 'i8', 'i8': 'i8', 'int32': 'i8', 'bool': 'b1', 'object': 'O', 'O': 'O', 'intp': 'i8', 'int_': 'i8',
             'f': 'f8', 'd': 'f8', 'i': 'i8', 'l': 'i8', 'q': 'i8', '?': 'b1', 'B': 'u1', '<f8': 'f8', '<i8': 'i8', '|b1': 'b1', '|u1': 'u1'}
        if s in m:
            return m[s], None
        for pre, code in (('datetime64', 'M8'), ('timedelta64', 'm8'), ('M8', 'M8'), ('m8', 'm8'), ('<M8', 'M8'), ('<m8', 'm8')):
            if s.startswith(pre):
                rest = s[len(pre):]
                unit = rest.strip('[]') or 'generic'
                return code, unit
    raise AnalysisError(f'unmodelled dtype {d!r}', node)


UNIT_SECONDS = {'ns': Fr(1, 10**9), 'us': Fr(1, 10**6), 'ms': Fr(1, 1000), 's': Fr(1), 'm': Fr(60),
                'h': Fr(3600), 'D': Fr(86400), 'W': Fr(7 * 86400)}


def trunc_fr(v):
    return Fr(math.trunc(v))


def floor_fr(v):
    return Fr(math.floor(v))


# ------------------------------------------------------------------------------------------------
# element helpers

def el_num(v):
    return El(X.num(v), False)


def as_operand(v):
    """-> ('vec', Vec) | ('sc', expr, masked) | None"""
    if isinstance(v, Vec):
        return ('vec', v)
    if isinstance(v, Sc):
        return ('sc', v.d, False)
    if isinstance(v, Masked):
        return ('sc', X.ANY, True)
    if isinstance(v, bool):
        return ('sc', X.TRUE if v else X.FALSE, False)
    if isinstance(v, (int, Fr)):
        return ('sc', X.num(v), False)
    if isinstance(v, float):
        return ('sc', X.num(v), False)
    if isinstance(v, FB):
        return ('sc', v.f, False)
    h = getattr(v, 'abs_operand', None)
    if h is not None:
        return h()
    if type(v).__name__ == 'NanConst':
        return ('sc', X.NAN, False)
    return None


def bool_of_el(d):
    """element data -> formula"""
    if X.is_formula(d):
        return d
    if d == X.ANY:
        return X.UNK
    if d == X.NAN:
        return X.TRUE       # bool(nan) is True
    if X.is_num(d):
        return X.TRUE if d[1] != 0 else X.FALSE
    if d[0] == 'ite':
        return X.ite(d[1], bool_of_el(d[2]), bool_of_el(d[3]))
    return X.cmp('ne', d, X.num(0))


def num_of_el(d):
    """element data -> numeric expression (bools become 0/1)"""
    if X.is_formula(d):
        if d == X.TRUE:
            return X.num(1)
        if d == X.FALSE:
            return X.num(0)
        if d == X.UNK:
            return X.ANY
        return X.ite(d, X.num(1), X.num(0))
    return d


ARITH = {
    'Add': X.add, 'Sub': X.sub, 'Mult': X.mul, 'Div': X.div,
}
CMP = {'Lt': 'lt', 'LtE': 'le', 'Gt': 'gt', 'GtE': 'ge', 'Eq': 'eq', 'NotEq': 'ne'}


# (library call, keyword) pairs whose value cannot change what the model computes; filled from an audit of the clean tree, the seeded and the
# benign sets (VERIF_KW_AUDIT=<file> logs instead of refusing).  Everything else that a model function does not read is refused.
KW_NEUTRAL = {
    ('collections.namedtuple', 'module'),       # sets __module__ of the record class only
    ('functools.lru_cache', 'maxsize'),         # eviction policy of a cache of a function's own results
    ('functools.lru_cache', 'typed'),
    ('builtins.property', 'doc'),               # the docstring of a property
}
KW_GUARD_ARMED = True

MA_ELEMENTWISE = {'sin', 'cos', 'tan', 'arcsin', 'arccos', 'arctan', 'arctan2', 'sinh', 'cosh', 'tanh', 'exp', 'log', 'log10', 'log2', 'sqrt', 'hypot', 'radians',
                  'degrees', 'deg2rad', 'rad2deg', 'floor', 'ceil', 'rint', 'absolute', 'fabs', 'negative', 'power', 'square', 'sign'}


class Models:
    def __init__(self):
        self.ext_call = {}
        self.methods = {}
        from . import models_np, models_py, models_io, models_xr, models_pp, models_more
        models_py.register(self)
        models_np.register(self)
        models_io.register(self)
        models_xr.register(self)
        models_pp.register(self)
        models_more.register(self)
        models_more.register2(self)
        from . import models_2d
        models_2d.install(self)

    # -------------------------------------------------------------------------------------------
    # imports
    def import_module(self, interp, dotted, node):
        return ExtRef(dotted)

    def import_from(self, interp, modname, name, node):
        if modname == 'numba.core.errors' and name == 'NumbaTypeError':
            return ExcType('NumbaTypeError')
        if modname == 'collections' and name == 'OrderedDict':
            return ExtRef('collections.OrderedDict')
        if modname == '__future__':
            return None
        from . import models_pp
        if f'{modname}.{name}' in models_pp.CONSTS:
            return models_pp.CONSTS[f'{modname}.{name}']
        if (modname, name) == ('xarray.core.indexing', 'remap_label_indexers'):
            raise AbsRaise(ExcVal('ImportError', ('remap_label_indexers was removed from xarray',)), node)
        return ExtRef(f'{modname}.{name}')

    def builtin(self, interp, name):
        if name in EXC_NAMES:
            return ExcType(name)
        if name in self.ext_call and False:
            pass
        key = 'builtins.' + name
        if key in self.ext_call or name in BUILTIN_TYPES:
            return ExtRef(key)
        if name in ('True', 'False', 'None'):
            return {'True': True, 'False': False, 'None': None}[name]
        if name == '__name__':
            return '__main__'
        if name == 'NotImplemented':
            from .models_np import NOTIMPL
            return NOTIMPL
        if name == 'Ellipsis':
            return Ellipsis
        return None

    # -------------------------------------------------------------------------------------------
    _kw_src = {}

    def kw_guard(self, interp, h, kwargs, what, node, pos=2):
        """A keyword argument that the model function for a library call never mentions is necessarily ignored by it: the answer would be
        the answer for another call.  Such a call is refused (fail-closed) unless the pair is listed in KW_NEUTRAL (keywords that spell out the
        default or cannot change the modelled result)."""
        if not kwargs:
            return
        import inspect
        import re
        code = getattr(h, '__code__', None)
        if code is None:
            return
        src = self._kw_src.get(code)
        if src is None:
            try:
                src = inspect.getsource(h)
            except (OSError, TypeError):
                src = ''
            kwn = re.escape(code.co_varnames[pos]) if code.co_argcount > pos else 'kw'
            lines = src.split('\n')
            k0 = next((i for i, ln in enumerate(lines) if ln.lstrip().startswith('def ') or ' lambda ' in ln), None)
            body = '\n'.join(lines[k0 + 1:]) if k0 is not None and lines[k0].lstrip().startswith('def ') else ''
            # a handler that hands `kw` on to another function (or reads it with a computed name) is not judged
            lit = r'(\'\w+\'|"\w+")'
            rest = re.sub(rf'kwarg\(\w+, {kwn}, [^,]+, {lit}|\b{kwn}\.get\({lit}|\b{kwn}\.pop\({lit}|\b{kwn}\[{lit}\]|{lit} (not )?in {kwn}\b|\bnot {kwn}\b|\bif {kwn}\b|\bor {kwn}\b|\band {kwn}\b', '', body)
            if not body or re.search(rf'\b{kwn}\b', rest):
                src = ''
            self._kw_src[code] = src
        if not src:
            return
        for k in kwargs:
            if f"'{k}'" in src or f'"{k}"' in src:
                continue
            if (what, k) in KW_NEUTRAL or ('*', k) in KW_NEUTRAL:
                continue
            if os.environ.get('VERIF_KW_AUDIT') or not KW_GUARD_ARMED:
                try:
                    with open(os.environ.get('VERIF_KW_AUDIT', '/tmp/kw_audit.log'), 'a') as fh:
                        fh.write(f"{what} {k} repo={os.environ.get('VERIF_REPO', '/repo')} line={getattr(node, 'lineno', '?')}\n")
                except OSError:
                    pass
                continue
            raise AnalysisError(f'keyword argument {k}= of {what} is not read by the model of that function', node, where=_where(interp, node))

    def call(self, interp, fn, args, kwargs, node, frame=None):
        if isinstance(fn, ExtRef):
            # an abstract stand-in handed in by a rule (e.g. C20's 3-D field) answers library calls it takes part in itself
            for a in list(args) + [y for x in args if isinstance(x, (list, tuple)) for y in x]:
                hk = getattr(a, 'abs_ext_call', None)
                if hk is not None:
                    r = hk(interp, fn.path, args, kwargs, node)
                    if r is not NotImplemented:
                        return r
            h = self.ext_call.get(fn.path)
            if h is None and fn.path.startswith('numpy.ma.') and ('numpy.' + fn.path[len('numpy.ma.'):]) in self.ext_call and fn.path.rsplit('.', 1)[1] in MA_ELEMENTWISE:
                h = self.ext_call['numpy.' + fn.path[len('numpy.ma.'):]]      # np.ma.sin etc.: the same element-wise function, masks are carried by the elements
            if h is None:
                from . import bridge
                try:
                    return bridge.real_call(interp, fn.path, fn, args, kwargs, node)
                except AnalysisError as e:
                    raise AnalysisError(e.msg, node, where=_where(interp, node))
            self.kw_guard(interp, h, kwargs, fn.path, node)
            return h(interp, args, kwargs, node)
        if isinstance(fn, ModelMethod):
            return self.call_method(interp, fn.obj, fn.name, args, kwargs, node)
        if isinstance(fn, ExcType):
            return ExcVal(fn.tname, tuple(args))
        if isinstance(fn, type) and issubclass(fn, tuple) and hasattr(fn, '_fields'):
            # a namedtuple class created by the analysed code: plain record construction
            try:
                return fn(*args, **kwargs)
            except TypeError as e:
                raise AbsRaise(ExcVal('TypeError', (str(e),)), node)
        if isinstance(fn, PyCallable):
            return fn.fn(interp, args, kwargs, node)
        hk = getattr(fn, 'abs_call', None)
        if hk is not None:
            return hk(interp, args, kwargs, node)
        from . import bridge
        if isinstance(fn, bridge.RealObj):
            return bridge.real_call(interp, repr(fn), fn, args, kwargs, node)
        raise AnalysisError(f'call of non-callable / unmodelled value {fn!r}', node, where=_where(interp, node))

    def call_method(self, interp, obj, name, args, kwargs, node):
        for klass in type(obj).__mro__:
            h = self.methods.get((klass, name))
            if h is not None:
                self.kw_guard(interp, h, kwargs, f'{klass.__name__}.{name}', node, pos=3)
                return h(interp, obj, args, kwargs, node)
        from . import bridge
        from .vec import Vec, Sc
        if isinstance(obj, (Vec, Sc)):
            try:
                return bridge.real_call(interp, f'{type(obj).__name__}.{name}', (obj, name), args, kwargs, node)
            except AnalysisError as e:
                raise AnalysisError(e.msg, node, where=_where(interp, node))
        raise AnalysisError(f'unmodelled method {type(obj).__name__}.{name}', node, where=_where(interp, node))

    def has_method(self, obj, name):
        return any((klass, name) in self.methods for klass in type(obj).__mro__)

    # -------------------------------------------------------------------------------------------
    def getattr(self, interp, obj, name, node):
        from . import models_np
        return models_np.getattr_model(self, interp, obj, name, node)

    def setattr(self, interp, obj, name, v, node):
        from .vec import Vec, El, m_norm
        if isinstance(obj, Vec) and name == 'mask' and obj.kind == 'ma':
            # assigning a mask: element masks become the given booleans (a scalar applies to all)
            if obj.back.owner is not None:
                interp.event('mutation', owner=obj.back.owner, what='.mask =', node=node)
            if isinstance(v, Vec):
                if len(v) != len(obj):
                    raise AbsRaise(ExcVal('ValueError', ('mask shape mismatch',)), node)
                ms = [bool_of_el(e.d) for e in v.els()]
            else:
                ms = [X.TRUE if interp.truth(v, node) is True else X.FALSE] * len(obj)
            for i, f in enumerate(ms):
                obj.set(i, El(obj.el(i).d, m_norm(f)))
            return
        raise AnalysisError(f'attribute store on {type(obj).__name__}.{name} not modelled', node,
                            where=_where(interp, node))

    def getitem(self, interp, obj, key, node):
        from . import models_np
        return models_np.getitem_model(self, interp, obj, key, node)

    def store(self, interp, obj, key, v, node):
        from . import models_np
        return models_np.store_model(self, interp, obj, key, v, node)

    def delitem(self, interp, obj, key, node):
        if isinstance(obj, (dict, list)):
            self.mutation(interp, obj, 'del', node)
            try:
                del obj[key]
            except (KeyError, IndexError) as e:
                raise AbsRaise(ExcVal(type(e).__name__), node)
            return
        raise AnalysisError('del on unmodelled container', node)

    def mutation(self, interp, obj, what, node):
        """record mutations of objects that are not freshly created inside the analysed call"""
        owner = interp_owner(interp, obj)
        if owner is not None:
            interp.event('mutation', owner=owner, what=what, node=node)

    def binop(self, interp, op, a, b, node):
        from . import models_np
        for x in (a, b):
            hk = getattr(x, 'abs_binop', None)
            if hk is not None:
                return hk(interp, op, a, b, node)
        return models_np.binop_model(self, interp, op, a, b, node)

    def unaryop(self, interp, op, v, node):
        from . import models_np
        hk = getattr(v, 'abs_unaryop', None)
        if hk is not None:
            return hk(interp, op, node)
        return models_np.unaryop_model(self, interp, op, v, node)

    def compare(self, interp, op, a, b, node):
        from . import models_np
        return models_np.compare_model(self, interp, op, a, b, node)

    def truth(self, interp, v, node):
        from . import models_np
        return models_np.truth_model(self, interp, v, node)

    def iterate(self, interp, v, node):
        from . import models_np
        return models_np.iterate_model(self, interp, v, node)

    def to_str(self, interp, v, node):
        if isinstance(v, ExcVal):
            return str(v.args[0]) if len(v.args) == 1 else (str(tuple(v.args)) if v.args else '')
        from .interp import Instance, FuncVal
        if isinstance(v, Instance):
            for meth in ('__str__', '__repr__'):
                try:
                    f = v.cls.lookup(meth)
                except KeyError:
                    continue
                if isinstance(f, FuncVal):
                    return interp.call_function(f, [v], {}, node)
        if isinstance(v, (str, int, bool, type(None), tuple, list, dict)):
            return str(v)
        if isinstance(v, Fr):
            return str(v.numerator) if v.denominator == 1 else str(float(v))
        if isinstance(v, float):
            return str(v)
        if isinstance(v, Sc) and v.concrete():
            return self.to_str(interp, v.value(), node)
        return f'<{type(v).__name__}>'

    def ite_value(self, interp, f, a, b, node):
        from . import models_np
        return models_np.ite_model(self, interp, f, a, b, node)

    def enter_context(self, interp, v, node):
        if isinstance(v, ContextMgr):
            return v.value
        from .interp import Instance
        if isinstance(v, Instance):
            try:
                v.cls.lookup('__enter__'), v.cls.lookup('__exit__')
            except KeyError:
                raise AbsRaise(ExcVal('TypeError', (f"'{v.cls.name}' object does not support the context manager protocol",)), node)
            raise AnalysisError('with-statement on an instance of a repository class (__enter__ / __exit__) not modelled', node)
        raise AnalysisError(f'with-statement on unmodelled context manager {v!r}', node)

    def dataclass_default(self, interp, dv, node):
        if isinstance(dv, FieldSpec):
            if dv.factory is not None:
                return interp.call(dv.factory, [], {}, node)
            return dv.default
        return dv

    def noop_callable(self):
        return PyCallable(lambda it, a, k, n: None, 'noop')

    def is_dict_subclass(self, cls):
        return any((isinstance(b, ExtRef) and b.path in ('builtins.dict', 'collections.OrderedDict')) or
                   (isinstance(b, ClassVal) and self.is_dict_subclass(b)) for b in cls.bases)


class PyCallable:
    def __init__(self, fn, name='<callable>'):
        self.fn = fn
        self.name = name

    def __repr__(self):
        return f'<pycallable {self.name}>'


class ContextMgr:
    def __init__(self, value=None):
        self.value = value


class FieldSpec:
    def __init__(self, default=None, factory=None):
        self.default = default
        self.factory = factory


EXC_NAMES = {
    'ValueError', 'TypeError', 'IndexError', 'KeyError', 'LookupError', 'AttributeError', 'ImportError',
    'ModuleNotFoundError', 'NotImplementedError', 'RuntimeError', 'AssertionError', 'ZeroDivisionError',
    'ArithmeticError', 'Exception', 'BaseException', 'OverflowError', 'StopIteration', 'OSError',
    'FileNotFoundError', 'DeprecationWarning', 'Warning', 'NameError', 'KeyboardInterrupt',
}
BUILTIN_TYPES = {'slice', 'list', 'tuple', 'dict', 'str', 'int', 'float', 'bool', 'set', 'object', 'type', 'bytes',
                 'frozenset', 'property', 'staticmethod', 'classmethod', 'callable', 'any', 'all'}


def _where(interp, node):
    if node is not None and hasattr(node, 'lineno'):
        from .repo import unparse
        fn = interp.call_stack[-1] if interp.call_stack else '?'
        return f'{fn}:{node.lineno}: {unparse(node, 80)}'
    return None


def interp_owner(interp, obj):
    """name of the caller-owned object `obj` belongs to (None if fresh)"""
    reg = getattr(interp, 'owned', None)
    if not reg:
        return None
    return reg.get(id(obj))
