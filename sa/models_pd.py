"""pandas models: DatetimeIndex / Index / Series / Timestamp / rolling windows (DESIGN §3 rows 7, 12)."""
import math
from fractions import Fraction as Fr

from . import expr as X
from .interp import AbsRaise, ExcVal, ExtRef, FB, ModelMethod, mkbool
from .models import DType, PyCallable, _where, as_operand, bool_of_el, num_of_el, parse_dtype
from .repo import AnalysisError
from .vec import MASKED, NONE_EL, El, Masked, Sc, Vec, Vec2, m_conc


class TS:
    """a pandas Timestamp / python datetime: seconds on the scenario's time axis"""
    abs_kind = 'datetime'

    def __init__(self, t, tz=None, now=False, py=False):
        self.t = Fr(t)
        self.tz = tz
        self.now = now
        self.py = py          # a plain datetime.datetime (not a pandas Timestamp)

    @property
    def sort_key(self):
        return self.t

    def abs_operand(self):
        return ('sc', X.num(self.t), False)

    abs_dtype = ('M8', 'ns')

    def abs_getattr(self, interp, name, node):
        from .models_lib import PERIOD_ATTRS
        if name in PERIOD_ATTRS:
            feats = getattr(interp, 'time_features', None) or {}
            canon = {'weekofyear': 'week', 'day_of_year': 'dayofyear'}.get(name, name)
            if (self.t, canon) in feats:
                return feats[(self.t, canon)]
            if self.now:
                return Sc(X.ANY, 'i8')
            raise AnalysisError(f'calendar feature {name} not supplied by the scenario', node)
        if name in ('tz', 'tzinfo'):
            return self.tz
        if name in ('isoformat', 'timestamp', 'to_datetime64', 'to_pydatetime', 'tz_localize'):
            return PyCallable(lambda it, a, k, n: self, name)
        if name == 'replace':
            def repl(it, a, k, n):
                if set(k) - {'tzinfo'} or a:
                    raise AnalysisError('datetime.replace of calendar fields not modelled', n)
                tz = k.get('tzinfo', self.tz)
                return TS(self.t, None if tz is None else 'UTC', self.now, self.py)
            return PyCallable(repl, name)
        if name in ('astimezone', 'tz_convert'):
            def conv(it, a, k, n):
                if self.tz is None and name == 'astimezone':
                    # stdlib fact: astimezone() on a naive datetime assumes the *process-local* time zone - an ambient input
                    it.event('env-read', what='process-local time zone (astimezone on a naive datetime)', node=n)
                elif self.tz is None:
                    raise AbsRaise(ExcVal('TypeError', ('Cannot convert tz-naive Timestamp, use tz_localize to localize',)), n)
                tz = a[0] if a else k.get('tz')
                return TS(self.t, None if tz is None else 'UTC', self.now, self.py)
            return PyCallable(conv, name)
        real = self.real_attr(interp, name, node)
        if real is not NotImplemented:
            return real
        from .models_xr import missing_attr
        missing_attr('pandas', 'Timestamp', name, node)

    def real_attr(self, interp, name, node):
        """an attribute / method nobody wrote down, on a concrete instant: ask the real class (the instant is a concrete number of seconds since the
        epoch, so this is a library call on concrete values, like sa/bridge.py's)"""
        if self.now or name.startswith('_'):
            return NotImplemented
        try:
            import datetime as _dt
            import pandas as _pd
        except ImportError:
            return NotImplemented
        ns = self.t * 10**9
        if ns.denominator != 1:
            return NotImplemented
        if self.py:
            obj = _dt.datetime(1970, 1, 1, tzinfo=_dt.timezone.utc if self.tz else None) + _dt.timedelta(microseconds=int(ns) // 1000)
            if int(ns) % 1000:
                return NotImplemented
        else:
            obj = _pd.Timestamp(int(ns), unit='ns', tz='UTC' if self.tz else None)
        if not hasattr(obj, name):
            return NotImplemented

        def back(v):
            if isinstance(v, _pd.Timestamp):
                if v is _pd.NaT or (v.tz is not None and str(v.tz) != 'UTC'):
                    raise AnalysisError(f'Timestamp.{name}: result in a zone other than UTC / NaT not modelled', node)
                return TS(Fr(v.value, 10**9), 'UTC' if v.tz is not None else None)
            if isinstance(v, _dt.datetime):
                if v.tzinfo is not None and v.utcoffset() != _dt.timedelta(0):
                    raise AnalysisError(f'datetime.{name}: result in a zone other than UTC not modelled', node)
                epoch = _dt.datetime(1970, 1, 1, tzinfo=v.tzinfo)
                d = v - epoch
                return TS(Fr(d.days * 86400 * 10**6 + d.seconds * 10**6 + d.microseconds, 10**6), 'UTC' if v.tzinfo is not None else None, py=True)
            if isinstance(v, bool) or v is None or isinstance(v, (int, str)):
                return v
            if isinstance(v, float):
                return Fr(v)
            raise AnalysisError(f'Timestamp.{name}: result of type {type(v).__name__} not modelled', node)
        attr = getattr(obj, name)
        if not callable(attr):
            return back(attr)

        def call(it, a, k, n):
            if not all(isinstance(x, (int, str, bool, type(None))) for x in list(a) + list(k.values())):
                raise AnalysisError(f'Timestamp.{name} with arguments that are not plain constants not modelled', n)
            try:
                return back(attr(*a, **k))
            except AnalysisError:
                raise
            except Exception as e:       # the real library's own answer for these concrete arguments
                raise AbsRaise(ExcVal(type(e).__name__ if type(e).__name__ in ('ValueError', 'TypeError', 'AttributeError', 'KeyError', 'OverflowError') else 'ValueError', (str(e)[:120],)), n)
        return PyCallable(call, f'Timestamp.{name}')

    def abs_truth(self):
        return True

    def __eq__(self, other):
        return isinstance(other, TS) and other.t == self.t

    def __hash__(self):
        return hash(('TS', self.t))

    def __repr__(self):
        return f'TS({self.t})'


class Rolling:
    def __init__(self, series, period, min_periods, kw):
        self.series = series
        self.period = period          # seconds (Fraction) for offset windows, or int count
        self.offset = isinstance(period, Fr)
        self.min_periods = min_periods
        self.kw = kw

    def windows(self, interp, node):
        """trailing window (t - P, t] for offset windows (closed='right'); NaNs are not observations"""
        s = self.series
        n = len(s)
        if self.offset:
            if s.index is None or s.index.dtype != 'M8':
                raise AbsRaise(ExcVal('ValueError', ('window must be an integer 0 or greater',)), node)
            ts = []
            for e in s.index.els():
                if not X.is_num(e.d):
                    raise AnalysisError('rolling over symbolic / missing times', node)
                ts.append(e.d[1])
            if any(ts[i] > ts[i + 1] for i in range(n - 1)):
                raise AbsRaise(ExcVal('ValueError', ('index must be monotonic',)), node)
            closed = self.kw.get('closed', 'right')
            wins = []
            for i in range(n):
                lo_open = ts[i] - self.period
                idx = []
                for j in range(n):
                    if closed == 'right':
                        ok = lo_open < ts[j] <= ts[i]
                    elif closed == 'both':
                        ok = lo_open <= ts[j] <= ts[i]
                    elif closed == 'left':
                        ok = lo_open <= ts[j] < ts[i]
                    elif closed == 'neither':
                        ok = lo_open < ts[j] < ts[i]
                    else:
                        raise AnalysisError('closed= value', node)
                    if ok:
                        idx.append(j)
                wins.append(idx)
            minp = 1 if self.min_periods is None else self.min_periods
        else:
            w = self.period
            wins = [list(range(max(0, i - w + 1), i + 1)) for i in range(n)]
            minp = w if self.min_periods is None else self.min_periods
        if self.kw.get('center'):
            raise AnalysisError('rolling(center=True) not modelled', node)
        return wins, minp


def register(M, h):
    ext, meth, kwarg, as_vec, astype, to_array = (h[k] for k in ('ext', 'meth', 'kwarg', 'as_vec', 'astype', 'to_array'))
    from .models_np import concrete_int

    def times_from(interp, src, node, unit=None):
        """elements of a datetime-like collection -> (list of El in seconds, tz)"""
        tz = None
        if isinstance(src, Vec):
            if src.dtype == 'M8':
                return [El(e.d, False) if not m_conc(e.m, node, 'datetime conversion') else El(X.NAN, False) for e in src.els()], src.tz
            if src.dtype in ('f8', 'i8', 'u1') and unit is not None:
                k = {'s': Fr(1), 'ms': Fr(1, 1000), 'ns': Fr(1, 10**9), 'm': Fr(60), 'h': Fr(3600), 'D': Fr(86400), 'us': Fr(1, 10**6)}.get(unit)
                if k is None:
                    raise AnalysisError(f'to_datetime unit {unit!r}', node)
                return [El(X.scale(num_of_el(e.d), k), False) for e in src.els()], None
            if src.dtype == 'O':
                out = []
                for e in src.els():
                    if e.d == NONE_EL:
                        out.append(El(X.NAN, False))
                    else:
                        raise AbsRaise(ExcVal('TypeError', ('cannot convert object array to datetimes',)), node)
                return out, None
            raise AbsRaise(ExcVal('TypeError', (f'cannot convert {src.dtype} values to datetimes without a unit',)), node)
        if isinstance(src, (list, tuple)):
            out = []
            for x in src:
                if isinstance(x, TS):
                    out.append(El(X.num(x.t), False))
                    tz = tz or x.tz
                elif x is None:
                    out.append(El(X.NAN, False))
                elif isinstance(x, Sc) and x.dtype == 'M8':
                    out.append(El(x.d, False))
                elif unit is not None and isinstance(x, (int, Fr, float, Sc)):
                    o = as_operand(x)
                    out.append(El(X.scale(num_of_el(o[1]), {'s': Fr(1)}.get(unit, Fr(1))), False))
                    if unit != 's':
                        raise AnalysisError(f'to_datetime unit {unit!r}', node)
                elif isinstance(x, str):
                    raise AbsRaise(ExcVal('ValueError', ('string timestamps are outside the modelled subset',)), node)
                else:
                    raise AnalysisError(f'to_datetime of {type(x).__name__} not modelled', node)
            return out, tz
        raise AnalysisError(f'datetime conversion of {type(src).__name__} not modelled', node)

    @ext('pandas.DatetimeIndex')
    def _dtindex(interp, args, kw, node):
        src = kwarg(args, kw, 0, 'data')
        els, tz = times_from(interp, src, node)
        v = Vec.fresh(els, kind='dtindex', dtype='M8', unit='ns')
        v.tz = tz
        return v

    @ext('pandas.to_datetime')
    def _to_datetime(interp, args, kw, node):
        src = args[0]
        unit = kw.get('unit')
        other = set(kw) - {'unit', 'utc'}
        if other:
            raise AnalysisError(f'pd.to_datetime({sorted(other)}=...) not modelled', node)
        utc = kw.get('utc') is True
        if kw.get('utc') not in (None, True, False):
            raise AnalysisError('pd.to_datetime(utc=<undecided>)', node)
        if isinstance(src, Vec) and src.kind == 'series':
            els, tz = times_from(interp, src, node, unit)
            v = Vec.fresh(els, kind='series', dtype='M8', unit='ns', index=src.index)
            v.tz = 'UTC' if utc else tz         # utc=True: naive stamps and numbers are read as UTC, the result is UTC-aware
            return v
        if isinstance(src, (TS,)):
            return TS(src.t, 'UTC', src.now, src.py) if utc else src
        if isinstance(src, (int, Fr, Sc)) and unit == 's':
            return TS(M.conc_num(src, node), 'UTC' if utc else None)
        els, tz = times_from(interp, src, node, unit)
        v = Vec.fresh(els, kind='dtindex', dtype='M8', unit='ns')
        v.tz = 'UTC' if utc else tz
        return v

    @ext('pandas.to_timedelta', 'pandas.TimedeltaIndex')
    def _to_timedelta(interp, args, kw, node):
        src = as_vec(interp, args[0], node)
        if src is None:
            raise AnalysisError('pd.to_timedelta argument not modelled', node)
        unit = kw.get('unit')
        if src.dtype == 'm8':
            els = [El(e.d, False) for e in src.els()]
        elif src.dtype in ('f8', 'i8') and unit in ('s', 'S', 'sec', 'seconds'):
            els = [El(num_of_el(e.d), False) for e in src.els()]
        else:
            raise AnalysisError('pd.to_timedelta of this dtype / unit not modelled', node)
        return Vec.fresh(els, kind='index', dtype='m8', unit='ns')

    @ext('pandas.Index')
    def _index(interp, args, kw, node):
        src = kwarg(args, kw, 0, 'data')
        dt = kw.get('dtype')
        v = as_vec(interp, src, node)
        if v is None:
            raise AnalysisError('pd.Index argument not modelled', node)
        out = Vec.fresh([El(e.d, False) for e in v.els()], kind='index', dtype=v.dtype, unit=v.unit)
        if dt is not None:
            out = astype(interp, out, dt, node)
            out.kind = 'index'
        return out

    @ext('pandas.Series')
    def _series(interp, args, kw, node):
        data = kwarg(args, kw, 0, 'data')
        index = kw.get('index', args[1] if len(args) > 1 else None)
        dtype = kw.get('dtype')
        if isinstance(index, Vec):
            idx = index.copy()
        elif index is None:
            idx = None
        else:
            idx = as_vec(interp, index, node)
        if idx is not None and idx.kind in ('nd', 'ma', 'series'):
            # library fact: whatever array is given as index becomes a pandas Index (a DatetimeIndex for datetime64 data)
            idx = idx.like([El(X.NAN if e.m is True else e.d, False) for e in idx.els()], kind='dtindex' if idx.dtype == 'M8' else 'index', index=None)
        if data is None:
            code, unit = parse_dtype(interp, dtype, node) if dtype is not None else ('O', None)
            return Vec.fresh([], kind='series', dtype=code, unit=unit, index=idx)
        if isinstance(data, (int, bool, Fr)) and idx is not None:
            code = parse_dtype(interp, dtype, node)[0] if dtype is not None else ('b1' if isinstance(data, bool) else 'i8')
            d = bool_of_el(as_operand(data)[1]) if code == 'b1' else as_operand(data)[1]
            return Vec.fresh([El(d, False)] * len(idx), kind='series', dtype=code, index=idx)
        v = as_vec(interp, data, node)
        if v is None:
            raise AnalysisError('pd.Series data not modelled', node)
        if idx is not None and len(idx) != len(v):
            raise AbsRaise(ExcVal('ValueError', (f'Length of values ({len(v)}) does not match length of index ({len(idx)})',)), node)
        # a masked array becomes NaN where masked (pandas honours the mask)
        els = [El(X.NAN, False) if m_conc(e.m, node, 'pd.Series of a masked array') else El(e.d, False) for e in v.els()]
        out = Vec.fresh(els, kind='series', dtype=v.dtype, unit=v.unit, index=idx)
        if dtype is not None:
            out = astype(interp, out, dtype, node)
        return out

    @ext('pandas.Timestamp')
    def _timestamp(interp, args, kw, node):
        v = args[0]
        if isinstance(v, TS):
            return v
        if isinstance(v, Sc) and v.dtype == 'M8' and v.concrete():
            return TS(v.value())
        if isinstance(v, (int, Fr)):
            return TS(Fr(v) / 10**9 if not kw.get('unit') else Fr(v))
        if isinstance(v, str):
            tp = getattr(interp, 'parse_time', None)
            if tp is not None and v in tp:
                return TS(tp[v])
            raise AnalysisError('pd.Timestamp(str): the scenario gives no meaning to this date string', node)
        if v is None or (isinstance(v, Sc) and v.d == X.NAN) or (isinstance(v, float) and v != v):
            # library fact: pd.Timestamp(None) / Timestamp(NaT) / Timestamp(nan) is NaT - truthy, not None, and no comparison with it holds
            return Sc(X.NAN, 'M8', 'ns')
        if isinstance(v, (list, tuple, dict)):
            raise AbsRaise(ExcVal('TypeError', (f'Cannot convert input [{v!r}] to Timestamp',)), node)
        raise AnalysisError(f'pd.Timestamp({type(v).__name__}) not modelled', node)

    @ext('datetime.datetime.strptime')
    def _strptime(interp, args, kw, node):
        import datetime as _dt
        if not all(isinstance(a, str) for a in args[:2]):
            raise AnalysisError('strptime of non-constant strings', node)
        try:
            d = _dt.datetime.strptime(args[0], args[1])
        except ValueError as e:
            raise AbsRaise(ExcVal('ValueError', (str(e),)), node)
        return TS(int((d - _dt.datetime(1970, 1, 1)).total_seconds()))

    @ext('datetime.datetime.now', 'datetime.datetime.utcnow', 'datetime.datetime.today', 'time.time')
    def _dtnow(interp, args, kw, node):
        interp.event('clock-read', node=node)
        return TS(0, now=True)

    @ext('pandas.Timestamp.now', 'pandas.Timestamp.utcnow', 'pandas.Timestamp.today')
    def _now(interp, args, kw, node):
        interp.event('clock-read', node=node)
        return TS(0, now=True)

    @meth(Vec, 'rolling')
    def _rolling(interp, v, args, kw, node):
        if v.kind != 'series':
            raise AbsRaise(ExcVal('AttributeError', ('rolling',)), node)
        window = kwarg(args, kw, 0, 'window')
        kw2 = {k: x for k, x in kw.items() if k not in ('window', 'min_periods')}
        mp = kwarg(args, kw, 1, 'min_periods')
        if mp is not None:
            mpv = M.conc_num(mp, node, 'min_periods')
            if mpv.denominator != 1:
                raise AbsRaise(ExcVal('ValueError', ('min_periods must be an integer',)), node)
            mp = int(mpv)
            if mp < 0:
                raise AbsRaise(ExcVal('ValueError', ('min_periods must be >= 0',)), node)
        if isinstance(window, str):
            import re
            m = re.fullmatch(r'\s*(-?[0-9]*\.?[0-9]+)\s*(s|S|sec|second|seconds|min|T|h|H|D|d|ms)\s*', window)
            if not m:
                raise AbsRaise(ExcVal('ValueError', (f'passed window {window} is not compatible with a datetimelike index',)), node)
            unit = {'s': 1, 'S': 1, 'sec': 1, 'second': 1, 'seconds': 1, 'min': 60, 'T': 60, 'h': 3600, 'H': 3600,
                    'D': 86400, 'd': 86400, 'ms': Fr(1, 1000)}[m.group(2)]
            period = Fr(m.group(1)) * unit
            if period <= 0:
                raise AbsRaise(ExcVal('ValueError', ('window must be positive',)), node)
            return Rolling(v, period, mp, kw2)
        if isinstance(window, Sc) and window.dtype == 'm8':
            # a timedelta window is the same offset window as its string spelling
            period = window.value()
            if period <= 0:
                raise AbsRaise(ExcVal('ValueError', ('window must be positive',)), node)
            return Rolling(v, period, mp, kw2)
        w = concrete_int(M, window, node)
        return Rolling(v, w, mp, kw2)

    def rolling_apply(interp, r, fname, node, raw_with_nan):
        wins, minp = r.windows(interp, node)
        s = r.series
        els = s.els()
        out = []
        for idx in wins:
            obs = [els[j] for j in idx if els[j].d != X.NAN]
            if len(obs) < max(minp, 1):
                out.append(El(X.NAN, False))
                continue
            if raw_with_nan and len(obs) != len(idx):
                # raw window passed to a numpy function contains NaN -> NaN result
                out.append(El(X.NAN, False))
                continue
            vals = [num_of_el(e.d) for e in obs]
            if fname == 'std':
                # pandas rolling std is the sample standard deviation: one observation -> NaN (row 7)
                out.append(El(X.NAN, False) if len(vals) < 2 else El(X.red('std_sample', vals), False))
            else:
                out.append(El(X.red(fname, vals), False))
        return Vec.fresh(out, kind='series', dtype='f8', index=s.index)

    @meth(Rolling, 'std')
    def _rstd(interp, r, args, kw, node):
        if kw.get('ddof', 1) != 1:
            raise AnalysisError('rolling std ddof', node)
        return rolling_apply(interp, r, 'std', node, False)

    for nm in ('min', 'max', 'mean', 'median', 'sum'):
        M.methods[(Rolling, nm)] = (lambda it, r, a, k, n, _nm=nm: rolling_apply(it, r, _nm, n, False))

    @meth(Rolling, 'apply')
    def _rapply(interp, r, args, kw, node):
        f = kwarg(args, kw, 0, 'func')
        raw = kw.get('raw', False)
        if not isinstance(f, ExtRef):
            raise AnalysisError('rolling.apply of a non-numpy function', node)
        names = {'numpy.ptp': 'ptp', 'numpy.std': 'std_pop', 'numpy.min': 'min', 'numpy.max': 'max', 'numpy.mean': 'mean',
                 'numpy.median': 'median', 'numpy.nanmax': 'max', 'numpy.nanmin': 'min'}
        if f.path not in names:
            raise AnalysisError(f'rolling.apply({f.path}) not modelled', node)
        if kw.get('engine') not in (None, 'numba', 'cython'):
            raise AbsRaise(ExcVal('ValueError', ('engine must be either numba or cython',)), node)
        if kw.get('engine') == 'numba' and not raw:
            raise AbsRaise(ExcVal('ValueError', ('raw must be `True` when using the numba engine',)), node)
        nan_sensitive = not f.path.startswith('numpy.nan')
        return rolling_apply(interp, r, names[f.path], node, nan_sensitive)


def abs_getattr_rolling(self, interp, name, node):
    if name in ('std', 'apply', 'min', 'max', 'mean', 'median', 'sum'):
        return ModelMethod(self, name)
    raise AnalysisError(f'Rolling.{name} not modelled', node)


Rolling.abs_getattr = abs_getattr_rolling
