"""Scenario families per QC test.  Every generator yields (Case, Spec) pairs.

Lengths are concrete and small, data values symbolic, parameters concrete representatives covering
every ordering the property distinguishes.  `tier` widens the families (more lengths / patterns).
"""
import itertools
from fractions import Fraction as Fr

from . import expr as X
from . import specs
from .qc import Case, patterns
from .scen import data_input, time_input
from .vec import El, Sc, Vec


def lengths(tier, quick, thorough):
    return thorough if tier == 'thorough' else quick


def pats_for(n, tier, cap=None):
    ps = patterns(n)
    if tier != 'thorough' and cap and len(ps) > cap:
        # keep: all present, single missing at each position, adjacent double missing, all missing
        keep = ['p' * n, 'm' * n]
        keep += ['p' * i + 'm' + 'p' * (n - i - 1) for i in range(n)]
        keep += ['p' * i + 'mm' + 'p' * (n - i - 2) for i in range(n - 1)]
        ps = [p for p in ps if p in keep]
    return ps


def regular(n, step=10, start=100):
    return [start + step * i for i in range(n)]


# ------------------------------------------------------------------------------------------------
def spike(tier, carrier='list_none', min_n=1):
    ths = [(None, None), (1, None), (None, 2), (1, 2), (2, 2), (2, 1), (0, 1), (0, 0), (1, 0)]
    for method in ('average', 'differential'):
        for s, f in ths:
            for n in lengths(tier, [1, 2, 3, 4], [1, 2, 3, 4, 5, 6, 7]):
                if n < min_n:
                    continue
                for pat in pats_for(n, tier, cap=12):
                    kw = {}
                    if s is not None:
                        kw['suspect_threshold'] = Fr(s)
                    if f is not None:
                        kw['fail_threshold'] = Fr(f)
                    if method != 'average':
                        kw['method'] = method
                    cls = 'zero-threshold' if (s == 0 or f == 0) else method
                    c = Case('spike_test', [data_input('inp', pat, carrier)], kw, n=n, pat={'inp': pat}, meta={'class': cls})
                    yield c, specs.Spike(c)
    # an unknown method name is rejected whatever the series looks like (also where no spike can be computed)
    for pat in ('ppp', 'pp', 'p', '', 'pm', 'pmpp'):
        for method in ('median', 'Average', 'avg', ''):
            c = Case('spike_test', [data_input('inp', pat, carrier)], dict(suspect_threshold=Fr(1), fail_threshold=Fr(2), method=method),
                     n=len(pat), pat={'inp': pat}, meta={'class': 'unknown-method'})
            yield c, specs.Spike(c)


def rate_of_change(tier, carrier='list_none', tcarrier='dt64'):
    axes = {'regular': lambda n: regular(n), 'irregular': lambda n: [100, 110, 140, 141, 86541, 86600][:n],
            'multiday': lambda n: [100, 90100, 90130, 349335, 349336, 435736][:n]}
    for name, ax in axes.items():
        for thr in (1, Fr(1, 2), 0):
            for n in lengths(tier, [0, 1, 2, 3, 4], [0, 1, 2, 3, 4, 5, 6]):
                for pat in pats_for(n, tier, cap=10):
                    t = ax(n)
                    c = Case('rate_of_change_test', [data_input('inp', pat, carrier), time_input('tinp', t, tcarrier)],
                             dict(threshold=Fr(thr)), n=n, pat={'inp': pat}, meta={'class': name, 't': t})
                    yield c, specs.RateOfChange(c)
    # mismatched lengths must be rejected
    for n, nt in ((5, 2), (3, 4), (2, 1)):
        t = regular(nt)
        c = Case('rate_of_change_test', [data_input('inp', 'p' * n, carrier), time_input('tinp', t, tcarrier)], dict(threshold=Fr(1)),
                 n=n, pat={'inp': 'p' * n}, meta={'class': 'length-mismatch', 't': t})
        yield c, specs.RateOfChange(c)


def flat_line(tier, carrier='list_none', tcarrier='dt64'):
    step = 10
    # (a duration of exactly 0 is a duration shorter than one step: k = 0)
    combos = [(20, 30, 1), (20, 20, 1), (25, 35, 1), (5, 10, 1), (10, 20, 1), (30, 20, 1), (20, 1000, 1), (20, 30, 0), (0, 20, 1), (0, 0, 1), (20, 0, 1)]
    if tier == 'thorough':
        combos += [ (40, 50, 2), (10, 10, 1), (9, 19, 1), (50, 60, 1), (15, 45, 1), (60, 10, 1)]
    for s, f, tol in combos:
        for n in lengths(tier, [0, 1, 2, 3, 4, 5], [0, 1, 2, 3, 4, 5, 6, 7]):
            for pat in pats_for(n, tier, cap=8):
                t = regular(n, step)
                kw = dict(suspect_threshold=s, fail_threshold=f)
                if tol != 0:
                    kw['tolerance'] = Fr(tol)
                c = Case('flat_line_test', [data_input('inp', pat, carrier), time_input('tinp', t, tcarrier)], kw, n=n,
                         pat={'inp': pat}, meta={'class': 'short' if n < 3 else f'k{s // step}-{f // step}', 't': t})
                yield c, specs.FlatLine(c)


def flat_line_fractional(tier, carrier='list_none', tcarrier='dt64'):
    """sampling steps that are not whole seconds (2.5 s, 0.5 s) and a threshold that is not a whole number of seconds:
    k = floor(threshold / D) with D the step in seconds, as a real number"""
    for step, combos in ((Fr(5, 2), [(5, 10, 1), (Fr(15, 2), 10, 1)]), (Fr(1, 2), [(1, 2, 1)])):
        for s, f, tol in combos:
            for n in lengths(tier, [3, 5, 6], [3, 4, 5, 6, 7]):
                for pat in pats_for(n, tier, cap=4):
                    t = [100 + step * i for i in range(n)]
                    kw = dict(suspect_threshold=s, fail_threshold=f, tolerance=Fr(tol))
                    c = Case('flat_line_test', [data_input('inp', pat, carrier), time_input('tinp', t, tcarrier)], kw, n=n,
                             pat={'inp': pat}, meta={'class': f'step-{float(step)}s', 't': t})
                    yield c, specs.FlatLine(c)


def attenuated(tier, carrier='list_none', tcarrier='dt64'):
    for ct in ('std', 'range'):
        # the last pair: small-magnitude data (a signal in units where it is of order 1e-9) - thresholds are not absolute sizes
        for s, f in ((2, 1), (1, 1), (1, 2), (Fr(1, 10 ** 9), Fr(1, 10 ** 10))):
            for n in lengths(tier, [1, 2, 3, 4], [1, 2, 3, 4, 5, 6]):
                if isinstance(s, Fr) and n > 3:
                    continue
                for pat in pats_for(n, tier, cap=8):
                    t = regular(n)
                    variants = [dict()]
                    if n >= 2:
                        variants += [dict(test_period=20), dict(test_period=25, min_obs=2), dict(test_period=30, min_period=20)]
                        if (s, f) == (2, 1):
                            variants += [dict(test_period=Fr(41, 2))]      # a period that is not a whole number of seconds (20.5 s)
                    if n >= 4 and ct == 'range' and (s, f) == (2, 1):
                        # irregular axis: the sampling step used for min_period is the median step
                        for tt in ([100, 110, 120, 130, 230, 240][:n], [100, 200, 210, 220, 230, 240][:n]):
                            kw = dict(suspect_threshold=Fr(s), fail_threshold=Fr(f), test_period=30, min_period=30, check_type=ct)
                            c = Case('attenuated_signal_test', [data_input('inp', pat, carrier), time_input('tinp', tt, tcarrier)], kw, n=n,
                                     pat={'inp': pat}, meta={'class': 'irregular-window', 't': tt})
                            yield c, specs.Attenuated(c)
                        if tier == 'thorough':
                            variants += [dict(test_period=10), dict(test_period=20, min_obs=3), dict(test_period=1000)]
                    for extra in variants:
                        kw = dict(suspect_threshold=Fr(s), fail_threshold=Fr(f), **extra)
                        if ct != 'std':
                            kw['check_type'] = ct
                        c = Case('attenuated_signal_test', [data_input('inp', pat, carrier), time_input('tinp', t, tcarrier)], kw, n=n,
                                 pat={'inp': pat}, meta={'class': ct + ('-window' if extra else '-whole'), 't': t})
                        yield c, specs.Attenuated(c)
    # a sampling step of 1.5 s: min_period / step observations are required (the step is not a whole number of seconds)
    for n in (3, 4):
        for pat in pats_for(n, tier, cap=4):
            tt = [100 + Fr(3, 2) * i for i in range(n)]
            kw = dict(suspect_threshold=Fr(2), fail_threshold=Fr(1), test_period=6, min_period=3, check_type='range')
            c = Case('attenuated_signal_test', [data_input('inp', pat, carrier), time_input('tinp', tt, tcarrier)], kw, n=n,
                     pat={'inp': pat}, meta={'class': 'fractional-step-window', 't': tt})
            yield c, specs.Attenuated(c)
    # two observations per second: the trailing window (t - 1 s, t] holds the point and its predecessor only if the instants keep their half seconds
    for n in (3, 4, 5):
        for pat in pats_for(n, tier, cap=4):
            tt = [100 + Fr(1, 2) * i for i in range(n)]
            for extra in (dict(test_period=1), dict(test_period=1, min_obs=2), dict(test_period=Fr(3, 2), min_period=1)):
                kw = dict(suspect_threshold=Fr(2), fail_threshold=Fr(1), check_type='range', **extra)
                c = Case('attenuated_signal_test', [data_input('inp', pat, carrier), time_input('tinp', tt, tcarrier)], kw, n=n,
                         pat={'inp': pat}, meta={'class': 'half-second-window', 't': tt})
                yield c, specs.Attenuated(c)
    t = regular(3)
    for bad_type in ('variance', 'st', 'ran', '', 'STD', 'stdrange', None):
        c = Case('attenuated_signal_test', [data_input('inp', 'ppp', carrier), time_input('tinp', t, tcarrier)],
                 dict(suspect_threshold=Fr(2), fail_threshold=Fr(1), check_type=bad_type), n=3, pat={'inp': 'ppp'},
                 meta={'class': 'unknown-check-type', 't': t})
        yield c, specs.Attenuated(c)


def density(tier, carrier='list_none'):
    # (a positive threshold is legal: "the density must grow by at least that much per pair")
    ths = [(None, None), (-1, None), (None, -2), (-1, -2), (-1, -1), (0, -1), (2, 1), (1, -1), (1, None)]
    for s, f in ths:
        for n in lengths(tier, [0, 1, 2, 3], [0, 1, 2, 3, 4]):
            zsets = {0: [[]], 1: [[5]], 2: [[1, 2], [2, 1], [3, 3]], 3: [[1, 2, 3], [3, 2, 1], [1, 2, 1], [2, 2, 3], [1, 1, 1]],
                     4: [[1, 2, 3, 4], [4, 3, 2, 1], [1, 3, 3, 2]]}[n]
            for z in zsets:
                pp = [(a, b) for a in pats_for(n, tier, cap=6) for b in pats_for(n, tier, cap=6)]
                if tier != 'thorough':
                    pp = [(a, b) for a, b in pp if a == 'p' * n or b == 'p' * n]
                for pi, pz in pp:
                    kw = {}
                    if s is not None:
                        kw['suspect_threshold'] = Fr(s)
                    if f is not None:
                        kw['fail_threshold'] = Fr(f)
                    zin = data_input('zinp', pz, carrier, values=[Fr(v) for v in z])
                    c = Case('density_inversion_test', [data_input('inp', pi, carrier), zin], kw, n=n,
                             pat={'inp': pi, 'zinp': pz}, meta={'class': 'n%d' % n, 'z': z})
                    yield c, specs.Density(c)
    c = Case('density_inversion_test', [data_input('inp', 'ppp', carrier), data_input('zinp', 'pp', carrier, values=[1, 2])], dict(suspect_threshold=Fr(-1)),
             n=3, pat={'inp': 'ppp', 'zinp': 'pp'}, meta={'class': 'length-mismatch', 'z': [1, 2]})
    yield c, specs.Density(c)


def location(tier, carrier='list_none'):
    boxes = [None, (-10, -20, 10, 20), (0, 0, 0, 0), (10, -20, -10, 20), (-10, 20, 10, -20)]      # incl. descending bounds (empty box)
    for bbox in boxes:
        for rmax in (None, 5, 0):
            for n in lengths(tier, [0, 1, 2, 3], [0, 1, 2, 3, 4]):
                pp = [(a, b) for a in patterns(n) for b in patterns(n)]
                if tier != 'thorough' and n == 3:
                    pp = [(a, b) for a, b in pp if a.count('m') + b.count('m') <= 2]
                if n == 4:
                    pp = [(a, b) for a, b in pp if a.count('m') + b.count('m') <= 2]
                for plon, plat in pp:
                    kw = {}
                    if bbox is not None:
                        kw['bbox'] = tuple(Fr(b) for b in bbox)
                    if rmax is not None:
                        kw['range_max'] = Fr(rmax)
                    c = Case('location_test', [data_input('lon', plon, carrier), data_input('lat', plat, carrier)], kw, n=n,
                             pat={'lon': plon, 'lat': plat}, meta={'class': 'hop' if rmax is not None else 'bbox'})
                    yield c, specs.Location(c)
    for bad in ((0, 0, 1), (0, 0, 1, 1, 2), 7, [], (), [0]):
        c = Case('location_test', [data_input('lon', 'p', carrier), data_input('lat', 'p', carrier)], dict(bbox=bad), n=1,
                 pat={'lon': 'p', 'lat': 'p'}, meta={'class': 'malformed-bbox'})
        yield c, specs.Location(c)
    c = Case('location_test', [data_input('lon', 'pp', carrier), data_input('lat', 'ppp', carrier)], {}, n=2,
             pat={'lon': 'pp', 'lat': 'ppp'}, meta={'class': 'shape-mismatch'})
    yield c, specs.Location(c)
    # equal sizes, different shapes: (2, 3) against (3, 2), a row against a column, a flat track against a column
    def grid(name, nrows, ncols):
        from .vec import Vec2
        rows = [Vec.fresh([El(('x', name, i * ncols + j), False) for j in range(ncols)], kind='nd', dtype='f8', owner=name) for i in range(nrows)]
        return Vec2(rows, ncols, 'nd', 'f8')
    if carrier == 'list_none':
        for (sa, sb) in (((2, 3), (3, 2)), ((1, 3), (3, 1)), ((3,), (3, 1)), ((2, 2), (4,))):
            mk = lambda name, sh: grid(name, *sh) if len(sh) == 2 else Vec.fresh([El(('x', name, k), False) for k in range(sh[0])], kind='nd', dtype='f8', owner=name)
            n = sa[0] * (sa[1] if len(sa) == 2 else 1)
            for kw in ({}, dict(range_max=Fr(5))):
                c = Case('location_test', [mk('lon', sa), mk('lat', sb)], dict(kw), n=n, pat={'lon': 'p' * n, 'lat': 'p' * n}, meta={'class': 'shape-mismatch'},
                         label=f'location_test(lon of shape {sa}, lat of shape {sb}; {sorted(kw)})')
                yield c, specs.Location(c)


def speed(tier, carrier='list_none', tcarrier='dt64'):
    for s, f in ((1, 2), (2, 2), (2, 1), (0, 1)):
        for n in lengths(tier, [0, 1, 2, 3], [0, 1, 2, 3]):
            pp = [(a, b) for a in patterns(n) for b in patterns(n)]
            if tier != 'thorough' and n == 3:
                pp = [(a, b) for a, b in pp if a.count('m') + b.count('m') <= 2]
            for plon, plat in pp:
                axes = [regular(n)] + ([[100, 130, 86530][:n]] if n >= 2 else [])
                if n == 3 and (s, f) == (1, 2):
                    axes.append([100, 100, 110])        # a repeated timestamp: the speed of that hop is undefined
                for t in axes:
                    c = Case('speed_test', [data_input('lon', plon, carrier), data_input('lat', plat, carrier), time_input('tinp', t, tcarrier)],
                             dict(suspect_threshold=Fr(s), fail_threshold=Fr(f)), n=n, pat={'lon': plon, 'lat': plat},
                             meta={'class': 'speed', 't': t})
                    yield c, specs.Speed(c)
    for nl, na, nt in ((2, 3, 3), (3, 3, 2)):
        t = regular(nt)
        c = Case('speed_test', [data_input('lon', 'p' * nl, carrier), data_input('lat', 'p' * na, carrier), time_input('tinp', t, tcarrier)],
                 dict(suspect_threshold=Fr(1), fail_threshold=Fr(2)), n=nl, pat={'lon': 'p' * nl, 'lat': 'p' * na},
                 meta={'class': 'shape-mismatch', 't': t})
        yield c, specs.Speed(c)


def gross_range(tier, carrier='list_none'):
    vals = [0, 1, 2, 3]
    for a, b in itertools.product(vals, repeat=2):
        spans = [None] + list(itertools.product(vals, repeat=2))
        for ss in spans:
            for pat in (['p', 'm', 'pm'] if tier == 'thorough' or (a, b) in ((0, 3), (3, 0), (1, 1)) else ['p']):
                kw = dict(fail_span=(Fr(a), Fr(b)))
                if ss is not None:
                    kw['suspect_span'] = [Fr(ss[0]), Fr(ss[1])]
                c = Case('gross_range_test', [data_input('inp', pat, carrier)], kw, n=len(pat), pat={'inp': pat},
                         meta={'class': 'suspect' if ss else 'fail-only'})
                yield c, specs.GrossRange(c)
    # spans around zero (a bound equal to 0 is a bound), negative spans, and a suspect span that sticks out of the fail span by very little
    # (in absolute terms for small bounds, in relative terms for large ones): "not contained" has no tolerance
    extra = [((-3, 3), (0, 2)), ((-3, 3), (-2, 0)), ((3, -3), (0, 0)), ((-3, -1), (-2, -2)), ((-5, 15), (0, 10)), ((-3, 0), (-2, -1)), ((0, 3), (1, 2)),
             ((0, 200000), (10, 200001)), ((0, 200000), (-1, 100)), ((900, Fr(101325, 100)), (950, Fr(1013255, 1000))),
             ((0, 30), (Fr(-5, 10**9), 20)), ((0, 30), (10, 30 + Fr(1, 10**7))), ((1000000, 2000000), (999999, 1500000))]
    for (fs, ss) in extra:
        for pat in ('p', 'pm'):
            kw = dict(fail_span=(Fr(fs[0]), Fr(fs[1])), suspect_span=[Fr(ss[0]), Fr(ss[1])])
            c = Case('gross_range_test', [data_input('inp', pat, carrier)], kw, n=len(pat), pat={'inp': pat}, meta={'class': 'suspect-around-zero-or-barely-outside'})
            yield c, specs.GrossRange(c)
    for bad in ((0, 1, 2), (0,), 5, [], ()):
        c = Case('gross_range_test', [data_input('inp', 'p', carrier)], dict(fail_span=bad), n=1, pat={'inp': 'p'}, meta={'class': 'malformed-fail-span'})
        yield c, specs.GrossRange(c)
        c = Case('gross_range_test', [data_input('inp', 'p', carrier)], dict(fail_span=(0, 3), suspect_span=bad), n=1, pat={'inp': 'p'},
                 meta={'class': 'malformed-suspect-span'})
        yield c, specs.GrossRange(c)


def valid_range(tier, carrier='ndarray'):
    bounds = [(1, 3), (2, 2), (None, 3), (1, None), (None, None), (0, 3), (-3, 0), (0, 0)]
    for (lo, hi), si, ei, kind in itertools.product(bounds, (None, True, False), (None, True, False), ('num', 'time')):
        for pat in (['p', 'pm', 'mp', ''] if tier == 'thorough' else ['pm']):
            kw = dict(valid_span=(None if lo is None else Fr(lo), None if hi is None else Fr(hi)))
            if si is not None:
                kw['start_inclusive'] = si
            if ei is not None:
                kw['end_inclusive'] = ei
            spec_kw = dict(kw)
            if kind == 'num':
                inp = data_input('inp', pat, carrier=carrier)
            else:
                cells = [El(('x', 'inp', i), False) if c == 'p' else El(X.NAN, False) for i, c in enumerate(pat)]
                inp = Vec.fresh(cells, kind='nd', dtype='M8', unit='ns', owner='inp')
                kw['valid_span'] = tuple(None if v is None else Sc(X.num(v), 'M8', 'ns') for v in kw['valid_span'])
            c = Case('valid_range_test', [inp], kw, n=len(pat), pat={'inp': pat}, meta={'class': kind})
            yield c, specs.ValidRange(Case('valid_range_test', [], spec_kw, n=len(pat), pat={'inp': pat}))


def valid_range_typed(tier):
    """data whose dtype is coarser than the bounds: integers with fractional or missing bounds, daily datetime stamps with a bound at noon -
    the span keeps its own precision (a value is outside or inside the span as numbers / instants, whatever array type carries it)"""
    for (lo, hi), si, ei in itertools.product([(Fr(3, 2), Fr(5, 2)), (None, Fr(5, 2)), (Fr(3, 2), None), (1, 3)], (None, False), (None, True)):
        kw = dict(valid_span=(lo if lo is None else Fr(lo), hi if hi is None else Fr(hi)))
        if si is not None:
            kw['start_inclusive'] = si
        if ei is not None:
            kw['end_inclusive'] = ei
        inp = data_input('inp', 'pp', carrier='ndarray_int')
        c = Case('valid_range_test', [inp], kw, n=2, pat={'inp': 'pp'}, meta={'class': 'integer-data'},
                 label=f'valid_range_test(integer ndarray; {kw})')
        yield c, specs.ValidRange(Case('valid_range_test', [], dict(kw), n=2, pat={'inp': 'pp'}))
    for (lo, hi), si, ei in itertools.product([(1, 3), (2, 2), (0, 3), (-3, 0)], (None, False), (None, True)):
        # whole-number bounds handed over as Python ints: the comparison of integers with integers is exact whatever their size
        kw = dict(valid_span=(lo, hi))
        if si is not None:
            kw['start_inclusive'] = si
        if ei is not None:
            kw['end_inclusive'] = ei
        c = Case('valid_range_test', [data_input('inp', 'pp', carrier='ndarray_int')], kw, n=2, pat={'inp': 'pp'},
                 meta={'class': 'integer-data-integer-bounds'}, label=f'valid_range_test(integer ndarray; integer bounds {kw})')
        yield c, specs.ValidRange(Case('valid_range_test', [], dict(kw, valid_span=(Fr(lo), Fr(hi))), n=2, pat={'inp': 'pp'}))
    for (lo, hi) in ((-1, 256), (0, 300), (-5, 3)):
        # whole-number bounds that the storage type of the data (uint8) cannot hold are still numbers: nothing wraps around
        kw = dict(valid_span=(lo, hi))
        c = Case('valid_range_test', [data_input('inp', 'pp', carrier='ndarray_u1')], kw, n=2, pat={'inp': 'pp'},
                 meta={'class': 'uint8-data-bounds-beyond-the-type'}, label=f'valid_range_test(uint8 ndarray; integer bounds {kw})')
        yield c, specs.ValidRange(Case('valid_range_test', [], dict(kw, valid_span=(Fr(lo), Fr(hi))), n=2, pat={'inp': 'pp'}))
    day = 86400
    for (lo, hi) in ((Fr(day, 2), Fr(5 * day, 2)), (day, 3 * day)):
        cells = [El(('x', 'inp', i), False) for i in range(2)]
        inp = Vec.fresh(cells, kind='nd', dtype='M8', unit='D', owner='inp')
        kw = dict(valid_span=tuple(Sc(X.num(v), 'M8', 'ns') for v in (lo, hi)))
        c = Case('valid_range_test', [inp], kw, n=2, pat={'inp': 'pp'}, meta={'class': 'daily-stamps'},
                 label=f'valid_range_test(datetime64[D] data; span {lo}s .. {hi}s after the epoch)')
        yield c, specs.ValidRange(Case('valid_range_test', [], dict(valid_span=(Fr(lo), Fr(hi))), n=2, pat={'inp': 'pp'}))


def pressure(tier):
    """concrete-valued profiles: every weak ordering pattern of up to 4 values from a small grid"""
    grid = [0, 1, 2, 3]
    for n in lengths(tier, [0, 1, 2, 3, 4], [0, 1, 2, 3, 4, 5]):
        combos = itertools.product(grid, repeat=n)
        for vals in combos:
            if n == 5 and len(set(vals)) > 3:
                continue
            cells = [El(X.num(v), False) for v in vals]
            inp = Vec.fresh(cells, kind='nd', dtype='f8', owner='inp')
            c = Case('pressure_increasing_test', [inp], {}, n=n, pat={'inp': 'p' * n}, meta={'class': 'profile', 'values': list(vals)},
                     label=f'pressure_increasing_test({list(vals)})')
            yield c, None
    # long profiles (a real cast has hundreds of levels): a steady descent / ascent with a dip, a plateau and a reversal near either end
    for n in (21, 45):
        base = list(range(n))
        variants = {'steady': base, 'dip near the start': base[:3] + [1] + base[4:], 'plateau in the middle': base[:n // 2] + [base[n // 2 - 1]] + base[n // 2 + 1:],
                    'reversal at the end': base[:-1] + [n - 3], 'upcast with a dip': [n - v for v in base[:n - 4]] + [5, 3, 2, 1],
                    # the net movement is carried by one large step (a sparsely sampled dive) against many small opposite ones (a densely sampled climb)
                    'one large step against many small ones': [0, 10 * n] + [10 * n - i for i in range(1, n - 1)],
                    'two large steps against many small ones': [5 * n, 0, -5 * n] + [-5 * n + i for i in range(1, n - 2)]}
        for vname, vals in variants.items():
            cells = [El(X.num(v), False) for v in vals]
            inp = Vec.fresh(cells, kind='nd', dtype='f8', owner='inp')
            c = Case('pressure_increasing_test', [inp], {}, n=n, pat={'inp': 'p' * n}, meta={'class': 'long-profile', 'values': list(vals)},
                     label=f'pressure_increasing_test({n} levels, {vname})')
            yield c, None


# ------------------------------------------------------------------------------------------------
# climatology

def _epoch(y, m, d, hh=0):
    import datetime as _dt
    return int((_dt.datetime(y, m, d, hh) - _dt.datetime(1970, 1, 1)).total_seconds())


# real calendar instants (the calendar attributes are computed with the stdlib datetime module):
#   2021-01-02 (ISO week 53 of 2020, day-of-year 2), 2021-02-01 (month 2, week 5, doy 32: lower span ends),
#   2021-02-10 (inside), 2021-03-31 (month 3, week 13, doy 90: upper span ends), 2024-12-30 (ISO week 1 of 2025, doy 365, Q4)
CLIM_T = [_epoch(2021, 1, 2), _epoch(2021, 2, 1), _epoch(2021, 2, 10), _epoch(2021, 3, 31), _epoch(2024, 12, 30)]
T_LO, T_HI = CLIM_T[1], CLIM_T[3]


def clim_members():
    """member lists covering: absolute / periodic spans, with / without depth and fail spans, overlap, order"""
    T = (T_LO, T_HI)
    base = dict(tspan=T, vspan=(2, 4))
    out = {
        'none': [],
        'abs': [dict(base)],
        'abs-f': [dict(base, fspan=(1, 5))],
        'abs-z': [dict(base, zspan=(10, 20))],
        'abs-zf': [dict(base, zspan=(20, 10), fspan=(5, 1))],
        'abs-rev': [dict(tspan=(T_HI, T_LO), vspan=(4, 2))],
        'abs-f-inside-v': [dict(base, vspan=(2, 6), fspan=(3, 5))],
        'abs-f-overlap-v': [dict(base, vspan=(3, 6), fspan=(0, 4), zspan=(10, 20))],
        'month-f-overlap-v': [dict(tspan=(2, 3), vspan=(3, 6), period='month', fspan=(4, 8))],
        'f-then-plain': [dict(base, fspan=(1, 5)), dict(tspan=T, vspan=(3, 6))],
        'month': [dict(tspan=(2, 3), vspan=(2, 4), period='month')],
        'month-z': [dict(tspan=(2, 3), vspan=(2, 4), period='month', zspan=(10, 20))],
        'month-zf': [dict(tspan=(3, 2), vspan=(2, 4), period='month', zspan=(10, 20), fspan=(1, 5))],
        'week': [dict(tspan=(5, 13), vspan=(2, 4), period='week')],
        'week-edge': [dict(tspan=(52, 53), vspan=(2, 4), period='week'), dict(tspan=(1, 1), vspan=(3, 6), period='weekofyear', fspan=(0, 8))],
        'weekofyear-z': [dict(tspan=(5, 13), vspan=(2, 4), period='weekofyear', zspan=(10, 20))],
        'dayofyear': [dict(tspan=(32, 90), vspan=(2, 4), period='dayofyear', fspan=(0, 6))],
        'dayofyear-edge': [dict(tspan=(365, 366), vspan=(2, 4), period='dayofyear'), dict(tspan=(1, 2), vspan=(3, 6), period='dayofyear')],
        'quarter-z': [dict(tspan=(1, 1), vspan=(2, 4), period='quarter', zspan=(10, 20))],
        'year': [dict(tspan=(2021, 2021), vspan=(2, 4), period='year')],
        'overlap': [dict(base), dict(tspan=(CLIM_T[2], CLIM_T[4]), vspan=(3, 6), fspan=(0, 8))],
        'overlap-rev': [dict(tspan=(CLIM_T[2], CLIM_T[4]), vspan=(3, 6), fspan=(0, 8)), dict(base)],
        'overlap-z': [dict(base), dict(tspan=T, vspan=(3, 6), zspan=(10, 20))],
        'z-then-plain': [dict(tspan=T, vspan=(3, 6), zspan=(10, 20)), dict(base)],
        'z-then-month': [dict(tspan=T, vspan=(3, 6), zspan=(10, 20), fspan=(0, 8)), dict(tspan=(2, 3), vspan=(2, 4), period='month')],
        'mixed': [dict(tspan=(2, 3), vspan=(2, 4), period='month'), dict(base, zspan=(10, 20), fspan=(1, 5))],
        # the same window configured twice (a baseline and a later correction), alone and around a different overlapping member
        'same-window-twice': [dict(base), dict(base, vspan=(3, 6), fspan=(0, 8))],
        'correction-after-other': [dict(base), dict(tspan=(CLIM_T[2], CLIM_T[4]), vspan=(3, 6), fspan=(0, 8)), dict(base, vspan=(5, 7))],
        'month-correction-after-other': [dict(tspan=(2, 3), vspan=(2, 4), period='month'), dict(tspan=(1, 2), vspan=(3, 6), period='month', fspan=(0, 8)),
                                         dict(tspan=(2, 3), vspan=(5, 7), period='month')],
    }
    return out


def climatology(tier, carrier='list_none', tcarrier='dt64', members=None):
    from .models_pd import TS
    from .models_lib import calendar_value
    mem = clim_members()
    feats = {}
    for s in CLIM_T:
        for k in ('month', 'week', 'dayofyear', 'quarter', 'year', 'dayofweek', 'day'):
            feats[(Fr(s), k)] = calendar_value(Fr(s), k)
    zvals_all = [5, 10, 15, 20, 25]
    for name, ms in mem.items():
        if members and name not in members:
            continue
        cfg = []
        for m in ms:
            d = dict(m)
            if d.get('period') is None:
                d['tspan'] = (TS(d['tspan'][0]), TS(d['tspan'][1]))
            cfg.append({k: (tuple(Fr(a) if not isinstance(a, TS) else a for a in v) if isinstance(v, tuple) else v) for k, v in d.items()})
        has_z = any(m.get('zspan') is not None for m in ms)
        zsets = [[15] * 5]
        if has_z:
            zsets = [zvals_all, [15] * 5]
        for z in zsets:
            zpats = ['ppppp']
            if has_z:
                zpats += ['pmpmp', 'mmmmm', 'mpppp']
            if tier == 'thorough':
                zpats += ['ppmpp']
            for zp in zpats:
                ipats = ['ppppp', 'pmppm', 'mpmpp'] if tier != 'thorough' else ['ppppp', 'pmppm', 'mpmpp', 'ppmpp', 'mmmmm']
                orders = [list(range(5))]
                if name in ('abs', 'abs-z', 'overlap', 'month', 'week-edge', 'mixed') and zp == 'ppppp':
                    orders.append([2, 0, 4, 1, 3])          # observations not in chronological order
                for ip in ipats:
                  for order in orders:
                    t = [CLIM_T[i] for i in order]
                    zin = data_input('zinp', zp, carrier, values=[Fr(v) for v in z])
                    c = Case('climatology_test', [], dict(config=cfg, inp=data_input('inp', ip, carrier), tinp=time_input('tinp', t, tcarrier), zinp=zin),
                             n=5, pat={'inp': ip, 'zinp': zp},
                             meta={'class': name + ('' if order == sorted(order) else '/unsorted-times'), 't': t, 'z': z, 'feat': feats, 'members': ms},
                             label=f'climatology_test(members={name}; inp:{ip!r} zinp:{zp!r} z={z}' + ('' if order == sorted(order) else f'; time order {order}') + ')')
                    yield c, specs.Climatology(c)
    # instants that are not on whole seconds, just outside / on the ends of an absolute member span, in every time spelling that can carry them
    if members is None or 'sub-second' in members:
        half = Fr(1, 2)
        t = [T_LO - half, Fr(T_LO), Fr(T_HI), T_HI + half, T_HI + 3 * half]
        ms = [dict(tspan=(T_LO, T_HI), vspan=(2, 4), fspan=(1, 5))]
        cfg = [dict(tspan=(TS(T_LO), TS(T_HI)), vspan=(Fr(2), Fr(4)), fspan=(Fr(1), Fr(5)))]
        for tc in ('dt64', 'epoch_array', 'epoch_list', 'dtindex', 'pydatetime'):
            for ip in ('ppppp', 'pmppp'):
                c = Case('climatology_test', [], dict(config=cfg, inp=data_input('inp', ip, carrier), tinp=time_input('tinp', t, tc),
                                                     zinp=data_input('zinp', 'ppppp', carrier, values=[Fr(15)] * 5)),
                         n=5, pat={'inp': ip, 'zinp': 'ppppp'}, meta={'class': f'sub-second/{tc}', 't': t, 'z': [15] * 5, 'feat': {}, 'members': ms},
                         label=f'climatology_test(member ends on whole seconds, observations half a second outside; time={tc}; inp:{ip!r})')
                yield c, specs.Climatology(c)


ALL = {
    'gross_range_test': gross_range, 'valid_range_test': valid_range, 'location_test': location, 'spike_test': spike,
    'rate_of_change_test': rate_of_change, 'flat_line_test': flat_line, 'attenuated_signal_test': attenuated,
    'density_inversion_test': density, 'speed_test': speed, 'climatology_test': climatology,
}
